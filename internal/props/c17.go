package props

// C17 — errors and debug queries report the right source line and variables.

import (
	"fmt"

	lua "github.com/yuin/gopher-lua"

	"verif/internal/harness"
	. "verif/internal/luaref"
)

func init() { harness.Register("C17", "exploration", runC17) }

func runC17(r *harness.Run) {
	pr := &progRunner{r: r, prop: "C17", opts: lua.Options{}}
	th := r.Thorough()
	gens := map[string]Gen{"F-faultline": genFaultLine(th), "F-getinfo": genGetInfo(th), "F-locals": genLocals(th), "F-nestlocals": genNestLocals(th), "F-firstblock": genFirstBlock(), "F-crlf": genCRLFProgs(),
		"B-crlf/F-crlf": bufBoundary(genCRLFProgs(), "\r\n"), "B-lfcr/F-crlf": bufBoundary(genCRLFProgs(), "\n\r"), "B-crlf/F-getinfo": bufBoundary(genGetInfo(false), "\r\n"), "B-crlf/F-locals": bufBoundary(genLocals(false), "\r\n")}
	r.Rule = "fault sites (arithmetic/index/call/compare/concat/length/for on wrong types, error() at levels 0/1/2, failing sub-expressions in argument lists, constructors, conditions, method calls, returns) x enclosing block kind x every member of a layout set (LF/CR/CRLF/LFCR, tabs, indentation, semicolons, leading blank lines, four comment forms, redundant parentheses, and a line break inserted at every single token gap of the program); " +
		"the reference interpreter derives the admissible line range from the token lines the printer recorded for that very layout; debug.getinfo currentline/linedefined/lastlinedefined probes and debug.getlocal/getupvalue/setlocal/setupvalue probes inserted at every statement gap of a set of scope-exercising programs, again under layouts"
	r.Assumptions = []string{"a statement spread over several lines admits any of its lines (the property says 'names a line of the innermost statement')", "names starting with '(' (temporaries, hidden loop variables) are ignored in local enumerations", "upvalue enumerations are compared as sets (sorted by name)"}
	runPinned(r, "C17")
	shebangLines(r)
	pr.runGens(gens, []string{"F-crlf", "B-crlf/F-crlf", "B-lfcr/F-crlf", "F-locals", "F-getinfo", "F-nestlocals", "F-firstblock", "B-crlf/F-getinfo", "B-crlf/F-locals", "F-faultline"})
}

// layouts for a program with ntok tokens; quick tier thins the gap sweep for large programs
func c17Layouts(ntok int, thorough bool) []struct {
	name string
	lay  Layout
} {
	type L = struct {
		name string
		lay  Layout
	}
	out := []L{
		{"default", Layout{}},
		{"cr", Layout{EOL: "\r"}},
		{"crlf", Layout{EOL: "\r\n"}},
		{"lfcr", Layout{EOL: "\n\r"}},
		{"tabs-indent", Layout{Tabs: true, Indent: true}},
		{"semi", Layout{StmtSep: "semi"}},
		{"lead3", Layout{LeadingLines: 3}},
		{"parens", Layout{ParenOperands: true}},
		{"oneline", Layout{StmtSep: "sp"}},
		{"semisp", Layout{StmtSep: "semisp"}},
	}
	comments := []string{"--x\n", "--[[x]]", "--[==[x\ny\nz]==]", "--[x\n", "--]]\n", "--[[\n]]", "--[==[a]=\nb]\nc]==]", "--[=[a]\nb]==\n]=]", "--[=\n", "--[==\n", "--[=x\n", "--[\n"}
	for ci, c := range comments {
		for _, g := range []int{1, 7, ntok / 2, ntok - 3} {
			if g >= 1 && g < ntok {
				out = append(out, L{fmt.Sprintf("comment%d@%d", ci, g), Layout{CommentAtGap: g, Comment: c}})
			}
		}
	}
	step := 1
	if !thorough && ntok > 90 {
		step = 2
	}
	for g := 1; g < ntok; g += step {
		out = append(out, L{fmt.Sprintf("break@%d", g), Layout{BreakAtGap: g}})
		if thorough {
			out = append(out, L{fmt.Sprintf("break@%d+crlf", g), Layout{BreakAtGap: g, EOL: "\r\n"}})
		}
	}
	return out
}

func countTokens(b *Block) int {
	// the printer separates tokens by single blanks in the "sp" layout: count fields
	src := Print(b, Layout{StmtSep: "sp"})
	n := 0
	in := false
	for i := 0; i < len(src); i++ {
		c := src[i]
		if c == ' ' || c == '\n' {
			in = false
		} else if !in {
			in = true
			n++
		}
	}
	return n
}

// ---- F-faultline -------------------------------------------------------------------------------------

func genFaultLine(thorough bool) Gen {
	return func(yield func(*Prog)) {
		type site struct {
			name string
			mk   func() Stat
			last bool // must be the last statement of its block (return)
		}
		nf := func() Expr { return Dot(Name("nilv"), "f") }
		sites := []site{
			{"arith", func() Stat { return Local1("x", Bin("+", Name("nilv"), Num(1))) }, false},
			{"arith-nested", func() Stat { return Local1("x", Bin("+", Num(1), Paren(Bin("*", Num(2), Name("nilv"))))) }, false},
			{"index", func() Stat { return Local1("x", nf()) }, false},
			{"call", func() Stat { return CallS(Name("nilv")) }, false},
			{"compare", func() Stat { return Local1("x", Bin("<", Name("nilv"), Num(1))) }, false},
			{"concat", func() Stat { return Local1("x", Bin("..", Name("nilv"), Str("s"))) }, false},
			{"len", func() Stat { return Local1("x", Un("#", Name("nilv"))) }, false},
			{"unm", func() Stat { return Local1("x", Un("-", Name("obj"))) }, false},
			{"forinit", func() Stat { return NumFor("i", Name("nilv"), Num(2), nil) }, false},
			{"forinit-body", func() Stat { return NumFor("i", Name("nilv"), Num(2), nil, Emit(Name("i")), Local1("q", Name("i"))) }, false},
			{"forlimit-body", func() Stat { return NumFor("i", Num(1), Name("obj"), nil, Emit(Name("i")), Local1("q", Name("i"))) }, false},
			{"forstep-body", func() Stat { return NumFor("i", Num(1), Num(2), Str("x"), Emit(Name("i")), Local1("q", Name("i"))) }, false},
			{"error1", func() Stat { return CallS(Name("error"), Str("m")) }, false},
			{"error1x", func() Stat { return CallS(Name("error"), Str("m"), Num(1)) }, false},
			{"error0", func() Stat { return CallS(Name("error"), Str("m"), Num(0)) }, false},
			{"errortab", func() Stat { return CallS(Name("error"), TableE()) }, false},
			{"level2", func() Stat { return CallS(Name("callee"), Num(1)) }, false},
			{"level2-local", func() Stat { return Local1("x", CallN("callee", Num(1))) }, false},
			{"argindex", func() Stat { return Emit(Num(1), nf(), Num(2)) }, false},
			{"tconsindex", func() Stat { return Local1("t", TableE(Pos1(Num(1)), Pos1(nf()))) }, false},
			{"ifcond", func() Stat { return If(nf(), Emit(Num(1))) }, false},
			{"elseifcond", func() Stat {
				return &IfStat{Conds: []Expr{Name("nilv"), nf()}, Blocks: []*Block{Blk(Emit(Num(1))), Blk(Emit(Num(2)))}}
			}, false},
			{"whilecond", func() Stat { return While(nf(), Emit(Num(1))) }, false},
			{"untilcond", func() Stat { return Repeat(nf(), Emit(Str("body"))) }, false},
			{"method", func() Stat { return &CallStat{Call: Method(Name("obj"), "nomethod")} }, false},
			{"setfield", func() Stat { return Assign1(Dot(Dot(Name("obj"), "a"), "b"), Num(1)) }, false},
			{"setindexnil", func() Stat { return Assign1(Index(Name("obj"), Name("nilv")), Num(1)) }, false},
			{"return-index", func() Stat { return Return(nf()) }, true},
			{"return-tailcall", func() Stat { return Return(CallN("nilv")) }, true},
			{"return-call2", func() Stat { return Return(Num(1), CallN("nilv")) }, true},
			// tail calls whose callee is a host function (the calling frame stays: a host function is
			// not entered by replacing a frame) or a Lua function that blames its caller
			{"return-error1", func() Stat { return Return(CallN("error", Str("m"))) }, true},
			{"return-error1x", func() Stat { return Return(CallN("error", Str("m"), Num(1))) }, true},
			{"return-error2", func() Stat { return Return(CallN("error", Str("m"), Num(2))) }, true},
			{"return-hostarg", func() Stat { return Return(CallN("setmetatable", Num(1), Num(2))) }, true},
			{"return-level2", func() Stat { return Return(CallN("callee", Num(1))) }, true},
			{"genfor-nil", func() Stat { return GenFor(names("k"), []Expr{Name("nilv")}, Emit(Name("k"))) }, false},
			{"hostarg", func() Stat { return CallS(Name("setmetatable"), Num(1), Num(2)) }, false},
			{"assign-multi", func() Stat { return Assign([]Expr{Dot(Name("obj"), "p"), Dot(Name("obj"), "q")}, Num(1), nf()) }, false},
		}
		type wrapper struct {
			name string
			mk   func(s Stat) []Stat
		}
		wrappers := []wrapper{
			{"plain", func(s Stat) []Stat { return []Stat{Emit(Str("before")), s} }},
			{"if", func(s Stat) []Stat { return []Stat{If(True(), Emit(Str("in")), s)} }},
			{"else", func(s Stat) []Stat { return []Stat{IfElse(Name("nilv"), []Stat{Emit(Num(0))}, []Stat{s})} }},
			{"while", func(s Stat) []Stat { return []Stat{While(True(), s)} }},
			{"for", func(s Stat) []Stat { return []Stat{NumFor("i", Num(1), Num(1), nil, Local1("y", Name("i")), s)} }},
			{"repeat", func(s Stat) []Stat { return []Stat{Repeat(True(), s)} }},
			{"do", func(s Stat) []Stat { return []Stat{Do(Local1("z", Num(1)), s)} }},
			{"inner", func(s Stat) []Stat { return []Stat{LocalFunc("inner", Func(nil, false, s)), CallS(Name("inner"))} }},
			// the faulting function was itself reached by one / two tail calls
			{"tail-reached", func(s Stat) []Stat { return []Stat{LocalFunc("inner", Func(nil, false, s)), Return(CallN("inner"))} }},
			{"tail-reached-twice", func(s Stat) []Stat {
				return []Stat{LocalFunc("inner", Func(nil, false, Emit(Str("inner")), s)), LocalFunc("mid", Func(nil, false, Return(CallN("inner")))), Return(CallN("mid"))}
			}},
			{"after-longstring", func(s Stat) []Stat { return []Stat{Local1("ls", &StrExpr{V: "a\nb\nc", Raw: "[[a\nb\nc]]"}), s} }},
			{"after-longstring-eq", func(s Stat) []Stat {
				return []Stat{Local1("ls", &StrExpr{V: "a]=\nb]\nc]==\nd", Raw: "[===[a]=\nb]\nc]==\nd]===]"}), Local1("l2", &StrExpr{V: "x]\n", Raw: "[=[x]\n]=]"}), s}
			}},
			{"after-closure", func(s Stat) []Stat {
				return []Stat{Local1("fn", Func(names("q"), false, Return(Name("q")))), Local(names("a", "b"), CallN("fn", Num(1)), Num(2)), s}
			}},
		}
		for _, st := range sites {
			for _, w := range wrappers {
				st, w := st, w
				mk := func() *Block {
					return Blk(
						Local1("nilv", Nil()), Local1("obj", TableE()),
						LocalFunc("callee", Func(names("a"), false, CallS(Name("error"), Str("lvl2"), Num(2)))),
						LocalFunc("test", Func(nil, false, w.mk(st.mk())...)),
						Emit(Str("r"), CallN("pcall", Name("test"))),
					)
				}
				ntok := countTokens(mk())
				for _, l := range c17Layouts(ntok, thorough) {
					l := l
					yield(&Prog{Family: "F-faultline", Shape: st.name + "/" + w.name + "/" + layoutClass(l.name), Layout: l.lay, Mk: mk})
				}
			}
		}
	}
}

func layoutClass(n string) string {
	for i := 0; i < len(n); i++ {
		if n[i] == '@' {
			return n[:i]
		}
	}
	return n
}

// ---- F-getinfo ---------------------------------------------------------------------------------------

func genGetInfo(thorough bool) Gen {
	return func(yield func(*Prog)) {
		where := func() Stat {
			return LocalFunc("where", Func(names("lvl"), false, Local1("i", Call(Dot(Name("debug"), "getinfo"), Bin("+", Name("lvl"), Num(1)), Str("l"))), Return(Dot(Name("i"), "currentline"))))
		}
		fdef := func() Stat {
			return LocalFunc("fdef", Func(names("f"), false, Local1("i", Call(Dot(Name("debug"), "getinfo"), Name("f"), Str("S"))), Return(Dot(Name("i"), "linedefined"), Dot(Name("i"), "lastlinedefined"), Dot(Name("i"), "what"))))
		}
		W := func(tag string) Stat { return Emit(Str(tag), CallN("where", Num(1))) }
		progs := []struct {
			name string
			mk   func() []Stat
		}{
			{"statements", func() []Stat {
				return []Stat{W("a"), Local1("x", Num(1)), W("b"), If(Bin("==", Name("x"), Num(1)), W("then"), Local1("y", Num(2)), W("then2")), Do(W("do")), W("end")}
			}},
			{"loops", func() []Stat {
				return []Stat{NumFor("i", Num(1), Num(2), nil, W("for")), Local1("n", Num(0)), While(Bin("<", Name("n"), Num(2)), Assign1(Name("n"), Bin("+", Name("n"), Num(1))), W("while")), Repeat(Bin(">=", Name("n"), Num(3)), Assign1(Name("n"), Bin("+", Name("n"), Num(1))), W("repeat")),
					GenFor(names("k", "v"), []Expr{CallN("ipairs", TableE(Pos1(Str("p"))))}, W("genfor"))}
			}},
			{"expr-positions", func() []Stat {
				return []Stat{Local1("t", TableE(Pos1(CallN("where", Num(1))), NamedField("k", CallN("where", Num(1))))), Emit(Str("t"), Index(Name("t"), Num(1)), Dot(Name("t"), "k")), Emit(Str("args"), Num(1), CallN("where", Num(1)), Num(2)),
					Local1("c", Bin("or", Bin("and", CallN("where", Num(1)), Nil()), CallN("where", Num(1)))), Emit(Str("c"), Name("c")), If(CallN("where", Num(1)), Emit(Str("cond")))}
			}},
			{"levels", func() []Stat {
				inner := LocalFunc("inner", Func(nil, false, Emit(Str("inner"), CallN("where", Num(1)), CallN("where", Num(2))), Return(Num(0))))
				outer := LocalFunc("outer", Func(nil, false, Local1("r", CallN("inner")), Emit(Str("outer"), CallN("where", Num(1))), Return(Name("r"))))
				return []Stat{inner, outer, CallS(Name("outer")), Emit(Str("main"), CallN("where", Num(1)))}
			}},
			{"linedefined", func() []Stat {
				f1 := LocalFunc("f1", Func(names("a"), false, Local1("b", Name("a")), Return(Name("b"))))
				f2 := Local1("f2", Func(nil, false, Return(Num(1))))
				obj := Local1("o", TableE(NamedField("m", Func(names("self"), false, Return(Name("self"))))))
				meth := &FuncStat{Path: []string{"o"}, Method: "n", Func: Func(names("x"), false, Local1("q", Name("x")), Return(Name("q")))}
				nested := LocalFunc("outerf", Func(nil, false, Local1("innerf", Func(nil, false, Return(Num(2)))), Return(Name("innerf"))))
				return []Stat{f1, f2, obj, meth, nested, Emit(Str("f1"), CallN("fdef", Name("f1"))), Emit(Str("f2"), CallN("fdef", Name("f2"))), Emit(Str("m"), CallN("fdef", Dot(Name("o"), "m"))), Emit(Str("n"), CallN("fdef", Dot(Name("o"), "n"))),
					Emit(Str("outerf"), CallN("fdef", Name("outerf"))), Emit(Str("innerf"), CallN("fdef", CallN("outerf")))}
			}},
		}
		for _, p := range progs {
			p := p
			mk := func() *Block { return Blk(append([]Stat{where(), fdef()}, p.mk()...)...) }
			ntok := countTokens(mk())
			for _, l := range c17Layouts(ntok, true) {
				l := l
				yield(&Prog{Family: "F-getinfo", Shape: p.name + "/" + layoutClass(l.name), Layout: l.lay, Mk: mk})
			}
		}
	}
}

// ---- F-locals ----------------------------------------------------------------------------------------

// insertion points: every gap of every block of a program
func countGaps(b *Block) int {
	n := 0
	var walkB func(b *Block)
	var walkE func(e Expr)
	walkE = func(e Expr) {
		switch x := e.(type) {
		case *FuncExpr:
			walkB(x.Body)
		case *CallExpr:
			walkE(x.Fn)
			for _, a := range x.Args {
				walkE(a)
			}
		case *TableExpr:
			for _, f := range x.Fields {
				walkE(f.Val)
			}
		case *BinExpr:
			walkE(x.L)
			walkE(x.R)
		case *ParenExpr:
			walkE(x.E)
		}
	}
	walkB = func(b *Block) {
		if b == nil {
			return
		}
		cnt := len(b.Stats) + 1
		if len(b.Stats) > 0 {
			switch b.Stats[len(b.Stats)-1].(type) {
			case *ReturnStat, *BreakStat:
				cnt-- // nothing may follow return/break
			}
		}
		n += cnt
		for _, st := range b.Stats {
			switch s := st.(type) {
			case *LocalStat:
				for _, e := range s.Exprs {
					walkE(e)
				}
			case *AssignStat:
				for _, e := range s.Exprs {
					walkE(e)
				}
			case *CallStat:
				walkE(s.Call)
			case *DoStat:
				walkB(s.Body)
			case *WhileStat:
				walkB(s.Body)
			case *RepeatStat:
				walkB(s.Body)
			case *IfStat:
				for _, bb := range s.Blocks {
					walkB(bb)
				}
				walkB(s.Else)
			case *NumForStat:
				walkB(s.Body)
			case *GenForStat:
				walkB(s.Body)
			case *FuncStat:
				walkB(s.Func.Body)
			case *LocalFuncStat:
				walkB(s.Func.Body)
			case *ReturnStat:
				for _, e := range s.Exprs {
					walkE(e)
				}
			}
		}
	}
	walkB(b)
	return n
}

// insertAt inserts stat at the k-th gap (same traversal order as countGaps); returns false if k is out of range
func insertAt(b *Block, k int, mk func() Stat) bool {
	n := 0
	done := false
	var walkB func(b *Block)
	var walkE func(e Expr)
	walkE = func(e Expr) {
		if done {
			return
		}
		switch x := e.(type) {
		case *FuncExpr:
			walkB(x.Body)
		case *CallExpr:
			walkE(x.Fn)
			for _, a := range x.Args {
				walkE(a)
			}
		case *TableExpr:
			for _, f := range x.Fields {
				walkE(f.Val)
			}
		case *BinExpr:
			walkE(x.L)
			walkE(x.R)
		case *ParenExpr:
			walkE(x.E)
		}
	}
	walkB = func(b *Block) {
		if b == nil || done {
			return
		}
		cnt := len(b.Stats) + 1
		if len(b.Stats) > 0 {
			switch b.Stats[len(b.Stats)-1].(type) {
			case *ReturnStat, *BreakStat:
				cnt--
			}
		}
		if k >= n && k < n+cnt {
			pos := k - n
			ns := append([]Stat{}, b.Stats[:pos]...)
			ns = append(ns, mk())
			ns = append(ns, b.Stats[pos:]...)
			b.Stats = ns
			done = true
			return
		}
		n += cnt
		for _, st := range b.Stats {
			if done {
				return
			}
			switch s := st.(type) {
			case *LocalStat:
				for _, e := range s.Exprs {
					walkE(e)
				}
			case *AssignStat:
				for _, e := range s.Exprs {
					walkE(e)
				}
			case *CallStat:
				walkE(s.Call)
			case *DoStat:
				walkB(s.Body)
			case *WhileStat:
				walkB(s.Body)
			case *RepeatStat:
				walkB(s.Body)
			case *IfStat:
				for _, bb := range s.Blocks {
					walkB(bb)
				}
				walkB(s.Else)
			case *NumForStat:
				walkB(s.Body)
			case *GenForStat:
				walkB(s.Body)
			case *FuncStat:
				walkB(s.Func.Body)
			case *LocalFuncStat:
				walkB(s.Func.Body)
			case *ReturnStat:
				for _, e := range s.Exprs {
					walkE(e)
				}
			}
		}
	}
	walkB(b)
	return done
}

func genLocals(thorough bool) Gen {
	return func(yield func(*Prog)) {
		dbg := func(f string, args ...Expr) Expr { return Call(Dot(Name("debug"), f), args...) }
		// plocals(tag): named locals of the caller, in order, with values
		plocals := func() Stat {
			return FuncS("plocals", Func(names("tag"), false,
				Local1("i", Num(1)),
				While(True(),
					Local(names("n", "v"), dbg("getlocal", Num(2), Name("i"))),
					If(Bin("==", Name("n"), Nil()), Break()),
					If(Bin("~=", Method(Name("n"), "sub", Num(1), Num(1)), Str("(")), Emit(Str("L"), Name("tag"), Name("n"), Name("v"))),
					Assign1(Name("i"), Bin("+", Name("i"), Num(1)))),
				Emit(Str("Lend"), Name("tag"))))
		}
		// setl(name, v): sets every visible local of the caller with that name
		setl := func() Stat {
			return FuncS("setl", Func(names("name", "nv"), false,
				Local1("i", Num(1)),
				While(True(),
					Local1("n", Paren(dbg("getlocal", Num(2), Name("i")))),
					If(Bin("==", Name("n"), Nil()), Break()),
					If(Bin("==", Name("n"), Name("name")), Emit(Str("setlocal"), dbg("setlocal", Num(2), Name("i"), Name("nv")))),
					Assign1(Name("i"), Bin("+", Name("i"), Num(1))))))
		}
		// puvs(tag, f): upvalues of f sorted by name
		puvs := func() Stat {
			return FuncS("puvs", Func(names("tag", "f"), false,
				Local(names("ns", "vs", "i"), TableE(), TableE(), Num(1)),
				While(True(),
					Local(names("n", "v"), dbg("getupvalue", Name("f"), Name("i"))),
					If(Bin("==", Name("n"), Nil()), Break()),
					Assign1(Index(Name("ns"), Name("i")), Name("n")), Assign1(Index(Name("vs"), Name("n")), Name("v")),
					Assign1(Name("i"), Bin("+", Name("i"), Num(1)))),
				// insertion sort by name
				NumFor("a", Num(2), Bin("-", Name("i"), Num(1)), nil,
					Local(names("x", "b"), Index(Name("ns"), Name("a")), Bin("-", Name("a"), Num(1))),
					While(Bin("and", Bin(">=", Name("b"), Num(1)), Bin(">", Index(Name("ns"), Name("b")), Name("x"))),
						Assign1(Index(Name("ns"), Bin("+", Name("b"), Num(1))), Index(Name("ns"), Name("b"))), Assign1(Name("b"), Bin("-", Name("b"), Num(1)))),
					Assign1(Index(Name("ns"), Bin("+", Name("b"), Num(1))), Name("x"))),
				NumFor("a", Num(1), Bin("-", Name("i"), Num(1)), nil, Emit(Str("U"), Name("tag"), Index(Name("ns"), Name("a")), Index(Name("vs"), Index(Name("ns"), Name("a"))))),
				Emit(Str("Uend"), Name("tag"))))
		}
		// setu(f, name, v)
		setu := func() Stat {
			return FuncS("setu", Func(names("f", "name", "nv"), false,
				Local1("i", Num(1)),
				While(True(),
					Local1("n", Paren(dbg("getupvalue", Name("f"), Name("i")))),
					If(Bin("==", Name("n"), Nil()), Break()),
					If(Bin("==", Name("n"), Name("name")), Emit(Str("setupvalue"), dbg("setupvalue", Name("f"), Name("i"), Name("nv")))),
					Assign1(Name("i"), Bin("+", Name("i"), Num(1))))))
		}
		type base struct {
			name string
			mk   func() []Stat // body of function test(p1, p2)
		}
		bases := []base{
			{"sequential", func() []Stat {
				return []Stat{Local1("a", Num(1)), Local(names("b", "c"), Num(2), Num(3)), Assign1(Name("a"), Num(10)), Local1("d", Bin("+", Name("a"), Name("b")))}
			}},
			{"shadow", func() []Stat {
				return []Stat{Local1("a", Num(1)), Local1("a", Num(2)), Do(Local1("a", Num(3)), Local1("b", Num(4))), Local1("c", Num(5))}
			}},
			{"shadow-inner", func() []Stat {
				return []Stat{Local1("x", Str("outer")), Local1("y", Str("why")), Do(Local1("x", Str("inner")), Local1("w", Num(1))), Local1("z", Num(4)), If(Name("x"), Local1("y", Str("inner-y"))), Local1("last", Num(9))}
			}},
			{"nested-loops", func() []Stat {
				return []Stat{Local1("acc", Num(0)), NumFor("i", Num(1), Num(2), nil, NumFor("j", Num(1), Num(2), nil, Assign1(Name("acc"), Bin("+", Name("acc"), Name("j")))), Local1("after", Name("acc"))),
					GenFor(names("k"), []Expr{CallN("ipairs", TableE(Pos1(Str("p"))))}, GenFor(names("k2"), []Expr{CallN("ipairs", TableE(Pos1(Str("q"))))}, Local1("in2", Name("k2"))), Local1("after2", Name("k"))), Local1("end1", Num(1))}
			}},
			{"blocks", func() []Stat {
				return []Stat{Local1("a", Num(1)), Do(Local1("b", Num(2)), Do(Local1("c", Num(3)))), Local1("d", Num(4)), If(Name("a"), Local1("e", Num(5))), Local1("f", Num(6))}
			}},
			{"ifelse", func() []Stat {
				return []Stat{Local1("a", Num(1)), IfElse(Bin("==", Name("a"), Num(2)), []Stat{Local1("t1", Num(1))}, []Stat{Local1("e1", Num(2)), Local1("e2", Num(3))}), Local1("z", Num(9))}
			}},
			{"numfor", func() []Stat {
				return []Stat{Local1("a", Num(1)), NumFor("i", Num(1), Num(2), nil, Local1("b", Bin("*", Name("i"), Num(2))), Assign1(Name("a"), Bin("+", Name("a"), Name("b")))), Local1("c", Num(3))}
			}},
			{"genfor", func() []Stat {
				return []Stat{Local1("a", Num(1)), GenFor(names("k", "v"), []Expr{CallN("ipairs", TableE(Pos1(Str("x")), Pos1(Str("y"))))}, Local1("b", Name("k"))), Local1("c", Num(3))}
			}},
			{"while-repeat", func() []Stat {
				return []Stat{Local1("n", Num(0)), While(Bin("<", Name("n"), Num(2)), Local1("w", Name("n")), Assign1(Name("n"), Bin("+", Name("n"), Num(1)))), Repeat(Bin(">=", Name("r"), Num(3)), Local1("r", Bin("+", Name("n"), Num(1))), Assign1(Name("n"), Name("r"))), Local1("z", Num(1))}
			}},
			{"localfunc", func() []Stat {
				return []Stat{Local1("a", Num(1)), LocalFunc("lf", Func(names("x"), false, Local1("y", Bin("+", Name("x"), Name("a"))), Return(Name("y")))), Local1("b", CallN("lf", Num(5))), Local1("fe", Func(names("q"), false, Local1("w", Name("q")), Return(Name("w")))), Local1("c", CallN("fe", Num(7)))}
			}},
			{"manylocals", func() []Stat {
				var ns []string
				var es []Expr
				for i := 0; i < 12; i++ {
					ns = append(ns, fmt.Sprintf("m%d", i))
					es = append(es, Num(float64(i)))
				}
				return []Stat{&LocalStat{Names: ns, Exprs: es}, Do(Local1("inner", Num(99))), Local1("after", Num(100))}
			}},
			{"call-args", func() []Stat {
				return []Stat{Local1("a", Num(1)), Local1("b", CallN("hid", Name("a"), Num(2))), Emit(Str("call"), Name("a"), Name("b")), Local1("c", TableE(Pos1(Name("a")), Pos1(Name("b"))))}
			}},
		}
		for _, b := range bases {
			b := b
			mkBase := func() *Block {
				return Blk(plocals(), setl(), FuncS("test", Func(names("p1", "p2"), false, b.mk()...)), CallS(Name("test"), Str("P1"), Str("P2")))
			}
			// gaps inside the test function only: build the function body block and count its gaps
			ngaps := countGaps(Blk(b.mk()...))
			for k := 0; k < ngaps; k++ {
				k := k
				for _, mode := range []string{"get", "set"} {
					mode := mode
					mk := func() *Block {
						body := Blk(b.mk()...)
						insertAt(body, k, func() Stat {
							if mode == "get" {
								return CallS(Name("plocals"), Num(float64(k)))
							}
							// set every named local `a` (and p1) then list
							return Do(CallS(Name("setl"), Str("a"), Str("SET-a")), CallS(Name("setl"), Str("p1"), Str("SET-p1")), CallS(Name("setl"), Str("b"), Str("SET-b")), CallS(Name("setl"), Str("y"), Str("SET-y")), CallS(Name("setl"), Str("acc"), Num(100)), CallS(Name("plocals"), Num(float64(k))))
						})
						// observe the effect on the program after the probe as well
						body.Stats = append(body.Stats, CallS(Name("plocals"), Str("end")))
						return Blk(plocals(), setl(), FuncS("test", Func(names("p1", "p2"), false, body.Stats...)), CallS(Name("test"), Str("P1"), Str("P2")))
					}
					lays := []Layout{{}, {StmtSep: "sp"}, {Indent: true, EOL: "\r\n"}}
					if thorough {
						lays = append(lays, Layout{StmtSep: "semi"}, Layout{LeadingLines: 2, Tabs: true})
					}
					for li, lay := range lays {
						yield(&Prog{Family: "F-locals", Shape: fmt.Sprintf("%s/gap%d/%s/lay%d", b.name, k, mode, li), Layout: lay, Mk: mk})
					}
				}
			}
			_ = mkBase
		}
		// upvalues
		upProgs := []struct {
			name string
			mk   func() []Stat
		}{
			{"basic", func() []Stat {
				return []Stat{Local(names("a", "b", "c"), Num(1), Num(2), Num(3)), LocalFunc("f", Func(nil, false, Return(Bin("+", Name("c"), Name("a"))))), CallS(Name("puvs"), Str("f"), Name("f")), Assign1(Name("a"), Num(10)), CallS(Name("puvs"), Str("f2"), Name("f")),
					CallS(Name("setu"), Name("f"), Str("a"), Num(100)), CallS(Name("puvs"), Str("f3"), Name("f")), Emit(Str("vals"), Name("a"), Name("b"), Name("c"), CallN("f"))}
			}},
			{"nested", func() []Stat {
				inner := Func(nil, false, Return(Func(nil, false, Assign1(Name("x"), Bin("+", Name("x"), Name("y"))), Return(Name("x")))))
				return []Stat{Local(names("x", "y", "z"), Num(1), Num(2), Num(3)), Local1("mid", inner), Local1("in2", CallN("mid")), CallS(Name("puvs"), Str("mid"), Name("mid")), CallS(Name("puvs"), Str("in2"), Name("in2")), Emit(Str("call"), CallN("in2")), CallS(Name("puvs"), Str("in2b"), Name("in2")),
					CallS(Name("setu"), Name("in2"), Str("y"), Num(50)), Emit(Str("call"), CallN("in2"), Name("x"), Name("y"))}
			}},
			{"shared-closed", func() []Stat {
				mk := LocalFunc("mk", Func(names("init"), false, Local1("cnt", Name("init")), Return(Func(nil, false, Assign1(Name("cnt"), Bin("+", Name("cnt"), Num(1))), Return(Name("cnt"))), Func(nil, false, Return(Name("cnt"))))))
				return []Stat{mk, Local(names("inc", "get"), CallN("mk", Num(5))), CallS(Name("puvs"), Str("inc"), Name("inc")), Emit(Str("inc"), CallN("inc")), CallS(Name("puvs"), Str("get"), Name("get")), CallS(Name("setu"), Name("get"), Str("cnt"), Num(70)), Emit(Str("after"), CallN("inc"), CallN("get"))}
			}},
			{"none-and-host", func() []Stat {
				return []Stat{LocalFunc("nf", Func(names("a"), false, Return(Name("a")))), CallS(Name("puvs"), Str("nf"), Name("nf")), CallS(Name("puvs"), Str("glob"), Func(nil, false, Return(Name("someglobal")))), CallS(Name("puvs"), Str("host"), Name("emit"))}
			}},
			{"loop-fresh", func() []Stat {
				return []Stat{Local1("fs", TableE()), NumFor("i", Num(1), Num(3), nil, Local1("j", Bin("*", Name("i"), Num(10))), Assign1(Index(Name("fs"), Name("i")), Func(nil, false, Return(Name("i"), Name("j"))))),
					NumFor("k", Num(1), Num(3), nil, CallS(Name("puvs"), Name("k"), Index(Name("fs"), Name("k")))), CallS(Name("setu"), Index(Name("fs"), Num(2)), Str("j"), Num(-1)), NumFor("k", Num(1), Num(3), nil, Emit(Str("call"), CallS(Index(Name("fs"), Name("k"))).Call))}
			}},
		}
		for _, p := range upProgs {
			p := p
			for li, lay := range []Layout{{}, {StmtSep: "sp"}} {
				yield(&Prog{Family: "F-locals", Shape: fmt.Sprintf("upvalues/%s/lay%d", p.name, li), Layout: lay, Mk: func() *Block {
					return Blk(append([]Stat{puvs(), setu()}, FuncS("test", Func(nil, false, p.mk()...)), CallS(Name("test")))...)
				}})
			}
		}
	}
}
