package props

// C12 part 4, family F-opgrow: every VM operation that can run Lua code in the middle of an
// instruction (metamethod handlers of arithmetic, comparison, concatenation, indexing, stores and
// calls; the iterator call of the generic for; plain calls with several results) is executed in a
// loop, and exactly one of the handler's invocations (the G-th; or every one, each deeper than all
// before) recurses deep enough to be the first code of the thread that needs more registers than
// are allocated. Under the growing registries the backing array is reallocated during that very
// instruction; what the instruction does after the handler returns (store the result, test it,
// copy the loop control variable, pass results on) must see the new array. The traces must equal
// the reference interpreter's.

import (
	"fmt"
	"strings"

	. "verif/internal/luaref"
)

func genOpGrow(thorough bool) Gen {
	depths := []int{16, 30}
	if thorough {
		depths = []int{6, 10, 14, 18, 22, 26, 30, 34}
	}
	ops := []string{"add", "sub", "mul", "div", "mod", "pow", "unm", "concat-l", "concat-r", "concat-mid", "concat-chain",
		"eq", "ne", "lt", "gt", "le", "ge", "index", "index-num", "self", "newindex", "call", "call3", "callv", "tail",
		"tfor", "tfor-callable", "tfor-2vars", "cond-add", "index-chain"}
	return func(yield func(*Prog)) {
		for _, op := range ops {
			maxG := 3
			if strings.HasPrefix(op, "tfor") {
				maxG = 4 // the 4th call of the iterator is the one that ends the loop
			}
			for g := 0; g <= maxG; g++ {
				for _, k := range depths {
					op, g, k := op, g, k
					yield(&Prog{Family: "F-opgrow", Shape: fmt.Sprintf("%s/grow-at=%d/depth=%d", op, g, k), Mk: func() *Block { return opGrowProgram(op, g, k) }})
				}
			}
		}
	}
}

func opGrowProgram(op string, g, k int) *Block {
	var locs []string
	var vals []Expr
	for i := 0; i < 7; i++ {
		locs = append(locs, fmt.Sprintf("l%d", i))
		vals = append(vals, Num(float64(i+1)))
	}
	// deep(n, a) returns a after n nested frames of 7 locals each
	deep := Func(names("n", "a"), false,
		&LocalStat{Names: locs, Exprs: vals},
		If(Bin("==", Name("n"), Num(0)), Return(Name("a"))),
		Local1("r", CallN("deep", Bin("-", Name("n"), Num(1)), Name("a"))),
		If(Bin("~=", Bin("+", Name("l0"), Name("l6")), Num(8)), Emit(Str("deep-local-changed"))),
		Return(Name("r")))
	// work(v): the G-th call recurses K deep (G = 0: every call, each 3 frames deeper than the one before)
	var grow Stat
	tail := []Stat{Return(Name("v"))}
	if g == 0 {
		tail = nil
		grow = Return(CallN("deep", Bin("+", Num(float64(k)), Bin("*", Name("calls"), Num(3))), Name("v")))
	} else {
		grow = If(Bin("==", Name("calls"), Num(float64(g))), Return(CallN("deep", Num(float64(k)), Name("v"))))
	}
	st := []Stat{
		Local(names("deep", "calls"), Nil(), Num(0)),
		Assign1(Name("deep"), deep),
		LocalFunc("work", Func(names("v"), false, append([]Stat{Assign1(Name("calls"), Bin("+", Name("calls"), Num(1))), grow}, tail...)...)),
		Local1("mt", TableE()),
		Local1("store", TableE()),
		Local1("o1", CallN("setmetatable", TableE(NamedField("tag", Str("o1"))), Name("mt"))),
		Local1("o2", CallN("setmetatable", TableE(NamedField("tag", Str("o2"))), Name("mt"))),
	}
	val := func() Expr { return Bin("+", Num(1000), Name("calls")) } // a different result for every invocation
	h2 := func(ret Expr) Expr { return Func(names("a", "b"), false, Return(CallN("work", ret))) }
	setmt := func(ev string, f Expr) { st = append(st, Assign1(Dot(Name("mt"), ev), f)) }
	loop := func(body ...Stat) Stat { return NumFor("i", Num(1), Num(3), nil, body...) }
	// the statement under test sits between two locals that must survive it
	around := func(mid ...Stat) []Stat {
		b := []Stat{Local1("before", Bin("*", Name("i"), Num(2)))}
		b = append(b, mid...)
		b = append(b, Local1("after", Bin("*", Name("i"), Num(3))), Emit(Str(op), Name("i"), Name("r"), Name("before"), Name("after"), Name("calls")))
		return b
	}
	arith := map[string]string{"add": "+", "sub": "-", "mul": "*", "div": "/", "mod": "%", "pow": "^"}
	cmp := map[string]string{"eq": "==", "ne": "~=", "lt": "<", "gt": ">", "le": "<=", "ge": ">="}
	switch {
	case arith[op] != "":
		setmt("__"+op, h2(val()))
		st = append(st, loop(around(Local1("r", Bin(arith[op], Name("o1"), Name("i"))))...))
		st = append(st, loop(around(Local1("r", Bin(arith[op], Name("i"), Name("o2"))))...))
	case op == "unm":
		setmt("__unm", h2(val()))
		st = append(st, loop(around(Local1("r", Un("-", Name("o1"))))...))
	case op == "concat-l":
		setmt("__concat", h2(val()))
		st = append(st, loop(around(Local1("r", Bin("..", Name("o1"), Str("x"))))...))
	case op == "concat-r":
		setmt("__concat", h2(val()))
		st = append(st, loop(around(Local1("r", Bin("..", Name("i"), Name("o1"))))...))
	case op == "concat-mid":
		// a .. o1 .. b: the handler's result is concatenated further inside the same instruction
		setmt("__concat", h2(Bin("..", Str("<"), Bin("..", val(), Str(">")))))
		st = append(st, loop(around(Local1("r", Bin("..", Str("a"), Bin("..", Name("o1"), Str("b")))))...))
	case op == "concat-chain":
		// two handler calls inside one instruction, the result of the first is an object again
		setmt("__concat", Func(names("a", "b"), false, CallS(Name("work"), Num(0)), If(Bin("==", Name("b"), Str("end")), Return(Name("o2"))), Return(Bin("..", Str("s"), Name("calls")))))
		st = append(st, loop(around(Local1("r", Bin("..", Name("i"), Bin("..", Name("o1"), Str("end")))))...))
	case cmp[op] != "":
		ev := map[string]string{"eq": "__eq", "ne": "__eq", "lt": "__lt", "gt": "__lt", "le": "__le", "ge": "__le"}[op]
		// the answer alternates, so a stale register (the handler function, an operand) shows as a wrong branch
		setmt(ev, h2(Bin("==", Bin("%", Name("calls"), Num(2)), Num(0))))
		c := Bin(cmp[op], Name("o1"), Name("o2"))
		st = append(st, loop(around(Local1("r", Str("unset")), IfElse(c, []Stat{Assign1(Name("r"), Str("then"))}, []Stat{Assign1(Name("r"), Str("else"))}))...))
		st = append(st, loop(around(Local1("r", c))...))
	case op == "index":
		setmt("__index", Func(names("t", "key"), false, Return(CallN("work", Bin("..", Name("key"), Name("calls"))))))
		st = append(st, loop(around(Local1("r", Dot(Name("o1"), "missing")))...))
	case op == "index-num":
		setmt("__index", Func(names("t", "key"), false, Return(CallN("work", Bin("+", Name("key"), val())))))
		st = append(st, loop(around(Local1("r", Index(Name("o1"), Name("i"))))...))
	case op == "index-chain":
		// o1.a.b: the result of the growing handler is indexed by the next instruction
		setmt("__index", Func(names("t", "key"), false, Return(CallN("work", TableE(NamedField("b", val()))))))
		st = append(st, loop(around(Local1("r", Dot(Dot(Name("o1"), "a"), "b")))...))
	case op == "self":
		// o1:method(i): OP_SELF finds the method through a growing __index and must still pass o1 as self
		setmt("__index", Func(names("t", "key"), false, Return(CallN("work", Func(names("self", "x"), false, Return(Bin("..", Dot(Name("self"), "tag"), Bin("..", Name("key"), Name("x")))))))))
		st = append(st, loop(around(Local1("r", Method(Name("o1"), "method", Name("i"))))...))
	case op == "newindex":
		setmt("__newindex", Func(names("t", "key", "v"), false, CallS(Name("rawset"), Name("store"), Name("key"), CallN("work", Name("v")))))
		st = append(st, loop(around(Assign1(Index(Name("o1"), Name("i")), Bin("*", Name("i"), Num(7))), Local1("r", Index(Name("store"), Name("i"))))...))
		st = append(st, loop(around(Assign1(Dot(Name("o2"), "field"), Bin("*", Name("i"), Num(9))), Local1("r", Dot(Name("store"), "field")))...))
	case op == "call":
		setmt("__call", Func(names("self", "x"), false, Return(CallN("work", Bin("..", Dot(Name("self"), "tag"), Name("x"))))))
		st = append(st, loop(around(Local1("r", Call(Name("o1"), Name("i"))))...))
	case op == "call3":
		st = append(st, LocalFunc("three", Func(names("x"), false, Return(CallN("work", Name("x")), Bin("+", Name("x"), Num(1)), Bin("+", Name("x"), Num(2))))))
		st = append(st, loop(around(Local(names("r", "r2", "r3"), CallN("three", Name("i"))), Emit(Str("call3"), Name("r2"), Name("r3")))...))
	case op == "callv":
		// open results passed on to another call and into a constructor
		st = append(st, LocalFunc("three", Func(names("x"), false, Return(CallN("work", Name("x")), Bin("+", Name("x"), Num(1)), Bin("+", Name("x"), Num(2))))))
		st = append(st, loop(around(Local1("r", CallN("select", Str("#"), CallN("three", Name("i")))), Local1("t", TableE(Pos1(Str("head")), Pos1(CallN("three", Name("i"))))), Emit(Str("callv"), Un("#", Name("t")), Index(Name("t"), Num(2)), Index(Name("t"), Num(4))))...))
	case op == "tail":
		st = append(st, LocalFunc("viaTail", Func(names("x"), false, Local1("pad", Name("x")), Return(CallN("work", Bin("+", Name("x"), Name("pad")))))))
		st = append(st, loop(around(Local1("r", CallN("viaTail", Name("i"))))...))
	case op == "cond-add":
		// the handler's result is only tested
		setmt("__add", h2(Bin("==", Bin("%", Name("calls"), Num(2)), Num(0))))
		st = append(st, loop(around(Local1("r", Str("unset")), IfElse(Bin("+", Name("o1"), Num(1)), []Stat{Assign1(Name("r"), Str("then"))}, []Stat{Assign1(Name("r"), Str("else"))}))...))
	case op == "tfor", op == "tfor-callable", op == "tfor-2vars":
		// stateless iterator: each call gets the control value of the call before; the 4th call ends the loop
		iter := Func(names("s", "c"), false,
			If(Bin("~=", CallN("type", Name("c")), Str("number")), Emit(Str("control-not-a-number"), CallN("type", Name("c"))), Return(Nil())),
			If(Bin(">=", Name("c"), Num(3)), Return(CallN("work", Nil()))),
			Return(CallN("work", Bin("+", Name("c"), Num(1))), Bin("*", Name("c"), Num(10)), Name("s")))
		it := Expr(Name("iter"))
		st = append(st, Local1("iter", iter))
		if op == "tfor-callable" {
			setmt("__call", Func(names("self", "s", "c"), false, Return(CallN("iter", Name("s"), Name("c")))))
			it = Name("o1")
		}
		vars := names("c", "v", "s")
		if op == "tfor-2vars" {
			vars = names("c", "v")
		}
		body := []Stat{Local1("inloop", Bin("*", Name("c"), Num(2))), Emit(Str(op), Name("c"), Name("v"), Name("inloop"), Name("calls"))}
		if op != "tfor-2vars" {
			body = append(body, Emit(Str("state"), Name("s")))
		}
		body = append(body, If(Bin(">", Name("calls"), Num(8)), Emit(Str("runaway")), Break()))
		st = append(st, Local1("guard", Str("g")), GenFor(vars, []Expr{it, Str("st"), Num(0)}, body...), Emit(Str("after-loop"), Name("guard"), Name("calls")))
	default:
		panic("opGrowProgram: " + op)
	}
	st = append(st, Emit(Str("done"), Name("calls")))
	return Blk(st...)
}
