package props

// C08 part "reader answers": LState.Load takes an io.Reader, and what the reader answers is an
// environment choice the loader does not control. Enumerated: for every source of a small corpus
// that contains every token kind, (a) every way of cutting the source into reads of k bytes
// (k = 1, 2, 3, 7, 64): the outcome must be the one of a single read; (b) every position p at which
// the reader fails with an error that is not io.EOF - alone, or together with the last bytes it
// delivers: Load must come back (a reader that is polled again and again after it reported its
// error ends the run with a panic that is reported as "polled forever"), and its outcome must be
// either an error that carries the reader's error or exactly the outcome of loading the first p
// bytes from a healthy reader - never text the reader did not deliver.

import (
	"errors"
	"fmt"
	"io"
	"strings"
	"sync/atomic"

	lua "github.com/yuin/gopher-lua"

	"verif/internal/harness"
)

var c08ReaderCorpus = []string{
	"x = 1",
	"x = 1 -- c",
	"x = 'abc'",
	"x = \"a\\n\\65\\\"b\"",
	"--[[ abc ]] return 1",
	"--[==[ a ]] b ]==] return 2",
	"return [[long\nstring]] .. [=[ ]] ]=]",
	"local a, b = 0x10, 1e2 return a + b, .5, 3., 7e-1",
	"local t = {1, 2; x = 3, [4] = 5} return #t, t.x",
	"for i = 1, 3 do if i % 2 == 0 then break end end",
	"local function f(...) return select('#', ...) end return f(1, 2, 3)",
	"return a.b.c:d(1)[2] 'str' {3}",
	"while x ~= nil and not y or z <= 1 do x = x .. y end",
	"repeat local q = -x ^ 2 until q >= 10",
	"goto done do local a = 1 end ::done:: return",
	"return 1\r\n, 2\n\r, 3\r, 4",
	"#!/usr/bin/lua\nreturn 5",
	"return 'unfinished",
	"return [[unfinished",
	"--[[ unfinished",
	"return 1e",
	"return 'a\\\nb'",
	"x = = 1",
	"",
	"\n\n\n",
	"return " + strings.Repeat("(", 40) + "1" + strings.Repeat(")", 40),
}

type c08FaultReader struct {
	src      string
	off      int
	chunk    int   // bytes per read (0: all)
	failAt   int   // -1: never
	failErr  error // returned at failAt
	withData bool  // the failing read also delivers the bytes before failAt
	after    int   // reads after the error was reported
}

func (r *c08FaultReader) Read(p []byte) (int, error) {
	limit := len(r.src)
	if r.failAt >= 0 && r.failAt < limit {
		limit = r.failAt
	}
	if r.off >= limit {
		if r.failAt >= 0 && r.failAt <= len(r.src) {
			r.after++
			if r.after > 200 {
				panic("verif: the reader was polled 200 times after it reported its error")
			}
			return 0, r.failErr
		}
		return 0, io.EOF
	}
	n := limit - r.off
	if r.chunk > 0 && n > r.chunk {
		n = r.chunk
	}
	if n > len(p) {
		n = len(p)
	}
	copy(p, r.src[r.off:r.off+n])
	r.off += n
	if r.withData && r.failAt >= 0 && r.off >= limit {
		r.after++
		return n, r.failErr
	}
	return n, nil
}

func c08LoadOutcome(L *lua.LState, rd io.Reader) (out string) {
	defer func() {
		if rec := recover(); rec != nil {
			out = fmt.Sprintf("GO PANIC: %v", rec)
		}
	}()
	top := L.GetTop()
	defer L.SetTop(top)
	fn, err := L.Load(rd, "chunk")
	if err != nil {
		return "error: " + firstLine(err.Error())
	}
	return "function: " + lua.VerifProtoDump(fn.Proto)
}

func c08ReaderAnswers(r *harness.Run) {
	boom := errors.New("verif-reader-fault")
	var loads int64
	harness.ParallelShards(len(c08ReaderCorpus), func(_, si int) {
		src := c08ReaderCorpus[si]
		L := lua.NewState()
		defer L.Close()
		whole := c08LoadOutcome(L, strings.NewReader(src))
		n := int64(1)
		for _, k := range []int{1, 2, 3, 7, 64} {
			n++
			if got := c08LoadOutcome(L, &c08FaultReader{src: src, chunk: k, failAt: -1}); got != whole {
				r.Violation(fmt.Sprintf("reader/short-reads/k=%d", k), fmt.Sprintf("source %q read %d bytes at a time gives\n  %s\nread at once it gives\n  %s", src, k, clip(got, 300), clip(whole, 300)), map[string]interface{}{"source": src, "bytes_per_read": k})
			}
		}
		for p := 0; p <= len(src); p++ {
			prefix := c08LoadOutcome(L, strings.NewReader(src[:p]))
			for _, withData := range []bool{false, true} {
				for _, k := range []int{0, 1} {
					if withData && p == 0 {
						continue
					}
					n++
					got := c08LoadOutcome(L, &c08FaultReader{src: src, chunk: k, failAt: p, failErr: boom, withData: withData})
					kind := fmt.Sprintf("with-data=%v/k=%d", withData, k)
					switch {
					case strings.HasPrefix(got, "GO PANIC: verif: the reader was polled"):
						r.Violation("reader/error/polled-forever/"+kind, fmt.Sprintf("source %q, reader fails after %d bytes: Load keeps reading after the reader reported an error (an endless loop with a reader that keeps failing)", src, p), map[string]interface{}{"source": src, "fail_after": p, "with_data": withData})
					case strings.HasPrefix(got, "GO PANIC"):
						r.Violation("reader/error/go-panic/"+kind, fmt.Sprintf("source %q, reader fails after %d bytes: %s", src, p, clip(got, 300)), map[string]interface{}{"source": src, "fail_after": p, "with_data": withData})
					case strings.HasPrefix(got, "error: ") && strings.Contains(got, boom.Error()):
						// the reader's error is reported
					case got == prefix:
						// the error ended the input like an end of file
					default:
						r.Violation("reader/error/invented-input/"+kind, fmt.Sprintf("source %q, reader fails after %d bytes: Load gives\n  %s\nwhich is neither the reader's error nor what the first %d bytes give:\n  %s", src, p, clip(got, 300), p, clip(prefix, 300)), map[string]interface{}{"source": src, "fail_after": p, "with_data": withData})
					}
				}
			}
		}
		r.EvalN(n)
		r.Nontrivial("reader-answers/" + src)
		atomic.AddInt64(&loads, n)
	})
	r.Count("reader_answer_loads", loads)
}

func clip(s string, n int) string {
	if len(s) > n {
		return s[:n] + "…"
	}
	return s
}
