package props

// C20 — require loads each module once, from preload first, and reports loops.
//
// Explicit-state BFS over operation histories. A state is the history that reaches it; a successor
// is the replay of the whole history on a FRESH LState (package + base library only, small
// registry, ≈50 µs) plus one more operation. The reference model (this file: c20Model/c20Eval)
// holds `loaded`, the per-module loader configuration, the in-progress set (the loop sentinel) and
// the global module tables; it is a restatement of Lua 5.1's ll_require / luaL_register / ll_module
// as far as the property statement fixes them, and says "unknown" (not judged) everywhere else.
// The state key is (model, white-box read-back of package.loaded / package.preload / globals), so
// merged states have the same futures.

import (
	"encoding/json"
	"fmt"
	"os"
	"path/filepath"
	"sort"
	"strings"
	"sync"
	"sync/atomic"
	"time"

	lua "github.com/yuin/gopher-lua"
	"github.com/yuin/gopher-lua/parse"

	"verif/internal/harness"
)

func init() {
	harness.Register("C20", "model_checking", runC20)
	harness.RegisterReplay("C20", replayC20)
}

// ---- alphabet -------------------------------------------------------------------------------

type c20Mod struct {
	name  string   // module name as given to require
	rel   string   // file below a search directory that the path templates resolve to
	fname string   // name with dots replaced by the directory separator
	gpath []string // path of the module's global table
	pkg   string   // _PACKAGE as module() must set it
	next  int      // module required by behaviour reqnext
	prev  int      // module required by behaviour reqprev
}

// a.lua is found through "?.lua", b/init.lua through "?/init.lua", c/d.lua through "?.lua" with the
// dot of the module name turned into a directory separator.
var c20Mods = [3]c20Mod{
	{"a", "a.lua", "a", []string{"a"}, "", 1, 2},
	{"b", "b/init.lua", "b", []string{"b"}, "", 2, 0},
	{"c.d", "c/d.lua", "c/d", []string{"c", "d"}, "c.", 0, 1},
}

const (
	c20Tbl      = iota // returns a new table V
	c20False           // returns false
	c20None            // returns nothing
	c20Set             // package.loaded[name] = W, returns nothing
	c20SetRet          // package.loaded[name] = W, returns V   (which one wins is not judged)
	c20Raise           // raises an error
	c20ReqNext         // requires the next module (a->b->c.d->a) and returns {dep = that value}
	c20ReqPrev         // requires the previous module (a->c.d->b->a): with reqnext on the other side a 2-cycle
	c20ReqSelf         // requires itself
	c20Module          // calls module(name) and defines a function in it; returns nothing
	c20ReqSelfP        // pcall(require, itself) inside the loader, then returns a table recording what it caught
	c20NBeh
)

var c20BehName = [c20NBeh]string{"tbl", "false", "none", "set", "setret", "raise", "reqnext", "reqprev", "reqself", "module", "reqselfp"}

const (
	c20SrcNone = iota // no loader anywhere
	c20SrcPL          // package.preload[name] = function ... end   (from Lua)
	c20SrcPG          // L.PreloadModule(name, goLoader)
	c20SrcF           // a .lua file found through package.path
	c20SrcPLF         // preload (Lua) and file
	c20SrcPGF         // preload (Go) and file
	c20NSrc
)

var c20SrcName = [c20NSrc]string{"none", "preloadLua", "preloadGo", "file", "preloadLua+file", "preloadGo+file"}

func c20SrcHasPreload(s int) bool {
	return s == c20SrcPL || s == c20SrcPG || s == c20SrcPLF || s == c20SrcPGF
}
func c20SrcPreloadGo(s int) bool { return s == c20SrcPG || s == c20SrcPGF }
func c20SrcHasFile(s int) bool   { return s == c20SrcF || s == c20SrcPLF || s == c20SrcPGF }

type c20Op struct {
	Kind string `json:"op"` // require | pcall_require | register | clear | RegisterModule
	Mod  int    `json:"mod"`
	Src  int    `json:"src"`
	Beh  int    `json:"beh"`
}

func (o c20Op) String() string {
	n := c20Mods[o.Mod].name
	switch o.Kind {
	case "require":
		return fmt.Sprintf("require(%q)", n)
	case "pcall_require":
		return fmt.Sprintf("pcall(require,%q)", n)
	case "clear":
		return fmt.Sprintf("package.loaded[%q]=nil", n)
	case "RegisterModule":
		return fmt.Sprintf("L.RegisterModule(%q,{f})", n)
	case "register":
		if o.Src == c20SrcNone {
			return fmt.Sprintf("unregister(%q)", n)
		}
		return fmt.Sprintf("register(%q,%s,%s)", n, c20SrcName[o.Src], c20BehName[o.Beh])
	}
	return "?" + o.Kind
}

func c20HistText(h []c20Op) []string {
	out := make([]string, len(h))
	for i, o := range h {
		out[i] = o.String()
	}
	return out
}

func c20ValidOp(o c20Op) bool {
	if o.Mod < 0 || o.Mod >= len(c20Mods) || o.Src < 0 || o.Src >= c20NSrc || o.Beh < 0 || o.Beh >= c20NBeh {
		return false
	}
	switch o.Kind {
	case "require", "pcall_require", "clear", "RegisterModule":
		return true
	case "register":
		// a Go function cannot call module() (it has no Lua function environment to replace)
		return !(c20SrcPreloadGo(o.Src) && o.Beh == c20Module)
	}
	return false
}

// menus -----------------------------------------------------------------------------------------

func c20BaseOps(mods []int) []c20Op {
	var m []c20Op
	for _, x := range mods {
		m = append(m, c20Op{Kind: "require", Mod: x}, c20Op{Kind: "pcall_require", Mod: x},
			c20Op{Kind: "clear", Mod: x}, c20Op{Kind: "RegisterModule", Mod: x})
	}
	return m
}

// full: every source x every behaviour for every module
func c20MenuFull(mods []int) []c20Op {
	m := c20BaseOps(mods)
	for _, x := range mods {
		m = append(m, c20Op{Kind: "register", Mod: x, Src: c20SrcNone})
		for s := 1; s < c20NSrc; s++ {
			for b := 0; b < c20NBeh; b++ {
				if o := (c20Op{Kind: "register", Mod: x, Src: s, Beh: b}); c20ValidOp(o) {
					m = append(m, o)
				}
			}
		}
	}
	return m
}

// covering: every behaviour once per module, the source rotating with (module, behaviour) so that
// over the three modules every behaviour meets three sources and every source meets every module.
func c20MenuCover(mods []int) []c20Op {
	m := c20BaseOps(mods)
	for _, x := range mods {
		m = append(m, c20Op{Kind: "register", Mod: x, Src: c20SrcNone})
		for b := 0; b < c20NBeh; b++ {
			s := 1 + (2*x+b)%5
			o := c20Op{Kind: "register", Mod: x, Src: s, Beh: b}
			if !c20ValidOp(o) {
				o.Src = c20SrcPLF
			}
			m = append(m, o)
		}
	}
	return m
}

// ---- loader texts -----------------------------------------------------------------------------

func c20LuaBody(x int, tag string, beh int) string {
	n := c20Mods[x].name
	hdr := fmt.Sprintf("local NAME = ...\nlocal emit, require, error, package, module, pcall = emit, require, error, package, module, pcall\nemit(\"run\", %q, %q, NAME)\n", n, tag)
	tbl := func(extra string) string { return fmt.Sprintf("{mod=%q, tag=%q%s}", n, tag, extra) }
	dep := func(y int) string {
		return hdr + fmt.Sprintf("local m = require(%q)\nreturn %s\n", c20Mods[y].name, tbl(", dep=m, hasdep=true"))
	}
	switch beh {
	case c20Tbl:
		return hdr + "return " + tbl("") + "\n"
	case c20False:
		return hdr + "return false\n"
	case c20None:
		return hdr + "return\n"
	case c20Set:
		return hdr + fmt.Sprintf("package.loaded[%q] = %s\n", n, tbl(", w=true"))
	case c20SetRet:
		return hdr + fmt.Sprintf("package.loaded[%q] = %s\nreturn %s\n", n, tbl(", w=true"), tbl(", v=true"))
	case c20Raise:
		return hdr + fmt.Sprintf("error(%q)\n", "boom-"+n)
	case c20ReqNext:
		return dep(c20Mods[x].next)
	case c20ReqPrev:
		return dep(c20Mods[x].prev)
	case c20ReqSelf:
		return dep(x)
	case c20Module:
		return hdr + fmt.Sprintf("module(%q)\nfunction f() return %q end\n", n, "modf-"+n)
	case c20ReqSelfP:
		return hdr + fmt.Sprintf("local ok, e = pcall(require, %q)\nreturn %s\n", n, tbl(", caught=true, caughtok=ok, caughtmsg=e"))
	}
	panic("c20: behaviour")
}

// c20Env: the directories with the loader files; built once per process, read-only afterwards.
type c20Env struct {
	root    string
	baseDir string
	fileDir [3][c20NBeh]string
}

func c20Templates(dir string) string { return dir + "/?.lua;" + dir + "/?/init.lua" }

func newC20Env() *c20Env {
	e := &c20Env{root: harness.WorkDir("c20")}
	e.baseDir = filepath.Join(e.root, "base")
	if err := os.MkdirAll(e.baseDir, 0o755); err != nil {
		harness.Fatal("c20: %v", err)
	}
	for x := range c20Mods {
		for b := 0; b < c20NBeh; b++ {
			d := filepath.Join(e.root, fmt.Sprintf("F%d_%s", x, c20BehName[b]))
			p := filepath.Join(d, c20Mods[x].rel)
			if err := os.MkdirAll(filepath.Dir(p), 0o755); err != nil {
				harness.Fatal("c20: %v", err)
			}
			if err := os.WriteFile(p, []byte(c20LuaBody(x, "F", b)), 0o644); err != nil {
				harness.Fatal("c20: %v", err)
			}
			e.fileDir[x][b] = d
		}
	}
	return e
}

func (e *c20Env) cleanup() { os.RemoveAll(e.root) }

// ---- reference model --------------------------------------------------------------------------

// c20Ref is a table identity known to the model. The pointer is learned from the implementation
// at the moment the model says "a new table is created here" (after checking that it is new and
// carries the marks of the loader that must have made it); afterwards it is compared by identity.
type c20Ref struct {
	tb      *lua.LTable
	mod     int
	tag     string // "P" Lua preload, "G" Go preload, "F" file, "" host/module()
	variant string // plain | w | v|w | dep | module | host | any
	dep     *c20Exp
}

// c20Val: kind 0 absent (nil), 't' true, 'f' false, 'T' table ref, 'U' not judged.
type c20Val struct {
	kind byte
	ref  *c20Ref
}

func (v c20Val) String() string {
	switch v.kind {
	case 0:
		return "nil"
	case 't':
		return "true"
	case 'f':
		return "false"
	case 'T':
		return "table"
	}
	return "unjudged"
}

type c20Exp struct {
	kind  string // val | err-loop | err-boom | err-notfound | unknown
	val   c20Val
	fresh bool // val.ref is created by this very call and still has to be bound
	mod   int  // module named by the error
	// the value is an existing global table that module(name) has just (re)initialised
	isModule bool
}

func (e c20Exp) String() string {
	switch e.kind {
	case "val":
		if e.fresh {
			return "fresh-" + e.val.ref.variant + "-table"
		}
		if e.val.kind == 'T' {
			return "cached-table"
		}
		return e.val.String()
	}
	return e.kind
}

type c20Cfg struct{ src, beh int }

type c20Model struct {
	cfg    [3]c20Cfg
	loaded [3]c20Val
	global [3]c20Val
	known  map[*lua.LTable]bool
	// past: what the history did to each module, as observed on the implementation: bit 0 a loader
	// of the module has run, bit 1 a require of the module has failed. Not used by the oracle; it
	// is part of the state key so that a state in which a module was loaded (or failed) and then
	// cleared is not merged with one in which it was never touched - any memory the library may
	// keep outside package.loaded / package.preload / the globals would make their futures differ.
	past [3]uint8
}

func newC20Model() *c20Model { return &c20Model{known: map[*lua.LTable]bool{}} }

// effective loader of x: preload wins over the file
func (m *c20Model) effective(x int) (tag string, beh int, ok bool) {
	c := m.cfg[x]
	switch {
	case c20SrcPreloadGo(c.src):
		return "G", c.beh, true
	case c20SrcHasPreload(c.src):
		return "P", c.beh, true
	case c20SrcHasFile(c.src):
		return "F", c.beh, true
	}
	return "", 0, false
}

func (m *c20Model) path(env *c20Env) string {
	p := c20Templates(env.baseDir)
	for x := range c20Mods {
		if c20SrcHasFile(m.cfg[x].src) {
			p += ";" + c20Templates(env.fileDir[x][m.cfg[x].beh])
		}
	}
	return p
}

// expansions of every template of the current path for module y
func (m *c20Model) expansions(env *c20Env, y int) []string {
	var out []string
	for _, t := range strings.Split(m.path(env), ";") {
		out = append(out, strings.Replace(t, "?", c20Mods[y].fname, -1))
	}
	return out
}

func (m *c20Model) target(x int) (int, bool) {
	switch m.cfg[x].beh {
	case c20ReqNext:
		return c20Mods[x].next, true
	case c20ReqPrev:
		return c20Mods[x].prev, true
	case c20ReqSelf, c20ReqSelfP:
		return x, true
	}
	return 0, false
}

type c20LogExp struct {
	mod      int
	tag      string
	optional bool
}

type c20Eval struct {
	m       *c20Model
	log     []c20LogExp
	unknown bool
}

// require: the model's reading of ll_require. stack is the set of modules whose loader is running.
func (e *c20Eval) require(x int, stack uint) c20Exp {
	m := e.m
	if stack&(1<<uint(x)) != 0 {
		return c20Exp{kind: "err-loop", mod: x}
	}
	lv := m.loaded[x]
	switch lv.kind {
	case 'T', 't':
		return c20Exp{kind: "val", val: lv}
	case 'U':
		// after a failed load (or a not-judged step) the statement does not say what a retry does
		e.unknown = true
		return c20Exp{kind: "unknown"}
	case 'f':
		// a loader returned false. PUC 5.1 runs the loader again on the next require (the entry is
		// not "true"); the statement says loaders run once. Either way the value is false as long
		// as the loader that would run is still the one returning false; the run count is open.
		if tag, beh, ok := m.effective(x); ok && beh == c20False {
			e.log = append(e.log, c20LogExp{x, tag, true})
			return c20Exp{kind: "val", val: lv}
		}
		e.unknown = true
		return c20Exp{kind: "unknown"}
	}
	tag, beh, ok := m.effective(x)
	if !ok {
		return c20Exp{kind: "err-notfound", mod: x}
	}
	e.log = append(e.log, c20LogExp{x, tag, false})
	fresh := func(variant string, dep *c20Exp) c20Exp {
		v := c20Val{'T', &c20Ref{mod: x, tag: tag, variant: variant, dep: dep}}
		m.loaded[x] = v
		return c20Exp{kind: "val", val: v, fresh: true}
	}
	switch beh {
	case c20Tbl:
		return fresh("plain", nil)
	case c20False:
		m.loaded[x] = c20Val{kind: 'f'}
		return c20Exp{kind: "val", val: m.loaded[x]}
	case c20None:
		m.loaded[x] = c20Val{kind: 't'}
		return c20Exp{kind: "val", val: m.loaded[x]}
	case c20Set:
		return fresh("w", nil)
	case c20SetRet:
		return fresh("v|w", nil)
	case c20Raise:
		m.loaded[x] = c20Val{kind: 'U'}
		return c20Exp{kind: "err-boom", mod: x}
	case c20ReqNext, c20ReqPrev, c20ReqSelf:
		y, _ := m.target(x)
		r := e.require(y, stack|1<<uint(x))
		if r.kind != "val" {
			m.loaded[x] = c20Val{kind: 'U'}
			return r
		}
		return fresh("dep", &r)
	case c20ReqSelfP:
		// the inner require finds the module in progress: a loop error, caught by the loader
		if r := e.require(x, stack|1<<uint(x)); r.kind != "err-loop" {
			panic("c20: model")
		}
		return fresh("caught", nil)
	case c20Module:
		g := m.global[x]
		switch g.kind {
		case 'T':
			m.loaded[x] = g
			return c20Exp{kind: "val", val: g, isModule: true}
		case 'U':
			r := fresh("any", nil)
			m.global[x] = r.val
			return r
		}
		r := fresh("module", nil)
		r.val.ref.tag = ""
		m.global[x] = r.val
		return r
	}
	panic("c20: behaviour")
}

// markUnknown: the outcome of require(x) was not judged. Every module it may have touched - x and
// whatever is reachable along the current require-edges through modules without a standing entry -
// is not judged from now on (until its entry is cleared).
func (m *c20Model) markUnknown(x int) {
	var seen [3]bool
	var walk func(y int)
	walk = func(y int) {
		if seen[y] {
			return
		}
		seen[y] = true
		switch m.loaded[y].kind {
		case 'T', 't':
			return
		case 'f':
			if _, beh, ok := m.effective(y); ok && beh == c20False {
				return
			}
		}
		m.loaded[y] = c20Val{kind: 'U'}
		if _, beh, ok := m.effective(y); ok && beh == c20Module {
			m.global[y] = c20Val{kind: 'U'}
		}
		if z, ok := m.target(y); ok {
			walk(z)
		}
	}
	walk(x)
}

// identity classes of the bound tables over the slots loaded[0..2], global[0..2]
func (m *c20Model) String() string {
	var b strings.Builder
	ids := map[*c20Ref]int{}
	val := func(v c20Val) {
		if v.kind == 'T' {
			id, ok := ids[v.ref]
			if !ok {
				id = len(ids) + 1
				ids[v.ref] = id
			}
			fmt.Fprintf(&b, "T%d", id)
		} else {
			b.WriteString(v.String())
		}
		b.WriteByte(' ')
	}
	for x := range c20Mods {
		fmt.Fprintf(&b, "%d:%d ", m.cfg[x].src, m.cfg[x].beh)
	}
	b.WriteString("L ")
	for x := range c20Mods {
		val(m.loaded[x])
	}
	b.WriteString("G ")
	for x := range c20Mods {
		val(m.global[x])
	}
	fmt.Fprintf(&b, "H %d %d %d", m.past[0], m.past[1], m.past[2])
	return b.String()
}

// ---- per-worker implementation driver ----------------------------------------------------------

type c20Event struct {
	kind string
	args []lua.LValue
}

type c20Worker struct {
	env    *c20Env
	protos map[string]*lua.FunctionProto
	events []c20Event
}

func newC20Worker(env *c20Env) *c20Worker {
	return &c20Worker{env: env, protos: map[string]*lua.FunctionProto{}}
}

// proto compiles a chunk once per worker; the prototype is instantiated in every fresh state.
func (w *c20Worker) proto(src string) *lua.FunctionProto {
	if p, ok := w.protos[src]; ok {
		return p
	}
	chunk, err := parse.Parse(strings.NewReader(src), "=c20")
	if err != nil {
		harness.Fatal("c20: parse %q: %v", src, err)
	}
	p, err := lua.Compile(chunk, "=c20")
	if err != nil {
		harness.Fatal("c20: compile %q: %v", src, err)
	}
	w.protos[src] = p
	return p
}

func c20OpenLib(L *lua.LState, name string, f lua.LGFunction) {
	L.Push(L.NewFunction(f))
	L.Push(lua.LString(name))
	L.Call(1, 0)
}

func (w *c20Worker) newState() *lua.LState {
	L := lua.NewState(lua.Options{SkipOpenLibs: true, RegistrySize: 512, CallStackSize: 48})
	c20OpenLib(L, lua.LoadLibName, lua.OpenPackage)
	c20OpenLib(L, lua.BaseLibName, lua.OpenBase)
	L.SetGlobal("emit", L.NewFunction(func(L *lua.LState) int {
		ev := c20Event{kind: L.ToString(1)}
		for i := 2; i <= L.GetTop(); i++ {
			ev.args = append(ev.args, L.Get(i))
		}
		w.events = append(w.events, ev)
		return 0
	}))
	return L
}

// exec runs a compiled chunk protected; a Go panic inside the library surfaces as ApiErrorPanic.
func (w *c20Worker) exec(L *lua.LState, src string, args ...lua.LValue) error {
	L.SetTop(0)
	L.Push(L.NewFunctionFromProto(w.proto(src)))
	for _, a := range args {
		L.Push(a)
	}
	err := L.PCall(len(args), 0, nil)
	L.SetTop(0)
	return err
}

func c20ErrText(err error) (msg string, goPanic bool) {
	if ae, ok := err.(*lua.ApiError); ok {
		if ae.Object != nil && ae.Object != lua.LNil {
			msg = ae.Object.String()
		} else {
			msg = ae.Error()
		}
		return msg, ae.Type == lua.ApiErrorPanic
	}
	return err.Error(), true
}

func c20LooksLikeGoPanic(msg string) bool {
	return strings.Contains(msg, "runtime error") || strings.Contains(msg, "nil pointer") || strings.Contains(msg, "interface conversion")
}

// the Go loader (source preloadGo): the same behaviours written against the Go API
func (w *c20Worker) goLoader(x, beh int) lua.LGFunction {
	n := c20Mods[x].name
	return func(L *lua.LState) int {
		w.events = append(w.events, c20Event{"run", []lua.LValue{lua.LString(n), lua.LString("G"), L.Get(1)}})
		mk := func(flag string) *lua.LTable {
			t := L.NewTable()
			t.RawSetString("mod", lua.LString(n))
			t.RawSetString("tag", lua.LString("G"))
			if flag != "" {
				t.RawSetString(flag, lua.LTrue)
			}
			return t
		}
		setLoaded := func(v lua.LValue) {
			L.SetField(L.GetField(L.GetGlobal("package"), "loaded"), n, v)
		}
		dep := func(y int) int {
			L.Push(L.GetGlobal("require"))
			L.Push(lua.LString(c20Mods[y].name))
			L.Call(1, 1)
			v := L.Get(-1)
			L.Pop(1)
			t := mk("hasdep")
			t.RawSetString("dep", v)
			L.Push(t)
			return 1
		}
		switch beh {
		case c20Tbl:
			L.Push(mk(""))
			return 1
		case c20False:
			L.Push(lua.LFalse)
			return 1
		case c20None:
			return 0
		case c20Set:
			setLoaded(mk("w"))
			return 0
		case c20SetRet:
			setLoaded(mk("w"))
			L.Push(mk("v"))
			return 1
		case c20Raise:
			L.RaiseError("boom-%s", n)
			return 0
		case c20ReqNext:
			return dep(c20Mods[x].next)
		case c20ReqPrev:
			return dep(c20Mods[x].prev)
		case c20ReqSelf:
			return dep(x)
		case c20ReqSelfP:
			t := mk("caught")
			L.Push(L.GetGlobal("require"))
			L.Push(lua.LString(n))
			if err := L.PCall(1, 1, nil); err != nil {
				msg, _ := c20ErrText(err)
				t.RawSetString("caughtok", lua.LFalse)
				t.RawSetString("caughtmsg", lua.LString(msg))
			} else {
				t.RawSetString("caughtok", lua.LTrue)
				t.RawSetString("caughtmsg", L.Get(-1))
				L.Pop(1)
			}
			L.Push(t)
			return 1
		}
		panic("c20: go loader behaviour")
	}
}

const c20Pack = "local function pack(...) return select('#', ...), ... end\n"

func c20RequireSrc(x int) string {
	return c20Pack + fmt.Sprintf("local n, r = pack(require(%q))\nemit(\"ret\", n, r, rawequal(r, package.loaded[%q]))\n", c20Mods[x].name, c20Mods[x].name)
}
func c20PcallRequireSrc(x int) string {
	return c20Pack + fmt.Sprintf("local n, ok, r = pack(pcall(require, %q))\nemit(\"pret\", n, ok, r, rawequal(r, package.loaded[%q]))\n", c20Mods[x].name, c20Mods[x].name)
}
func c20ClearSrc(x int) string { return fmt.Sprintf("package.loaded[%q] = nil\n", c20Mods[x].name) }
func c20RegPLSrc(x, beh int) string {
	if beh == c20Module {
		// module() replaces the environment of the function that calls it - for good. A preload
		// function is one object that runs again after package.loaded[x]=nil, and would then find
		// no globals. The body therefore runs in an inner closure made anew (with the global
		// environment of the never-modified outer function) on every call, so that the registered
		// loader carries no hidden state from one run to the next.
		return fmt.Sprintf("package.preload[%q] = function(...)\nlocal function body(...)\n%send\nreturn body(...)\nend\n", c20Mods[x].name, c20LuaBody(x, "P", beh))
	}
	return fmt.Sprintf("package.preload[%q] = function(...)\n%send\n", c20Mods[x].name, c20LuaBody(x, "P", beh))
}
func c20UnregSrc(x int) string { return fmt.Sprintf("package.preload[%q] = nil\n", c20Mods[x].name) }

const c20SetPathSrc = "package.path = ...\n"

func c20HostF(x int) lua.LGFunction {
	return func(L *lua.LState) int {
		L.Push(lua.LString("hostf-" + c20Mods[x].name))
		return 1
	}
}

func c20Field(L *lua.LState, tbname, key string) lua.LValue {
	pkg, ok := L.GetGlobal("package").(*lua.LTable)
	if !ok {
		return nil
	}
	tb, ok := pkg.RawGetString(tbname).(*lua.LTable)
	if !ok {
		return nil
	}
	return tb.RawGetString(key)
}

func c20GlobalAt(L *lua.LState, path []string) lua.LValue {
	var cur lua.LValue = L.Get(lua.GlobalsIndex)
	for _, p := range path {
		tb, ok := cur.(*lua.LTable)
		if !ok {
			return lua.LNil
		}
		cur = tb.RawGetString(p)
	}
	return cur
}

func c20Class(v lua.LValue) string {
	switch x := v.(type) {
	case nil:
		return "<unreadable>"
	case *lua.LNilType:
		return "nil"
	case lua.LBool:
		if bool(x) {
			return "true"
		}
		return "false"
	case *lua.LTable:
		return "table"
	case *lua.LUserData:
		return "userdata"
	case *lua.LFunction:
		return "function"
	case lua.LString:
		return "string"
	case lua.LNumber:
		return "number"
	}
	return v.Type().String()
}

// white-box part of the state key
func c20ImplDump(L *lua.LState) string {
	var b strings.Builder
	ids := map[*lua.LTable]int{}
	val := func(v lua.LValue) {
		if t, ok := v.(*lua.LTable); ok {
			id, seen := ids[t]
			if !seen {
				id = len(ids) + 1
				ids[t] = id
			}
			fmt.Fprintf(&b, "T%d ", id)
			return
		}
		b.WriteString(c20Class(v))
		b.WriteByte(' ')
	}
	for x := range c20Mods {
		val(c20Field(L, "loaded", c20Mods[x].name))
	}
	b.WriteString("G ")
	for x := range c20Mods {
		val(c20GlobalAt(L, c20Mods[x].gpath))
	}
	b.WriteString("P ")
	for x := range c20Mods {
		b.WriteString(c20Class(c20Field(L, "preload", c20Mods[x].name)))
		b.WriteByte(' ')
	}
	// the table require really consults (registry._LOADED) - the same as package.loaded, or dumped
	if reg := L.GetField(L.Get(lua.RegistryIndex), "_LOADED"); reg == L.GetField(L.GetGlobal("package"), "loaded") {
		b.WriteString("R=")
	} else if rt, ok := reg.(*lua.LTable); ok {
		b.WriteString("R ")
		for x := range c20Mods {
			val(rt.RawGetString(c20Mods[x].name))
		}
	} else {
		b.WriteString("R? ")
	}
	return b.String()
}

// ---- the check --------------------------------------------------------------------------------

type c20Ctx struct {
	env    *c20Env
	report func(sig, what string, replay interface{})
	pass   string
	// observation, not judged: RegisterModule on a module already loaded as a table left the
	// registered function out of that table (transitions where this was seen)
	obsFuncsNotAdded int64
}

func (c *c20Ctx) viol(sig, what string, hist []c20Op) {
	hist = append([]c20Op(nil), hist...)
	c.report(sig, what+"\nhistory: "+strings.Join(c20HistText(hist), " ; "),
		map[string]interface{}{"kind": "history", "pass": c.pass, "history": hist, "history_text": c20HistText(hist)})
}

type c20Outcome struct {
	ok     bool   // no violation on the last step
	key    string // state key after the history
	class  string // behaviour class of the last step (for the distinct-non-trivial count)
	judged bool   // the last step's outcome was compared with the model
}

// run replays hist on a fresh state; the last step is the transition being validated.
func (c *c20Ctx) run(w *c20Worker, hist []c20Op) c20Outcome {
	L := w.newState()
	defer L.Close()
	m := newC20Model()
	if err := w.exec(L, c20SetPathSrc, lua.LString(m.path(c.env))); err != nil {
		harness.Fatal("c20: set path: %v", err)
	}
	var out c20Outcome
	for i := range hist {
		last := i == len(hist)-1
		ok, class, judged := c.step(w, L, m, hist[:i+1], last)
		if !ok {
			if !last {
				harness.Fatal("c20: step %d of %v failed on replay although it passed as a transition: nondeterminism in the harness", i, c20HistText(hist))
			}
			return c20Outcome{}
		}
		out.class, out.judged = class, judged
	}
	out.ok = true
	out.key = m.String() + "| " + c20ImplDump(L)
	return out
}

// bind checks that actual is what exp describes and binds fresh table identities.
func (c *c20Ctx) bind(m *c20Model, exp c20Exp, actual lua.LValue) string {
	if exp.kind != "val" {
		return "internal: bind of " + exp.kind
	}
	switch exp.val.kind {
	case 't':
		if actual != lua.LTrue {
			return "expected true, got " + c20Class(actual)
		}
		return ""
	case 'f':
		if actual != lua.LFalse {
			return "expected false, got " + c20Class(actual)
		}
		return ""
	}
	ref := exp.val.ref
	tb, ok := actual.(*lua.LTable)
	if !ok {
		return fmt.Sprintf("expected %s, got %s", exp, c20Class(actual))
	}
	if !exp.fresh || ref.tb != nil {
		if ref.tb == nil {
			return "internal: unbound cached table"
		}
		if tb != ref.tb {
			return fmt.Sprintf("expected the cached table of module %s (rawequal), got a different table (mod=%v tag=%v)", c20Mods[ref.mod].name, tb.RawGetString("mod"), tb.RawGetString("tag"))
		}
		if exp.isModule {
			// module(name) on an existing global table: it is a module table now
			if tb.RawGetString("_NAME") != lua.LString(c20Mods[ref.mod].name) || tb.RawGetString("_M") != lua.LValue(tb) {
				return fmt.Sprintf("module(%q) reused the global table but did not make it a module table (_NAME=%v)", c20Mods[ref.mod].name, tb.RawGetString("_NAME"))
			}
			if f, ok := tb.RawGetString("f").(*lua.LFunction); !ok || f.IsG {
				return "module table lacks the function defined after module()"
			}
		}
		return ""
	}
	if ref.variant == "any" {
		ref.tb = tb
		m.known[tb] = true
		return ""
	}
	if m.known[tb] {
		return fmt.Sprintf("expected a table newly made by the loader of %s, got a table that existed before (mod=%v tag=%v)", c20Mods[ref.mod].name, tb.RawGetString("mod"), tb.RawGetString("tag"))
	}
	n := c20Mods[ref.mod].name
	switch ref.variant {
	case "module":
		if tb.RawGetString("_NAME") != lua.LString(n) || tb.RawGetString("_M") != lua.LValue(tb) || tb.RawGetString("_PACKAGE") != lua.LString(c20Mods[ref.mod].pkg) {
			return fmt.Sprintf("module table of %s: _NAME=%v _M-is-self=%v _PACKAGE=%q", n, tb.RawGetString("_NAME"), tb.RawGetString("_M") == lua.LValue(tb), tb.RawGetString("_PACKAGE").String())
		}
		if _, ok := tb.RawGetString("f").(*lua.LFunction); !ok {
			return "module table of " + n + " lacks the function defined after module()"
		}
	case "host":
		if _, ok := tb.RawGetString("f").(*lua.LFunction); !ok {
			return "table of RegisterModule(" + n + ") lacks the registered function"
		}
	default:
		if tb.RawGetString("mod") != lua.LString(n) || tb.RawGetString("tag") != lua.LString(ref.tag) {
			return fmt.Sprintf("expected the table made by loader %s/%s, got mod=%v tag=%v", n, ref.tag, tb.RawGetString("mod"), tb.RawGetString("tag"))
		}
		switch ref.variant {
		case "plain":
			if tb.RawGetString("w") != lua.LNil || tb.RawGetString("v") != lua.LNil || tb.RawGetString("hasdep") != lua.LNil || tb.RawGetString("caught") != lua.LNil {
				return "table of the wrong loader variant"
			}
		case "w":
			if tb.RawGetString("w") != lua.LTrue {
				return "expected the table the loader stored in package.loaded"
			}
		case "v|w":
			if tb.RawGetString("w") != lua.LTrue && tb.RawGetString("v") != lua.LTrue {
				return "expected the stored or the returned table of the loader"
			}
		case "caught":
			if tb.RawGetString("caught") != lua.LTrue {
				return "table of the wrong loader variant"
			}
			if tb.RawGetString("caughtok") != lua.LFalse {
				return fmt.Sprintf("require of the module from inside its own loader did not raise (pcall gave %v)", tb.RawGetString("caughtok"))
			}
			if msg := tb.RawGetString("caughtmsg").String(); !strings.Contains(strings.ToLower(msg), "loop") {
				return fmt.Sprintf("require of the module from inside its own loader raised %q, which does not mention a loop", msg)
			}
		case "dep":
			if tb.RawGetString("hasdep") != lua.LTrue {
				return "table of the wrong loader variant"
			}
			if why := c.bind(m, *ref.dep, tb.RawGetString("dep")); why != "" {
				return fmt.Sprintf("value the loader of %s got from its nested require: %s", n, why)
			}
		}
	}
	ref.tb = tb
	m.known[tb] = true
	return ""
}

func c20PreName(v c20Val) string {
	switch v.kind {
	case 0:
		return "absent"
	case 't':
		return "true"
	case 'f':
		return "false"
	case 'T':
		return "table"
	}
	return "unjudged"
}

func (m *c20Model) loaderName(x int) string {
	if m.cfg[x].src == c20SrcNone {
		return "none"
	}
	return c20SrcName[m.cfg[x].src] + ":" + c20BehName[m.cfg[x].beh]
}

// chain describes the loaders a require(x) would walk through (for signatures)
func (m *c20Model) chain(x int) string {
	s := m.loaderName(x)
	seen := map[int]bool{x: true}
	for y, ok := m.target(x); ok && m.loaded[x].kind == 0; y, ok = m.target(y) {
		s += fmt.Sprintf(">%s[%s]%s", c20Mods[y].name, c20PreName(m.loaded[y]), m.loaderName(y))
		if seen[y] || m.loaded[y].kind != 0 {
			break
		}
		seen[y] = true
	}
	return s
}

// step applies the last operation of hist to implementation and model. Binding needs the
// comparison, so every step is compared; only the last one may legitimately fail.
func (c *c20Ctx) step(w *c20Worker, L *lua.LState, m *c20Model, hist []c20Op, last bool) (ok bool, class string, judged bool) {
	op := hist[len(hist)-1]
	x := op.Mod
	n := c20Mods[x].name
	w.events = w.events[:0]
	switch op.Kind {
	case "register":
		var err error
		switch {
		case c20SrcPreloadGo(op.Src):
			func() {
				defer func() {
					if r := recover(); r != nil {
						err = fmt.Errorf("%v", r)
					}
				}()
				L.PreloadModule(n, w.goLoader(x, op.Beh))
			}()
		case c20SrcHasPreload(op.Src):
			err = w.exec(L, c20RegPLSrc(x, op.Beh))
		default:
			err = w.exec(L, c20UnregSrc(x))
		}
		m.cfg[x] = c20Cfg{op.Src, op.Beh}
		if op.Src == c20SrcNone {
			m.cfg[x].beh = 0
		}
		if err == nil {
			err = w.exec(L, c20SetPathSrc, lua.LString(m.path(c.env)))
		}
		if err != nil {
			c.viol("register-error/"+c20SrcName[op.Src], fmt.Sprintf("registering a loader raised: %v", err), hist)
			return false, "", false
		}
		got := c20Class(c20Field(L, "preload", n))
		want := "nil"
		if c20SrcHasPreload(op.Src) {
			want = "function"
		}
		if got != want {
			c.viol("register-preload/"+c20SrcName[op.Src], fmt.Sprintf("package.preload[%q] is %s after the registration, expected %s", n, got, want), hist)
			return false, "", false
		}
		class = "register"
	case "clear":
		if err := w.exec(L, c20ClearSrc(x)); err != nil {
			c.viol("clear-error", fmt.Sprintf("package.loaded[%q]=nil raised: %v", n, err), hist)
			return false, "", false
		}
		m.loaded[x] = c20Val{}
		class = "clear"
	case "RegisterModule":
		pre := m.loaded[x]
		preG := m.global[x]
		ctx := fmt.Sprintf("RegisterModule/%s/loaded=%s/global=%s", n, c20PreName(pre), c20PreName(preG))
		var ret lua.LValue
		var err error
		func() {
			defer func() {
				if r := recover(); r != nil {
					if ae, ok := r.(*lua.ApiError); ok {
						err = ae
					} else {
						err = fmt.Errorf("GO PANIC: %v", r)
					}
				}
			}()
			ret = L.RegisterModule(n, map[string]lua.LGFunction{"f": c20HostF(x)})
		}()
		L.SetTop(0)
		if err != nil && strings.HasPrefix(err.Error(), "GO PANIC") {
			c.viol("go-panic/"+ctx, err.Error(), hist)
			return false, "", false
		}
		class = ctx
		switch {
		case pre.kind == 'U':
			// not judged; the global may or may not have been touched
			m.global[x] = c20Val{kind: 'U'}
		case err != nil:
			c.viol("error/"+ctx, fmt.Sprintf("RegisterModule raised although no global of that name holds a non-table: %v", err), hist)
			return false, "", false
		case pre.kind == 'T':
			// the module is already loaded as a table: that table is the module (whether the
			// functions are added to it is not judged: luaL_register adds them, the statement is silent)
			judged = true
			if why := c.bind(m, c20Exp{kind: "val", val: pre}, ret); why != "" {
				c.viol("result/"+ctx, "RegisterModule returned: "+why, hist)
				return false, "", false
			}
			if f, ok := ret.(*lua.LTable).RawGetString("f").(*lua.LFunction); last && (!ok || !f.IsG) {
				atomic.AddInt64(&c.obsFuncsNotAdded, 1)
			}
		default:
			judged = true
			var exp c20Exp
			switch preG.kind {
			case 'T':
				exp = c20Exp{kind: "val", val: preG}
			case 'U':
				exp = c20Exp{kind: "val", val: c20Val{'T', &c20Ref{mod: x, variant: "any"}}, fresh: true}
			default:
				exp = c20Exp{kind: "val", val: c20Val{'T', &c20Ref{mod: x, variant: "host"}}, fresh: true}
			}
			if why := c.bind(m, exp, ret); why != "" {
				c.viol("result/"+ctx, "RegisterModule returned: "+why, hist)
				return false, "", false
			}
			tb := ret.(*lua.LTable)
			if f, ok := tb.RawGetString("f").(*lua.LFunction); !ok || !f.IsG {
				c.viol("funcs/"+ctx, "the table returned by RegisterModule does not hold the registered function", hist)
				return false, "", false
			}
			m.loaded[x] = exp.val
			m.global[x] = exp.val
		}
	case "require", "pcall_require":
		pre := m.loaded[x]
		ctx := fmt.Sprintf("%s/%s/%s/%s", op.Kind, n, c20PreName(pre), m.chain(x))
		saved := *m
		ev := &c20Eval{m: m}
		exp := ev.require(x, 0)
		if ev.unknown {
			loadedSaved, globalSaved := saved.loaded, saved.global
			m.loaded, m.global = loadedSaved, globalSaved
			m.markUnknown(x)
		}
		src := c20RequireSrc(x)
		if op.Kind == "pcall_require" {
			src = c20PcallRequireSrc(x)
		}
		err := w.exec(L, src)
		// collect what happened
		var runs []c20Event
		var fin *c20Event
		for i := range w.events {
			e := &w.events[i]
			if e.kind == "run" {
				runs = append(runs, *e)
			} else {
				fin = e
			}
		}
		failed, msg := false, ""
		var result lua.LValue
		var nres int
		var raweq lua.LValue
		if err != nil {
			var gp bool
			msg, gp = c20ErrText(err)
			failed = true
			if gp {
				c.viol("go-panic/"+ctx, "Go panic inside require: "+msg, hist)
				return false, "", false
			}
			if op.Kind == "pcall_require" {
				c.viol("pcall-leak/"+ctx, "an error escaped pcall(require, ...): "+msg, hist)
				return false, "", false
			}
		} else {
			if fin == nil {
				harness.Fatal("c20: no result event")
			}
			if op.Kind == "require" {
				nres = int(lua.LVAsNumber(fin.args[0]))
				result = fin.args[1]
				raweq = fin.args[2]
			} else {
				cnt := int(lua.LVAsNumber(fin.args[0]))
				if fin.args[1] == lua.LTrue {
					nres = cnt - 1
					result = fin.args[2]
					raweq = fin.args[3]
				} else {
					failed = true
					msg = fin.args[2].String()
					if cnt != 2 {
						c.viol("pcall-shape/"+ctx, fmt.Sprintf("failed pcall(require) returned %d values", cnt), hist)
						return false, "", false
					}
					if c20LooksLikeGoPanic(msg) {
						c.viol("go-panic/"+ctx, "Go panic inside require: "+msg, hist)
						return false, "", false
					}
				}
			}
		}
		for _, e := range runs {
			for y := range c20Mods {
				if len(e.args) > 0 && e.args[0] == lua.LString(c20Mods[y].name) {
					m.past[y] |= 1
				}
			}
		}
		if failed {
			m.past[x] |= 2
		}
		class = ctx + "=>" + exp.String()
		if ev.unknown {
			// nothing else is judged
			break
		}
		judged = true
		// 1. loader invocation log
		if why := c20MatchLog(ev.log, runs); why != "" {
			c.viol("loaders-run/"+ctx, fmt.Sprintf("loader invocations: %s (expected %s, observed %s)", why, c20LogExpText(ev.log), c20RunsText(runs)), hist)
			return false, "", false
		}
		// 2. outcome
		switch exp.kind {
		case "val":
			if failed {
				c.viol("result/"+ctx+"/want="+exp.String()+",got=error", fmt.Sprintf("require(%q) raised %q, expected %s", n, msg, exp), hist)
				return false, "", false
			}
			if nres != 1 {
				c.viol("nresults/"+ctx, fmt.Sprintf("require(%q) returned %d values", n, nres), hist)
				return false, "", false
			}
			if why := c.bind(m, exp, result); why != "" {
				c.viol("result/"+ctx+"/want="+exp.String()+",got="+c20Class(result), fmt.Sprintf("require(%q): %s", n, why), hist)
				return false, "", false
			}
			if raweq != lua.LTrue {
				c.viol("loaded-differs/"+ctx, fmt.Sprintf("require(%q) returned a value that is not rawequal to package.loaded[%q]", n, n), hist)
				return false, "", false
			}
		default:
			if !failed {
				c.viol("result/"+ctx+"/want="+exp.kind+",got="+c20Class(result), fmt.Sprintf("require(%q) returned %s, expected an error (%s)", n, c20Class(result), exp.kind), hist)
				return false, "", false
			}
			en := c20Mods[exp.mod].name
			switch exp.kind {
			case "err-loop":
				if !strings.Contains(strings.ToLower(msg), "loop") {
					c.viol("message/loop/"+ctx, fmt.Sprintf("self-requiring load failed with %q, which does not mention a loop", msg), hist)
					return false, "", false
				}
			case "err-boom":
				if !strings.Contains(msg, "boom-"+en) {
					c.viol("message/loader-error/"+ctx, fmt.Sprintf("the loader's error \"boom-%s\" was reported as %q", en, msg), hist)
					return false, "", false
				}
			case "err-notfound":
				if !strings.Contains(msg, "no field package.preload['"+en+"']") {
					c.viol("message/notfound-preload/"+ctx, fmt.Sprintf("missing module %s: message %q does not name package.preload['%s']", en, msg, en), hist)
					return false, "", false
				}
				for _, p := range saved.expansions(c.env, exp.mod) {
					if !strings.Contains(msg, p) {
						rel, _ := filepath.Rel(c.env.root, p)
						c.viol("message/notfound-path/"+ctx, fmt.Sprintf("missing module %s: message %q does not list the tried file %s (<work>/%s)", en, msg, p, rel), hist)
						return false, "", false
					}
				}
			}
		}
	default:
		harness.Fatal("c20: op %q", op.Kind)
	}
	// read-back of the whole visible state against the model
	for y := range c20Mods {
		yn := c20Mods[y].name
		if why := c20ReadBack(m.loaded[y], c20Field(L, "loaded", yn)); why != "" {
			c.viol(fmt.Sprintf("readback-loaded/%s/%s/%s", op.Kind, c20Same(x, y), class), fmt.Sprintf("after the last operation package.loaded[%q] %s", yn, why), hist)
			return false, "", false
		}
		if why := c20ReadBack(m.global[y], c20GlobalAt(L, c20Mods[y].gpath)); why != "" {
			c.viol(fmt.Sprintf("readback-global/%s/%s/%s", op.Kind, c20Same(x, y), class), fmt.Sprintf("after the last operation the global %s %s", yn, why), hist)
			return false, "", false
		}
	}
	return true, class, judged
}

func c20Same(x, y int) string {
	if x == y {
		return "same-module"
	}
	return "other-module"
}

func c20ReadBack(v c20Val, actual lua.LValue) string {
	switch v.kind {
	case 0:
		if actual != lua.LNil {
			return "is " + c20Class(actual) + ", the model says nil"
		}
	case 't':
		if actual != lua.LTrue {
			return "is " + c20Class(actual) + ", the model says true"
		}
	case 'f':
		if actual != lua.LFalse {
			return "is " + c20Class(actual) + ", the model says false"
		}
	case 'T':
		if v.ref.tb == nil {
			return "internal: unbound table in the model"
		}
		if actual != lua.LValue(v.ref.tb) {
			return "is " + c20Class(actual) + " but not the table the model holds (the one require returned)"
		}
	}
	return ""
}

func c20MatchLog(exp []c20LogExp, runs []c20Event) string {
	i := 0
	for _, e := range exp {
		if i < len(runs) {
			r := runs[i]
			if len(r.args) >= 3 && r.args[0] == lua.LString(c20Mods[e.mod].name) && r.args[1] == lua.LString(e.tag) {
				if r.args[2] != lua.LString(c20Mods[e.mod].name) {
					return fmt.Sprintf("loader of %s was called with argument %v instead of the module name", c20Mods[e.mod].name, r.args[2])
				}
				i++
				continue
			}
		}
		if e.optional {
			continue
		}
		if i >= len(runs) {
			return fmt.Sprintf("loader %s/%s did not run", c20Mods[e.mod].name, e.tag)
		}
		return fmt.Sprintf("loader %v/%v ran where %s/%s was expected", runs[i].args[0], runs[i].args[1], c20Mods[e.mod].name, e.tag)
	}
	if i < len(runs) {
		return fmt.Sprintf("loader %v/%v ran although nothing (more) had to be loaded", runs[i].args[0], runs[i].args[1])
	}
	return ""
}

func c20LogExpText(exp []c20LogExp) string {
	var s []string
	for _, e := range exp {
		t := c20Mods[e.mod].name + "/" + e.tag
		if e.optional {
			t += "?"
		}
		s = append(s, t)
	}
	return "[" + strings.Join(s, " ") + "]"
}

func c20RunsText(runs []c20Event) string {
	var s []string
	for _, r := range runs {
		if len(r.args) >= 2 {
			s = append(s, r.args[0].String()+"/"+r.args[1].String())
		}
	}
	return "[" + strings.Join(s, " ") + "]"
}

// ---- BFS --------------------------------------------------------------------------------------

type c20Pass struct {
	name     string
	menu     []c20Op
	depth    int
	deadline time.Time
}

type c20Seen struct {
	sh [256]struct {
		mu sync.Mutex
		m  map[[12]byte]struct{}
	}
}

func newC20Seen() *c20Seen {
	s := &c20Seen{}
	for i := range s.sh {
		s.sh[i].m = map[[12]byte]struct{}{}
	}
	return s
}

func (s *c20Seen) add(key string) bool {
	// FNV-1a 64 + a second 32-bit mix: 96 bits, collisions negligible at 10^8 states
	var h1 uint64 = 14695981039346656037
	var h2 uint32 = 2166136261
	for i := 0; i < len(key); i++ {
		h1 = (h1 ^ uint64(key[i])) * 1099511628211
		h2 = (h2 ^ uint32(key[i])) * 16777619
		h2 += h2 << 3
	}
	var k [12]byte
	for i := 0; i < 8; i++ {
		k[i] = byte(h1 >> (8 * uint(i)))
	}
	for i := 0; i < 4; i++ {
		k[8+i] = byte(h2 >> (8 * uint(i)))
	}
	sh := &s.sh[k[0]]
	sh.mu.Lock()
	defer sh.mu.Unlock()
	if _, ok := sh.m[k]; ok {
		return false
	}
	sh.m[k] = struct{}{}
	return true
}

type c20PassResult struct {
	Name             string  `json:"pass"`
	Menu             int     `json:"operation_menu_size"`
	DepthBound       int     `json:"depth_bound"`
	DepthDone        int     `json:"max_depth_completed"`
	States           int64   `json:"states"`
	Transitions      int64   `json:"transitions"`
	Judged           int64   `json:"transitions_with_judged_outcome"`
	Unjudged         int64   `json:"require_transitions_not_judged"`
	ObsFuncsNotAdded int64   `json:"observed_not_judged_RegisterModule_on_loaded_table_did_not_add_funcs"`
	WallS            float64 `json:"wall_s"`
	Exhaustive       bool    `json:"exhaustive_within_bound"`
}

func c20RunPass(r *harness.Run, env *c20Env, workers []*c20Worker, p c20Pass) c20PassResult {
	t0 := time.Now()
	c := &c20Ctx{env: env, pass: p.name, report: func(sig, what string, replay interface{}) { r.Violation(sig, what, replay) }}
	seen := newC20Seen()
	res := c20PassResult{Name: p.name, Menu: len(p.menu), DepthBound: p.depth, DepthDone: 0, Exhaustive: true}
	st0 := c.run(workers[0], nil)
	seen.add(st0.key)
	frontier := [][]uint16{{}}
	var states, transitions, judged, unjudged int64 = 1, 0, 0, 0
	const chunk = 8
	for d := 1; d <= p.depth && len(frontier) > 0; d++ {
		var next [][]uint16
		var mu sync.Mutex
		var expired int32
		nchunks := (len(frontier) + chunk - 1) / chunk
		keepNext := d < p.depth
		harness.ParallelShards(nchunks, func(wi, shard int) {
			w := workers[wi]
			var localNext [][]uint16
			var ltrans, ljudged, lstates, lunjudged int64
			hist := make([]c20Op, 0, p.depth)
			for si := shard * chunk; si < (shard+1)*chunk && si < len(frontier); si++ {
				if atomic.LoadInt32(&expired) != 0 || time.Now().After(p.deadline) || r.Expired() {
					atomic.StoreInt32(&expired, 1)
					break
				}
				st := frontier[si]
				hist = hist[:0]
				for _, oi := range st {
					hist = append(hist, p.menu[oi])
				}
				for oi, op := range p.menu {
					h2 := append(hist, op)
					out := c.run(w, h2)
					ltrans++
					if out.judged {
						ljudged++
						r.Nontrivial(out.class)
					} else if out.ok && (op.Kind == "require" || op.Kind == "pcall_require") {
						lunjudged++
					}
					if ltrans == 1 && si%4096 == 0 {
						hcopy := c20HistText(h2)
						r.AddSample(map[string]interface{}{"pass": p.name, "history": hcopy, "class": out.class, "state_after": out.key})
					}
					if !out.ok {
						continue
					}
					if seen.add(out.key) {
						lstates++
						if keepNext {
							h := make([]uint16, len(st)+1)
							copy(h, st)
							h[len(st)] = uint16(oi)
							localNext = append(localNext, h)
						}
					}
				}
			}
			r.EvalN(ltrans)
			mu.Lock()
			next = append(next, localNext...)
			states += lstates
			transitions += ltrans
			judged += ljudged
			unjudged += lunjudged
			mu.Unlock()
		})
		if expired != 0 {
			res.Exhaustive = false
			r.NotExhaustive(fmt.Sprintf("pass %s: deadline reached while expanding depth %d (depth %d fully covered)", p.name, d, d-1))
			break
		}
		res.DepthDone = d
		sort.Slice(next, func(i, j int) bool {
			a, b := next[i], next[j]
			for k := 0; k < len(a) && k < len(b); k++ {
				if a[k] != b[k] {
					return a[k] < b[k]
				}
			}
			return len(a) < len(b)
		})
		frontier = next
	}
	res.States, res.Transitions, res.Judged, res.Unjudged = states, transitions, judged, unjudged
	res.WallS = time.Since(t0).Seconds()
	res.ObsFuncsNotAdded = atomic.LoadInt64(&c.obsFuncsNotAdded)
	return res
}

func runC20(r *harness.Run) {
	start := time.Now()
	env := newC20Env()
	defer env.cleanup()
	nw := harness.Workers()
	workers := make([]*c20Worker, nw)
	for i := range workers {
		workers[i] = newC20Worker(env)
	}
	all := []int{0, 1, 2}

	r.Rule = "explicit-state BFS over histories of {require(x), pcall(require,x), (re)register a loader for x (source x behaviour), package.loaded[x]=nil, L.RegisterModule(x,{f})} over modules a, b (found as b/init.lua), c.d (found as c/d.lua); " +
		"loader sources {package.preload from Lua, LState.PreloadModule with a Go loader, file on package.path, preload+file, none}; behaviours {returns table, returns false, returns nothing, stores package.loaded[name] only, stores and returns, raises, requires next, requires previous (2- and 3-cycles), requires itself, requires itself under pcall and carries on, calls module(name)}; " +
		"every transition is executed on the real interpreter (whole history replayed on a fresh LState + 1 operation) and compared with a Go reference model of ll_require/luaL_register/ll_module: result value by identity (rawequal), exact loader invocation log through emit (which loader, which source, with which argument), error class and message content, and a read-back of package.loaded / the module globals; " +
		"a state is (model state, white-box read-back of package.loaded, registry._LOADED, package.preload, module globals with table identities canonicalised, and per module the history bits 'a loader of it has run' / 'a require of it has failed', so that cleared-after-use is not merged with never-used); non-trivial = distinct (operation, module, cache state, loader chain, expected outcome) classes whose outcome the model judges; " +
		"plus exhaustive host-module scenarios (OpenLibs reachability, every order of opening the libraries after package+base with RegisterModule/PreloadModule interleaved, loader files rewritten on disk)"
	r.Assumptions = []string{
		"a loader file being (re)written is modelled in the BFS by switching package.path to a pre-built directory holding that variant (the library re-reads package.path and the file system on every search, so it cannot tell the difference); real rewriting of one file in one directory is covered by the separate file scenarios",
		"which of the stored and the returned value wins when a loader does both is not judged (PUC 5.1 and gopher-lua differ, the statement is silent): either is accepted, but all later requires must return that same value",
		"after a failed load (loader error, loop) a later require of the same module is only required not to crash until package.loaded[x]=nil is executed; everything such a require may touch is not judged either",
		"a loader that returned false: the value false is judged, the number of times the loader runs afterwards is not (PUC 5.1 re-runs it, the statement says once); if the loader was replaced meanwhile the outcome is not judged",
		"RegisterModule on a module that is already loaded as a table must return that table; whether the functions are added to it is not judged (gopher-lua does not add them, luaL_register does)",
		"successors of a violating transition are not explored",
		"the BFS states carry only the package and base libraries (state creation 50 µs instead of 400 µs); the full OpenLibs state is exercised by the host-module scenarios",
	}

	// host-module scenarios first (cheap)
	c20Static(r, env, workers)

	var passes []c20Pass
	two := []int{0, 1}
	if !r.Thorough() {
		end := start.Add(50 * time.Second)
		passes = []c20Pass{
			{"full-alphabet", c20MenuFull(all), 2, end},
			{"covering-alphabet", c20MenuCover(all), 4, end},
			{"covering-alphabet-2-modules", c20MenuCover(two), 5, end},
			{"full-alphabet-2-modules", c20MenuFull(two), 3, end},
		}
	} else {
		passes = []c20Pass{
			{"full-alphabet", c20MenuFull(all), 3, start.Add(4 * time.Minute)},
			{"covering-alphabet", c20MenuCover(all), 6, start.Add(12*time.Minute + 30*time.Second)},
			{"covering-alphabet-2-modules", c20MenuCover(two), 7, start.Add(15 * time.Minute)},
			{"full-alphabet-2-modules", c20MenuFull(two), 4, start.Add(17*time.Minute + 30*time.Second)},
		}
	}
	var results []c20PassResult
	var states, transitions, judged int64
	for _, p := range passes {
		res := c20RunPass(r, env, workers, p)
		results = append(results, res)
		states += res.States
		transitions += res.Transitions
		judged += res.Judged
		r.Count("transitions/"+p.name, res.Transitions)
		r.Count("states/"+p.name, res.States)
	}
	r.Extra["passes"] = results
	r.Extra["states"] = states
	r.Extra["transitions"] = transitions
	r.Extra["traces_validated_against_impl"] = transitions
	r.Extra["transitions_with_judged_outcome"] = judged
	runPinned(r, "C20")
	requireHistories(r)
	c20NumericNames(r)
}

// ---- replay -----------------------------------------------------------------------------------

func replayC20(raw json.RawMessage) (bool, string) {
	var rec struct {
		Kind     string  `json:"kind"`
		History  []c20Op `json:"history"`
		Thorough bool    `json:"thorough"`
	}
	if err := json.Unmarshal(raw, &rec); err != nil {
		return true, "bad replay object: " + err.Error()
	}
	env := newC20Env()
	defer env.cleanup()
	var found []string
	report := func(sig, what string, replay interface{}) {
		found = append(found, sig+"\n  "+strings.ReplaceAll(what, "\n", "\n  "))
	}
	w := newC20Worker(env)
	if rec.Kind == "static" {
		c20StaticWith(report, env, w, rec.Thorough, nil)
	} else {
		for _, o := range rec.History {
			if !c20ValidOp(o) {
				return true, "bad operation in the history"
			}
		}
		c := &c20Ctx{env: env, pass: "replay", report: report}
		for i := 1; i <= len(rec.History) && len(found) == 0; i++ {
			c.run(w, rec.History[:i])
		}
	}
	if len(found) == 0 {
		if rec.Kind == "static" {
			return true, "C20 replay: host-module and file scenarios — no violation"
		}
		return true, "C20 replay: history " + strings.Join(c20HistText(rec.History), " ; ") + " — no violation"
	}
	return false, "C20 replay: " + strings.Join(found, "\n")
}
