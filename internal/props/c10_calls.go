package props

// C10 part 2 — the call contract of Call / PCall / CallByParam / GPCall, as a complete matrix:
//   activation (depth 0-3 x 0-3 values below the function x fixed/growing registry)
//   x nargs 0-3 x NRet {0,1,2,3,MultRet} x results produced 0-4
//   x callee {Lua vararg function, Lua function with two parameters, Go function, table with __call = Lua function, table with __call = Go
//     function, userdata with __call = Go function}
//   x entry {Call, PCall, PCall+handler, PCall+failing handler, CallByParam unprotected (with and
//     without a Handler), CallByParam protected (no handler, handler, failing handler)} (+ GPCall)
//   x outcome {returns, raises a Lua error, Go panic inside a host function}.
// Oracle (from the statement): after a successful call the stack is what was below the function
// followed by exactly NRet results (all for MultRet, nil-padded or truncated otherwise); a failed
// protected call returns an error (does not panic) and leaves exactly what was below the function;
// the callers' registers are untouched; the callee saw exactly the arguments (preceded by the
// called object for __call).

import (
	"fmt"
	"sync"
	"sync/atomic"

	lua "github.com/yuin/gopher-lua"

	"verif/internal/harness"
)

type c10CallCase struct {
	Cfg      c10Cfg `json:"cfg"` // activation in which the call is made; its arguments are the values below the function
	NArgs    int    `json:"nargs"`
	NRet     int    `json:"nret"` // -1 = MultRet
	Produced int    `json:"produced"`
	Callee   string `json:"callee"`
	Entry    string `json:"entry"`
	Outcome  string `json:"outcome"`
}

func (c *c10CallCase) String() string {
	return fmt.Sprintf("[%s] %s of %s callee with %d args, NRet=%d, callee produces %d values and %s", c.Cfg, c.Entry, c.Callee, c.NArgs, c.NRet, c.Produced, map[string]string{"ret": "returns", "err": "raises an error", "panic": "panics in Go"}[c.Outcome])
}

var c10Callees = []string{"lua", "lua2", "go", "tcall-lua", "tcall-go", "ucall-go"}
var c10Entries = []string{"Call", "PCall", "PCall+h", "PCall+herr", "CBP", "CBP+h", "CBP+P", "CBP+P+h", "CBP+P+herr"}
var c10Outcomes = []string{"ret", "err", "panic"}

func c10EntryProtected(e string) bool {
	switch e {
	case "Call", "CBP", "CBP+h":
		return false
	}
	return true
}

var c10CallArgs = [3]lua.LValue{c10Named("x1"), c10Named("x2"), c10Named("x3")}
var c10CallRes = [4]lua.LValue{lua.LString("r1"), lua.LString("r2"), lua.LString("r3"), lua.LString("r4")}
var c10CallData = c10Named("data")
var c10CallJunk = [2]lua.LValue{c10Named("junk1"), c10Named("junk2")}

var c10CallProtos struct {
	once sync.Once
	p    [5][3]*lua.FunctionProto // produced x outcome; vararg callee
	p2   [5][3]*lua.FunctionProto // same with two fixed parameters
}

func c10CallLuaSource(produced int, outcome string, fixed bool) string {
	src := "return function(...)\n rec(...)\n"
	if fixed {
		src = "return function(p, q)\n rec(p, q)\n"
	}
	rs := ""
	for i := 1; i <= produced; i++ {
		src += fmt.Sprintf(" local r%d = \"r%d\"\n", i, i)
		if i > 1 {
			rs += ", "
		}
		rs += fmt.Sprintf("r%d", i)
	}
	switch outcome {
	case "err":
		src += " local n = nil\n local z = n + 1\n"
	case "panic":
		src += " boom()\n"
	}
	return src + " return " + rs + "\nend"
}

func c10InitCallProtos() {
	c10CallProtos.once.Do(func() {
		for k := 0; k <= 4; k++ {
			for oi, o := range c10Outcomes {
				c10CallProtos.p[k][oi] = c10CompileInner(c10CallLuaSource(k, o, false), fmt.Sprintf("c10callee_%d_%s", k, o))
				c10CallProtos.p2[k][oi] = c10CompileInner(c10CallLuaSource(k, o, true), fmt.Sprintf("c10callee2_%d_%s", k, o))
			}
		}
	})
}

type c10CallFix struct {
	cur         *c10CallCase
	gotArgs     []lua.LValue
	calleeRuns  int
	handlerRuns int
	goFn        lua.LGFunction
	goCallee    *lua.LFunction
	luaCallee   [5][3]*lua.LFunction
	luaCallee2  [5][3]*lua.LFunction
	hOK, hErr   *lua.LFunction
}

func (e *c10Env) callFix() *c10CallFix {
	if f, ok := e.extra.(*c10CallFix); ok {
		return f
	}
	c10InitCallProtos()
	L := e.L
	f := &c10CallFix{}
	e.extra = f
	record := func(L *lua.LState) {
		f.calleeRuns++
		f.gotArgs = f.gotArgs[:0]
		for i := 1; i <= L.GetTop(); i++ {
			f.gotArgs = append(f.gotArgs, L.Get(i))
		}
	}
	L.SetGlobal("rec", L.NewFunction(func(L *lua.LState) int { record(L); return 0 }))
	L.SetGlobal("boom", L.NewFunction(func(L *lua.LState) int { panic(fmt.Errorf("boom")) }))
	f.goFn = func(L *lua.LState) int {
		record(L)
		// 0, 1 or 2 values that are not results lie below the results
		for j := 0; j < (f.cur.Produced+f.cur.NArgs)%3; j++ {
			L.Push(c10CallJunk[j])
		}
		for i := 0; i < f.cur.Produced; i++ {
			L.Push(c10CallRes[i])
		}
		switch f.cur.Outcome {
		case "err":
			L.RaiseError("E")
		case "panic":
			panic(fmt.Errorf("boom"))
		}
		return f.cur.Produced
	}
	f.goCallee = L.NewFunction(f.goFn)
	f.hOK = L.NewFunction(func(L *lua.LState) int {
		f.handlerRuns++
		L.Push(lua.LString("H"))
		return 1
	})
	f.hErr = L.NewFunction(func(L *lua.LState) int {
		f.handlerRuns++
		L.RaiseError("HE")
		return 0
	})
	return f
}

func c10OutcomeIdx(o string) int {
	for i, x := range c10Outcomes {
		if x == o {
			return i
		}
	}
	return 0
}

func c10Adjust(res []lua.LValue, nret int) []lua.LValue {
	out := append([]lua.LValue{}, res...)
	if nret == lua.MultRet {
		return out
	}
	for len(out) < nret {
		out = append(out, lua.LNil)
	}
	return out[:nret]
}

func c10RunCallCase(w *c10Worker, cc *c10CallCase) []c10V {
	cfg := cc.Cfg
	e := w.env(cfg.Grow, false, cfg.Depth == 0)
	defer w.release(e)
	f := e.callFix()
	f.cur, f.calleeRuns, f.handlerRuns = cc, 0, 0
	f.gotArgs = f.gotArgs[:0]
	L := e.L
	var viol []c10V
	shape := "exact"
	switch {
	case cc.NRet == lua.MultRet:
		shape = "mult"
	case cc.NRet > cc.Produced:
		shape = "pad"
	case cc.NRet < cc.Produced:
		shape = "trunc"
	}
	fail := func(what, text string) {
		viol = append(viol, c10V{fmt.Sprintf("call/%s/%s/%s/%s/%s/%s", cc.Entry, cc.Callee, cc.Outcome, shape, what, cfg.class()), text})
	}
	protected := c10EntryProtected(cc.Entry)
	fails := cc.Outcome != "ret"
	// the callee
	var fn lua.LValue
	var self lua.LValue
	luaFn := func() *lua.LFunction {
		oi := c10OutcomeIdx(cc.Outcome)
		if f.luaCallee[cc.Produced][oi] == nil {
			f.luaCallee[cc.Produced][oi] = L.NewFunctionFromProto(c10CallProtos.p[cc.Produced][oi])
		}
		return f.luaCallee[cc.Produced][oi]
	}
	withCall := func(obj lua.LValue, h *lua.LFunction) lua.LValue {
		mt := L.NewTable()
		mt.RawSetString("__call", h)
		L.SetMetatable(obj, mt)
		return obj
	}
	switch cc.Callee {
	case "lua":
		fn = luaFn()
	case "lua2":
		oi := c10OutcomeIdx(cc.Outcome)
		if f.luaCallee2[cc.Produced][oi] == nil {
			f.luaCallee2[cc.Produced][oi] = L.NewFunctionFromProto(c10CallProtos.p2[cc.Produced][oi])
		}
		fn = f.luaCallee2[cc.Produced][oi]
	case "go":
		fn = f.goCallee
	case "tcall-lua":
		fn = withCall(L.NewTable(), luaFn())
		self = fn
	case "tcall-go":
		fn = withCall(L.NewTable(), f.goCallee)
		self = fn
	case "ucall-go":
		fn = withCall(L.NewUserData(), f.goCallee)
		self = fn
	default:
		harness.Fatal("c10: callee %q", cc.Callee)
	}
	args := c10CallArgs[:cc.NArgs]
	wantArgs := []lua.LValue{}
	if self != nil {
		wantArgs = append(wantArgs, self)
	}
	wantArgs = append(wantArgs, args...)
	if cc.Entry == "GPCall" {
		wantArgs = []lua.LValue{c10CallData}
	}
	if cc.Callee == "lua2" { // two fixed parameters: missing ones are nil, surplus ones dropped
		wantArgs = c10Adjust(wantArgs, 2)
	}
	var rethrow interface{}
	body := func(L *lua.LState) int {
		base := 0
		if fr, ok := lua.VerifCurrentFrame(L); ok {
			base = fr.LocalBase
		}
		e.regBuf = lua.VerifRegistersInto(L, 0, base, e.regBuf)
		before := e.regBuf
		below := e.initial
		if L.GetTop() != len(below) {
			fail("entry", fmt.Sprintf("activation entered with %d values, expected %d", L.GetTop(), len(below)))
			return 0
		}
		var err error
		pushCall := func() {
			L.Push(fn)
			for _, a := range args {
				L.Push(a)
			}
		}
		pv := c10Protect(func() {
			switch cc.Entry {
			case "Call":
				pushCall()
				L.Call(cc.NArgs, cc.NRet)
			case "PCall":
				pushCall()
				err = L.PCall(cc.NArgs, cc.NRet, nil)
			case "PCall+h":
				pushCall()
				err = L.PCall(cc.NArgs, cc.NRet, f.hOK)
			case "PCall+herr":
				pushCall()
				err = L.PCall(cc.NArgs, cc.NRet, f.hErr)
			case "CBP":
				err = L.CallByParam(lua.P{Fn: fn, NRet: cc.NRet, Protect: false}, args...)
			case "CBP+h":
				err = L.CallByParam(lua.P{Fn: fn, NRet: cc.NRet, Protect: false, Handler: f.hOK}, args...)
			case "CBP+P":
				err = L.CallByParam(lua.P{Fn: fn, NRet: cc.NRet, Protect: true}, args...)
			case "CBP+P+h":
				err = L.CallByParam(lua.P{Fn: fn, NRet: cc.NRet, Protect: true, Handler: f.hOK}, args...)
			case "CBP+P+herr":
				err = L.CallByParam(lua.P{Fn: fn, NRet: cc.NRet, Protect: true, Handler: f.hErr}, args...)
			case "GPCall":
				err = L.GPCall(f.goFn, c10CallData)
			default:
				harness.Fatal("c10: entry %q", cc.Entry)
			}
		})
		if i := lua.VerifRegistersDiffer(L, 0, base, before); i >= 0 {
			now := lua.VerifRegisters(L, i, i+1)
			fail("callers-disturbed", fmt.Sprintf("register %d (activation base %d) belonging to a caller changed from %s to %s", i, base, c10Show(before[i]), c10ShowList(now)))
		}
		if pv != nil {
			switch {
			case protected:
				fail("panicked", fmt.Sprintf("the protected call panicked instead of returning an error: %v", pv))
				e.dirty = true
			case !fails:
				fail("panicked", fmt.Sprintf("the call panicked although the callee returns normally: %v", pv))
				e.dirty = true
			}
			rethrow = pv
			return 0
		}
		if fails && !protected {
			fail("error-lost", "the callee failed but the unprotected call returned normally")
			return 0
		}
		var want []lua.LValue
		want = append(want, below...)
		if fails {
			if err == nil {
				fail("error-lost", "the callee failed but the protected call returned a nil error")
			}
		} else {
			if err != nil {
				fail("spurious-error", fmt.Sprintf("the callee returned normally but the call returned error %v", err))
			}
			want = append(want, c10Adjust(c10CallRes[:cc.Produced], cc.NRet)...)
		}
		top := L.GetTop()
		got := make([]lua.LValue, 0, top)
		for i := 1; i <= top; i++ {
			got = append(got, L.Get(i))
		}
		if !c10SameList(got, want) {
			what := "results"
			if fails {
				what = "failed-leftover"
			}
			if len(got) != len(want) {
				what += "-height"
			}
			fail(what, fmt.Sprintf("stack after the call is %s (height %d), expected %s (height %d); %d values were below the function", c10ShowList(got), len(got), c10ShowList(want), len(want), len(below)))
		}
		return 0
	}
	wrapped := func(L *lua.LState) int {
		n := body(L)
		if rethrow != nil && cfg.Depth > 0 {
			panic(rethrow)
		}
		return n
	}
	res := e.runAt(cfg, e.fillers(cfg), wrapped)
	for _, b := range res.bad {
		fail("chain-"+c10BadSig(b), b)
	}
	if cfg.Depth == 0 {
		if res.panicVal != nil {
			fail("harness-panic", fmt.Sprintf("unexpected panic: %v", res.panicVal))
		}
		if rethrow != nil {
			e.dirty = true
		}
	} else if rethrow != nil {
		if res.err == nil {
			fail("outer-error-lost", "the failure of an unprotected call inside a host function did not reach the enclosing protected call")
		}
	} else if res.err != nil {
		fail("chain-error", fmt.Sprintf("the activation chain failed: %v", res.err))
	}
	if f.calleeRuns != 1 {
		fail("callee-runs", fmt.Sprintf("the callee ran %d times", f.calleeRuns))
	} else if !c10SameList(f.gotArgs, wantArgs) {
		fail("callee-args", fmt.Sprintf("the callee received %s, expected %s", c10ShowList(f.gotArgs), c10ShowList(wantArgs)))
	}
	return viol
}

func c10RunCallPart(r *harness.Run) c10PartResult {
	c10InitCallProtos()
	var cfgs []c10Cfg
	for d := 0; d <= 3; d++ {
		for n := 0; n <= 3; n++ {
			cfgs = append(cfgs, c10Cfg{Depth: d, NArgs: n})
			for slack := 0; slack <= 3; slack++ {
				cfgs = append(cfgs, c10Cfg{Depth: d, NArgs: n, Grow: true, Slack: slack})
			}
		}
	}
	nrets := []int{0, 1, 2, 3, lua.MultRet}
	// shards: (configuration, callee)
	type shard struct {
		cfg    c10Cfg
		callee string
	}
	var shards []shard
	for _, c := range cfgs {
		for _, ce := range c10Callees {
			shards = append(shards, shard{c, ce})
		}
	}
	nw := harness.Workers()
	workers := make([]*c10Worker, nw)
	for i := range workers {
		workers[i] = &c10Worker{}
	}
	defer func() {
		for _, w := range workers {
			w.closeAll()
		}
	}()
	var cases, skipped, failing int64
	var expiredFlag int32
	harness.ParallelShards(len(shards), func(wi, si int) {
		w := workers[wi]
		sh := shards[si]
		var lCases, lSkipped, lFailing int64
		run := func(cc *c10CallCase) {
			if cc.Outcome != "ret" && !c10EntryProtected(cc.Entry) && cc.Cfg.Depth == 0 {
				lSkipped++ // an unprotected failing call with no enclosing protected call: not judged
				return
			}
			vs := c10RunCallCase(w, cc)
			lCases++
			if cc.Cfg.Depth == 2 && cc.Cfg.NArgs == 1 && cc.Cfg.Grow && cc.Cfg.Slack == 0 && cc.NArgs == 2 && cc.NRet == 3 && cc.Produced == 1 && cc.Entry == "PCall" {
				r.AddSample(map[string]interface{}{"part": "call", "case": cc.String(), "violations": len(vs)})
			}
			if cc.Outcome != "ret" {
				lFailing++
			}
			key := fmt.Sprintf("%+v", *cc)
			r.Eval(key, cc.NArgs+cc.Produced > 0 || cc.Outcome != "ret", func() interface{} {
				return map[string]interface{}{"part": "call", "case": cc.String()}
			})
			for _, v := range vs {
				cp := *cc
				r.Violation(v.Sig, v.What+"\ncase: "+cc.String(), c10Replayable{Part: "call", Call: &cp, Text: cc.String()})
			}
		}
		for _, nargs := range []int{0, 1, 2, 3} {
			if r.Expired() {
				atomic.StoreInt32(&expiredFlag, 1)
				return
			}
			for _, nret := range nrets {
				for produced := 0; produced <= 4; produced++ {
					for _, entry := range c10Entries {
						for _, outcome := range c10Outcomes {
							run(&c10CallCase{Cfg: sh.cfg, NArgs: nargs, NRet: nret, Produced: produced, Callee: sh.callee, Entry: entry, Outcome: outcome})
						}
					}
				}
			}
		}
		if sh.callee == "go" {
			for produced := 0; produced <= 4; produced++ {
				for _, outcome := range c10Outcomes {
					run(&c10CallCase{Cfg: sh.cfg, NArgs: 1, NRet: lua.MultRet, Produced: produced, Callee: "go", Entry: "GPCall", Outcome: outcome})
				}
			}
		}
		atomic.AddInt64(&cases, lCases)
		atomic.AddInt64(&skipped, lSkipped)
		atomic.AddInt64(&failing, lFailing)
	})
	if atomic.LoadInt32(&expiredFlag) != 0 {
		r.NotExhaustive("deadline reached during the call matrix")
	}
	r.Count("call_cases", cases)
	r.Count("call_cases_failing_callee", failing)
	r.Count("call_cases_not_judged_unprotected_failure_at_top_level", skipped)
	return c10PartResult{
		rule:  fmt.Sprintf("calls: complete product of %d activations (depth 0-3 x 0-3 values below the function x {fixed registry, growing registry entered 1,2,3,4 slots below its capacity}) x nargs 0-3 x NRet {0,1,2,3,MultRet} x 0-4 results x %d callee kinds x %d entries (+GPCall) x {returns, raises, Go panic}; non-trivial = at least one argument or result, or a failing callee", len(cfgs), len(c10Callees), len(c10Entries)),
		cases: cases,
		extra: map[string]interface{}{"cases": cases, "failing_callee_cases": failing, "not_judged": skipped},
	}
}
