package props

// C18 — the table library keeps list semantics; sort gives an ordered permutation, no crash.
//
// Part 1 (list histories): explicit-state BFS over operation histories on a real LTable.
// Successor = replay of the history on a fresh table + one more operation. Reference model = a Go
// string (one byte per element). State key = model + white-box layout of the table (raw array
// part including trailing nil slots, hash keys), so merged states have the same futures.
// Histories are generated so that the model always has a unique length n (direct assignment only
// at n+1, at n with nil, or over an existing element): trailing nil slots of the implementation's
// array are then invisible to the model — every observer must behave as if they were not there.
//
// Part 2 (sort): every list in a family x every way of building it (clean array / array longer
// than #t / built by shifting) x every comparator of a catalogue (strict weak orders, inconsistent
// ones, failing on the k-th call for every k, non-boolean results), oracle per the statement.
//
// Violation signatures (KNOWN_FINDINGS.jsonl matches on them):
//   hist/<op>[@first|mid|last|only|end]/<lua|go>/n=<0|1|+>/slots=<0|+>/<symptoms>   a transition
//   obs/<observer>/<argument class>/n=<0|1|+>/slots=<0|+>/<symptom>                 an observer in a state
//   sort/<comparator>/<build>/slots=<0|+>/<symptom>                                  a sort case
// n is the length of the list, slots the number of nil slots behind it in the array part.
//
// Deliberately not judged (see Assumptions in the evidence): the type (number or string) of
// table.concat over a one-element range holding a number; the result count of table.remove on an
// empty list; whether an error raised by the comparator must surface from table.sort.

import (
	"crypto/sha1"
	"encoding/json"
	"fmt"
	"sort"
	"strings"
	"sync"
	"sync/atomic"

	lua "github.com/yuin/gopher-lua"

	"verif/internal/harness"
)

func init() {
	harness.Register("C18", "model_checking", runC18)
	harness.RegisterReplay("C18", replayC18)
}

// ---- values -----------------------------------------------------------------------------------

var c18Vals = [4]lua.LValue{lua.LNumber(1), lua.LNumber(2), lua.LNumber(3), lua.LString("a")}
var c18ValCode = [4]byte{'1', '2', '3', 'a'}

// c18Code renders a value as one byte: elements of the alphabet by themselves, LNil '-', a Go nil
// interface '0', anything else a marker that never occurs in a model.
func c18Code(v lua.LValue) byte {
	switch x := v.(type) {
	case nil:
		return '0'
	case *lua.LNilType:
		return '-'
	case lua.LNumber:
		switch x {
		case 1:
			return '1'
		case 2:
			return '2'
		case 3:
			return '3'
		}
		return '#'
	case lua.LString:
		if x == "a" {
			return 'a'
		}
		return '$'
	}
	return '?'
}

func c18Show(m string) string {
	parts := make([]string, len(m))
	for i := 0; i < len(m); i++ {
		if m[i] == 'a' {
			parts[i] = `"a"`
		} else {
			parts[i] = string(m[i])
		}
	}
	return "{" + strings.Join(parts, ",") + "}"
}

// ---- operations -------------------------------------------------------------------------------

const (
	c18InsertV  = iota // table.insert(t, v)            | tb.Append(v)
	c18InsertPV        // table.insert(t, pos, v)       | tb.Insert(pos, v)     1 <= pos <= n+1
	c18Remove          // table.remove(t)
	c18RemoveP         // table.remove(t, pos)          | tb.Remove(pos)        1 <= pos <= n
	c18SetEnd          // t[n+1] = v
	c18Shrink          // t[n] = nil                                            n >= 1
	c18SetAt           // t[i] = v                                              1 <= i <= n
	c18Sort            // table.sort(t)
	c18SortGt          // table.sort(t, function(a,b) return a>b end)
)

var c18OpNames = []string{"insert(t,v)", "insert(t,pos,v)", "remove(t)", "remove(t,pos)", "t[n+1]=v", "t[n]=nil", "t[i]=v", "sort(t)", "sort(t,gt)"}

type c18Op struct {
	K   uint8 `json:"k"`
	Pos uint8 `json:"pos,omitempty"`
	V   uint8 `json:"v,omitempty"`
	Go  bool  `json:"go,omitempty"` // through the Go API of LTable instead of the Lua library
}

func c18Lit(v uint8) string {
	if v == 3 {
		return `"a"`
	}
	return string(c18ValCode[v])
}

func (o c18Op) text(n int) string {
	switch o.K {
	case c18InsertV:
		if o.Go {
			return fmt.Sprintf("go:tb.Append(%s)", c18Lit(o.V))
		}
		return fmt.Sprintf("table.insert(t,%s)", c18Lit(o.V))
	case c18InsertPV:
		if o.Go {
			return fmt.Sprintf("go:tb.Insert(%d,%s)", o.Pos, c18Lit(o.V))
		}
		return fmt.Sprintf("table.insert(t,%d,%s)", o.Pos, c18Lit(o.V))
	case c18Remove:
		return "table.remove(t)"
	case c18RemoveP:
		if o.Go {
			return fmt.Sprintf("go:tb.Remove(%d)", o.Pos)
		}
		return fmt.Sprintf("table.remove(t,%d)", o.Pos)
	case c18SetEnd:
		return fmt.Sprintf("t[%d]=%s", n+1, c18Lit(o.V))
	case c18Shrink:
		return fmt.Sprintf("t[%d]=nil", n)
	case c18SetAt:
		return fmt.Sprintf("t[%d]=%s", o.Pos, c18Lit(o.V))
	case c18Sort:
		return "table.sort(t)"
	case c18SortGt:
		return "table.sort(t,function(a,b) return a>b end)"
	}
	return "?"
}

// posClass names the position of an operation relative to the list, for signatures.
func (o c18Op) posClass(n int) string {
	switch o.K {
	case c18InsertPV, c18RemoveP, c18SetAt:
		p := int(o.Pos)
		switch {
		case p == n+1:
			return "@end"
		case p == n && p == 1:
			return "@only"
		case p == n:
			return "@last"
		case p == 1:
			return "@first"
		}
		return "@mid"
	}
	return ""
}

func c18NClass(n int) string {
	switch {
	case n == 0:
		return "0"
	case n == 1:
		return "1"
	}
	return "+"
}

func c18SlotClass(s int) string {
	switch {
	case s == 0:
		return "0"
	case s > 0:
		return "+"
	}
	return "neg"
}

// c18Menu lists every operation of the alphabet that is defined for a list of length n.
func c18Menu(n int) []c18Op {
	var menu []c18Op
	for _, g := range []bool{false, true} {
		for v := uint8(0); v < 4; v++ {
			menu = append(menu, c18Op{K: c18InsertV, V: v, Go: g})
			for p := 1; p <= n+1; p++ {
				menu = append(menu, c18Op{K: c18InsertPV, Pos: uint8(p), V: v, Go: g})
			}
		}
		for p := 1; p <= n; p++ {
			menu = append(menu, c18Op{K: c18RemoveP, Pos: uint8(p), Go: g})
		}
	}
	menu = append(menu, c18Op{K: c18Remove})
	for v := uint8(0); v < 4; v++ {
		menu = append(menu, c18Op{K: c18SetEnd, V: v})
		for p := 1; p <= n; p++ {
			menu = append(menu, c18Op{K: c18SetAt, Pos: uint8(p), V: v})
		}
	}
	if n >= 1 {
		menu = append(menu, c18Op{K: c18Shrink})
	}
	menu = append(menu, c18Op{K: c18Sort}, c18Op{K: c18SortGt})
	return menu
}

// ---- the slice model --------------------------------------------------------------------------

func c18Homogeneous(m string) bool {
	nums, strs := 0, 0
	for i := 0; i < len(m); i++ {
		if m[i] == 'a' {
			strs++
		} else {
			nums++
		}
	}
	return nums == 0 || strs == 0
}

func c18SortedModel(m string, desc bool) string {
	b := []byte(m)
	sort.Slice(b, func(i, j int) bool {
		if desc {
			return b[i] > b[j]
		}
		return b[i] < b[j]
	})
	return string(b)
}

// c18ApplyModel gives the list after op, the value the operation must return (0: the operation
// has no judged result; '-': nil) and whether the operation must raise a Lua error (sort of a list
// whose elements are not mutually comparable: then the resulting order is not determined and m2
// is meaningless — the caller reads the permutation back).
func c18ApplyModel(m string, op c18Op) (m2 string, wantRet byte, expectErr bool) {
	n := len(m)
	v := string(c18ValCode[op.V])
	p := int(op.Pos)
	switch op.K {
	case c18InsertV, c18SetEnd:
		return m + v, 0, false
	case c18InsertPV:
		return m[:p-1] + v + m[p-1:], 0, false
	case c18Remove:
		if n == 0 {
			return m, '-', false
		}
		return m[:n-1], m[n-1], false
	case c18RemoveP:
		return m[:p-1] + m[p:], m[p-1], false
	case c18Shrink:
		return m[:n-1], 0, false
	case c18SetAt:
		return m[:p-1] + v + m[p:], 0, false
	case c18Sort, c18SortGt:
		if n <= 1 {
			return m, 0, false
		}
		if !c18Homogeneous(m) {
			return "", 0, true
		}
		return c18SortedModel(m, op.K == c18SortGt), 0, false
	}
	panic("c18: unknown op")
}

func c18IsPermutation(a, b string) bool {
	if len(a) != len(b) {
		return false
	}
	var cnt [256]int
	for i := 0; i < len(a); i++ {
		cnt[a[i]]++
		cnt[b[i]]--
	}
	for _, c := range cnt {
		if c != 0 {
			return false
		}
	}
	return true
}

// ---- per-worker implementation driver ---------------------------------------------------------

type c18W struct {
	L *lua.LState

	fnInsert2, fnInsert3, fnRemove1, fnRemove2, fnSet, fnSort1, fnSort2, fnGt *lua.LFunction
	fnLen, fnGetn, fnMaxn, fnRawget, fnIndex                                  *lua.LFunction
	fnConcat1, fnConcat2, fnConcat3, fnConcat4                                *lua.LFunction
	fnUnpack1, fnUnpack2, fnUnpack3                                           *lua.LFunction
	cmps                                                                      map[string]*lua.LFunction

	// comparator recorder (sort family)
	recCalls    int
	recFailAt   int
	recBound    int
	recExceeded bool
	recRaised   bool
	recBad      string
	recElems    map[lua.LValue]bool
}

func newC18W() *c18W {
	w := &c18W{cmps: map[string]*lua.LFunction{}}
	w.L = lua.NewState()
	L := w.L
	record := func(L *lua.LState) bool {
		w.recCalls++
		for i := 1; i <= 2; i++ {
			v := L.Get(i)
			if !w.recElems[v] && w.recBad == "" {
				if v == lua.LNil {
					w.recBad = "nil"
				} else {
					w.recBad = "other"
				}
			}
		}
		if L.GetTop() != 2 && w.recBad == "" {
			w.recBad = "argcount"
		}
		fail := w.recFailAt > 0 && w.recCalls == w.recFailAt
		if w.recCalls > w.recBound {
			w.recExceeded = true
			fail = true
		}
		if fail {
			w.recRaised = true
		}
		return fail
	}
	L.SetGlobal("rec", L.NewFunction(func(L *lua.LState) int {
		fail := record(L)
		L.Push(lua.LBool(fail))
		L.Push(lua.LNumber(w.recCalls))
		return 2
	}))
	load := func(src string) *lua.LFunction {
		if err := L.DoString("return " + src); err != nil {
			harness.Fatal("c18 load %q: %v", src, err)
		}
		f, ok := L.Get(-1).(*lua.LFunction)
		if !ok {
			harness.Fatal("c18 load %q: not a function", src)
		}
		L.Pop(1)
		return f
	}
	w.fnInsert2 = load("function(t,v) table.insert(t,v) end")
	w.fnInsert3 = load("function(t,p,v) table.insert(t,p,v) end")
	w.fnRemove1 = load("function(t) return table.remove(t) end")
	w.fnRemove2 = load("function(t,p) return table.remove(t,p) end")
	w.fnSet = load("function(t,k,v) t[k]=v end")
	w.fnSort1 = load("function(t) table.sort(t) end")
	w.fnSort2 = load("function(t,f) table.sort(t,f) end")
	w.fnGt = load("function(a,b) return a>b end")
	w.fnLen = load("function(t) return #t end")
	w.fnGetn = load("function(t) return table.getn(t) end")
	w.fnMaxn = load("function(t) return table.maxn(t) end")
	w.fnRawget = load("function(t,i) return rawget(t,i) end")
	w.fnIndex = load("function(t,i) return t[i] end")
	w.fnConcat1 = load("function(t) return table.concat(t) end")
	w.fnConcat2 = load("function(t,s) return table.concat(t,s) end")
	w.fnConcat3 = load("function(t,s,i) return table.concat(t,s,i) end")
	w.fnConcat4 = load("function(t,s,i,j) return table.concat(t,s,i,j) end")
	w.fnUnpack1 = load("function(t) return unpack(t) end")
	w.fnUnpack2 = load("function(t,i) return unpack(t,i) end")
	w.fnUnpack3 = load("function(t,i,j) return unpack(t,i,j) end")
	for _, c := range c18Cmps {
		if c.gofn {
			w.cmps[c.name] = L.NewFunction(func(L *lua.LState) int {
				if record(L) {
					L.RaiseError("boom")
				}
				a, aok := L.Get(1).(lua.LNumber)
				b, bok := L.Get(2).(lua.LNumber)
				if !aok || !bok {
					L.RaiseError("attempt to compare %s with %s", L.Get(1).Type().String(), L.Get(2).Type().String())
				}
				L.Push(lua.LBool(a < b))
				return 1
			})
			continue
		}
		if c.body == "" {
			continue
		}
		w.cmps[c.name] = load(`function(a,b) local fail,c = rec(a,b) if fail then error("boom") end ` + c.body + ` end`)
	}
	return w
}

// call runs f protected. gopanic is set when a Go panic escaped PCall itself (never expected).
func (w *c18W) call(f *lua.LFunction, nret int, args ...lua.LValue) (out []lua.LValue, err *lua.ApiError, gopanic interface{}) {
	L := w.L
	top := L.GetTop()
	defer func() {
		if r := recover(); r != nil {
			gopanic = r
		}
	}()
	L.Push(f)
	for _, a := range args {
		L.Push(a)
	}
	if e := L.PCall(len(args), nret, nil); e != nil {
		L.SetTop(top)
		if ae, ok := e.(*lua.ApiError); ok {
			return nil, ae, nil
		}
		return nil, &lua.ApiError{Type: lua.ApiErrorRun, Object: lua.LString(e.Error())}, nil
	}
	for i := top + 1; i <= L.GetTop(); i++ {
		out = append(out, L.Get(i))
	}
	L.SetTop(top)
	return out, nil, nil
}

// c18ErrClass classifies a failure: "" none, "go-panic" a Go run-time panic (escaped, or converted
// by PCall — ApiErrorPanic), otherwise a class of Lua error by message.
func c18ErrClass(err *lua.ApiError, gp interface{}) string {
	if gp != nil {
		return "go-panic"
	}
	if err == nil {
		return ""
	}
	if err.Type == lua.ApiErrorPanic {
		return "go-panic"
	}
	msg := ""
	if err.Object != nil {
		msg = err.Object.String()
	}
	switch {
	case strings.Contains(msg, "attempt to compare") && strings.Contains(msg, "nil"):
		return "compare-nil"
	case strings.Contains(msg, "attempt to compare"):
		return "compare"
	case strings.Contains(msg, "attempt to index"):
		return "index"
	case strings.Contains(msg, "attempt to perform arithmetic"):
		return "arith"
	case strings.Contains(msg, "boom"):
		return "boom"
	}
	return "other"
}

func c18ErrText(err *lua.ApiError, gp interface{}) string {
	if gp != nil {
		return fmt.Sprintf("Go panic escaped PCall: %v", gp)
	}
	if err == nil {
		return "no error"
	}
	if err.Object != nil {
		return err.Object.String()
	}
	return "error"
}

// apply performs op on the implementation (n = current model length).
func (w *c18W) apply(tb *lua.LTable, op c18Op, n int) (ret []lua.LValue, err *lua.ApiError, gp interface{}) {
	v := c18Vals[op.V]
	if op.Go {
		defer func() {
			if r := recover(); r != nil {
				gp = r
			}
		}()
		switch op.K {
		case c18InsertV:
			tb.Append(v)
		case c18InsertPV:
			tb.Insert(int(op.Pos), v)
		case c18RemoveP:
			ret = []lua.LValue{tb.Remove(int(op.Pos))}
		default:
			harness.Fatal("c18: no Go path for op %d", op.K)
		}
		return
	}
	switch op.K {
	case c18InsertV:
		return w.call(w.fnInsert2, 0, tb, v)
	case c18InsertPV:
		return w.call(w.fnInsert3, 0, tb, lua.LNumber(op.Pos), v)
	case c18Remove:
		return w.call(w.fnRemove1, lua.MultRet, tb)
	case c18RemoveP:
		return w.call(w.fnRemove2, lua.MultRet, tb, lua.LNumber(op.Pos))
	case c18SetEnd:
		return w.call(w.fnSet, 0, tb, lua.LNumber(n+1), v)
	case c18Shrink:
		return w.call(w.fnSet, 0, tb, lua.LNumber(n), lua.LNil)
	case c18SetAt:
		return w.call(w.fnSet, 0, tb, lua.LNumber(op.Pos), v)
	case c18Sort:
		return w.call(w.fnSort1, 0, tb)
	case c18SortGt:
		return w.call(w.fnSort2, 0, tb, w.fnGt)
	}
	harness.Fatal("c18: unknown op %d", op.K)
	return
}

// ---- white-box views --------------------------------------------------------------------------

// c18Raw reads positions 1..k through LTable.RawGetInt (the read path verified by C09).
func c18Raw(tb *lua.LTable, k int) string {
	b := make([]byte, k)
	for i := 1; i <= k; i++ {
		b[i-1] = c18Code(tb.RawGetInt(i))
	}
	return string(b)
}

func c18ArrayLen(tb *lua.LTable) int {
	arr, _, _, _, _ := lua.VerifTableDump(tb)
	return len(arr)
}

// c18Layout renders the internal layout: array part slot by slot (so trailing nil slots and Go-nil
// slots are visible), whether the array was ever allocated, and the hash part (never populated by
// a correct implementation under this alphabet).
func c18Layout(tb *lua.LTable) string {
	arr, keys, vals, dl, sl := lua.VerifTableDump(tb)
	var b strings.Builder
	if arr == nil {
		b.WriteByte('N')
	} else {
		b.WriteByte('A')
	}
	for _, v := range arr {
		b.WriteByte(c18Code(v))
	}
	if len(keys) > 0 || dl > 0 || sl > 0 {
		b.WriteString("|K")
		for i, k := range keys {
			fmt.Fprintf(&b, "%v=%c,", k, c18Code(vals[i]))
		}
		fmt.Fprintf(&b, "d%d,s%d", dl, sl)
	}
	return b.String()
}

func c18Pad(m string, k int) string {
	if len(m) >= k {
		return m[:k]
	}
	return m + strings.Repeat("-", k-len(m))
}

// ---- histories --------------------------------------------------------------------------------

type c18Hist struct {
	Init     string  `json:"init"`               // initial list, one byte per element ('1','2','3','a')
	Prealloc bool    `json:"prealloc,omitempty"` // initial table from L.NewTable() (allocated array) instead of the {} of a Lua constructor
	Ops      []c18Op `json:"ops"`
}

func (h c18Hist) texts() []string {
	out := []string{"t = " + c18Show(h.Init)}
	if h.Prealloc {
		out[0] += " (L.NewTable)"
	}
	m := h.Init
	for _, o := range h.Ops {
		out = append(out, o.text(len(m)))
		m2, _, e := c18ApplyModel(m, o)
		if !e {
			m = m2
		}
	}
	return out
}

func (h c18Hist) extend(op c18Op) c18Hist {
	ops := make([]c18Op, len(h.Ops)+1)
	copy(ops, h.Ops)
	ops[len(h.Ops)] = op
	return c18Hist{h.Init, h.Prealloc, ops}
}

type c18Ctx struct {
	report             func(sig, what string, replay interface{})
	concatSingleNumber int64 // concat over a one-element range holding a number returned the number itself (type not judged)
}

func (c *c18Ctx) histViol(sig, what string, h c18Hist, extra map[string]interface{}) {
	rp := map[string]interface{}{"family": "hist", "hist": h, "history_text": h.texts(), "expect": sig}
	for k, v := range extra {
		rp[k] = v
	}
	c.report(sig, what+"\nhistory: "+strings.Join(h.texts(), " ; "), rp)
}

func c18Build(w *c18W, h c18Hist) *lua.LTable {
	var tb *lua.LTable
	if h.Prealloc {
		tb = w.L.NewTable()
	} else {
		tb = w.L.CreateTable(0, 0)
	}
	for i := 0; i < len(h.Init); i++ {
		tb.RawSetInt(i+1, c18Vals[strings.IndexByte("123a", h.Init[i])])
	}
	return tb
}

// replayPrefix re-executes a history that has already been validated transition by transition.
func c18ReplayPrefix(w *c18W, h c18Hist) (*lua.LTable, string) {
	tb := c18Build(w, h)
	m := h.Init
	for _, op := range h.Ops {
		w.apply(tb, op, len(m))
		m2, _, expectErr := c18ApplyModel(m, op)
		if expectErr {
			m2 = c18Raw(tb, len(m))
		}
		m = m2
	}
	return tb, m
}

// checkedStep applies op to implementation and model and validates the transition: error status,
// result, list content (raw read-back of 1..n'+2) and length. h is the history including op.
func (c *c18Ctx) checkedStep(w *c18W, tb *lua.LTable, m string, op c18Op, h c18Hist) (string, bool) {
	n := len(m)
	slots := c18ArrayLen(tb) - n
	ret, err, gp := w.apply(tb, op, n)
	m2, wantRet, expectErr := c18ApplyModel(m, op)
	path := "lua"
	if op.Go {
		path = "go"
	}
	prefix := fmt.Sprintf("hist/%s%s/%s/n=%s/slots=%s/", c18OpNames[op.K], op.posClass(n), path, c18NClass(n), c18SlotClass(slots))
	ec := c18ErrClass(err, gp)
	desc := fmt.Sprintf("%s on %s (array part has %d slots)", op.text(n), c18Show(m), n+slots)

	if expectErr {
		// sort of a list that is not mutually comparable: a Lua error, and the list is still a
		// permutation of what it was (positions 1..n), nothing beyond n.
		k := n + 2
		if slots > 0 {
			k += slots
		}
		raw := c18Raw(tb, k)
		switch {
		case ec == "go-panic":
			c.histViol(prefix+"error:go-panic", desc+": "+c18ErrText(err, gp), h, nil)
			return "", false
		case ec == "":
			c.histViol(prefix+"no-error", desc+": returned normally although numbers and strings cannot be compared; list now "+raw, h, nil)
			return "", false
		}
		if !(c18IsPermutation(raw[:n], m) && strings.Trim(raw[n:], "-") == "" && tb.Len() == n) {
			sym := "content:lost-or-duplicated"
			if c18IsPermutation(strings.ReplaceAll(raw, "-", ""), m) {
				sym = "content:raw-slice-permuted"
			}
			c.histViol(prefix+"error-expected,"+sym, fmt.Sprintf("%s: raised (%s) but positions 1..%d now read %q, #t=%d: not a permutation of the list in 1..n", desc, c18ErrText(err, gp), k, raw, tb.Len()), h, nil)
			return "", false
		}
		return raw[:n], true
	}

	if ec != "" {
		c.histViol(prefix+"error:"+ec, fmt.Sprintf("%s raised: %s; list now reads %q, #t=%d (expected %s)", desc, c18ErrText(err, gp), c18Raw(tb, len(m2)+2), tb.Len(), c18Show(m2)), h, nil)
		return "", false
	}
	var parts []string
	detail := ""
	if wantRet != 0 {
		bad := ""
		switch {
		case op.K == c18Remove && n == 0:
			// position n = 0 is outside 1..n: only "no element" is required (nil or no value)
			if len(ret) > 1 || (len(ret) == 1 && ret[0] != lua.LNil) {
				bad = "ret:value-from-empty"
			}
		case len(ret) == 0:
			bad = "ret:none"
		case len(ret) > 1:
			bad = "ret:count"
		case c18Code(ret[0]) != wantRet:
			if ret[0] == lua.LNil {
				bad = "ret:nil"
			} else {
				bad = "ret:wrong"
			}
		}
		if bad != "" {
			parts = append(parts, bad)
			got := make([]string, len(ret))
			for i, r := range ret {
				got[i] = string(c18Code(r))
			}
			detail += fmt.Sprintf(" returned (%s), expected %c;", strings.Join(got, ","), wantRet)
		}
	}
	k := n
	if len(m2) > k {
		k = len(m2)
	}
	k += 2
	raw := c18Raw(tb, k)
	ln := tb.Len()
	if raw != c18Pad(m2, k) || ln != len(m2) {
		if raw == c18Pad(m, k) && ln == n {
			parts = append(parts, "content:unchanged")
		} else {
			parts = append(parts, "content:differs")
		}
		detail += fmt.Sprintf(" positions 1..%d read %q with #t=%d, expected %q with #t=%d;", k, raw, ln, c18Pad(m2, k), len(m2))
	}
	if len(parts) > 0 {
		c.histViol(prefix+strings.Join(parts, ","), desc+":"+detail, h, nil)
		return "", false
	}
	return m2, true
}

const c18Sep = ","

// c18Indices lists the range bounds tried by the concat/unpack observers on a list of length n:
// every index 1..n+1 for the lists of the main exploration, the boundary indices for long lists.
func c18Indices(n int) []int {
	var out []int
	if n <= 12 {
		for i := 1; i <= n+1; i++ {
			out = append(out, i)
		}
		return out
	}
	for _, i := range []int{1, 2, n / 2, n - 1, n, n + 1} {
		out = append(out, i)
	}
	return out
}

func c18Join(m string, i, j int) string {
	if i > j {
		return ""
	}
	parts := make([]string, 0, j-i+1)
	for k := i; k <= j; k++ {
		parts = append(parts, string(m[k-1]))
	}
	return strings.Join(parts, c18Sep)
}

// fullCheck compares every observer of the property with the slice model in one state.
// It returns the number of observer evaluations.
func (c *c18Ctx) fullCheck(w *c18W, tb *lua.LTable, m string, h c18Hist) int {
	n := len(m)
	evals := 0
	suffix := fmt.Sprintf("/n=%s/slots=%s/", c18NClass(n), c18SlotClass(c18ArrayLen(tb)-n))
	bad := func(obs, argc, symptom, detail string) {
		c.histViol("obs/"+obs+"/"+argc+suffix+symptom, fmt.Sprintf("list %s (array part %s): %s", c18Show(m), c18Layout(tb), detail), h, map[string]interface{}{"observer": obs})
	}
	// lengths
	for _, o := range []struct {
		name string
		f    *lua.LFunction
	}{{"#t", w.fnLen}, {"table.getn(t)", w.fnGetn}, {"table.maxn(t)", w.fnMaxn}} {
		evals++
		ret, err, gp := w.call(o.f, 1, tb)
		if ec := c18ErrClass(err, gp); ec != "" {
			bad(o.name, "-", "error:"+ec, o.name+" raised "+c18ErrText(err, gp))
			continue
		}
		if x, ok := ret[0].(lua.LNumber); !ok || float64(x) != float64(n) {
			bad(o.name, "-", "value", fmt.Sprintf("%s = %v, expected %d", o.name, ret[0], n))
		}
	}
	func() {
		defer func() {
			if r := recover(); r != nil {
				bad("go:Len/MaxN/ObjLen", "-", "error:go-panic", fmt.Sprint(r))
			}
		}()
		evals += 3
		if x := tb.Len(); x != n {
			bad("go:tb.Len()", "-", "value", fmt.Sprintf("tb.Len() = %d, expected %d", x, n))
		}
		if x := tb.MaxN(); x != n {
			bad("go:tb.MaxN()", "-", "value", fmt.Sprintf("tb.MaxN() = %d, expected %d", x, n))
		}
		if x := w.L.ObjLen(tb); x != n {
			bad("go:L.ObjLen(t)", "-", "value", fmt.Sprintf("L.ObjLen = %d, expected %d", x, n))
		}
	}()
	// element reads 1..n+2
	for i := 1; i <= n+2; i++ {
		want := byte('-')
		argc := "i>n"
		if i <= n {
			want = m[i-1]
			argc = "i<=n"
		}
		for _, o := range []struct {
			name string
			f    *lua.LFunction
		}{{"rawget(t,i)", w.fnRawget}, {"t[i]", w.fnIndex}} {
			evals++
			ret, err, gp := w.call(o.f, 1, tb, lua.LNumber(i))
			if ec := c18ErrClass(err, gp); ec != "" {
				bad(o.name, argc, "error:"+ec, fmt.Sprintf("%s with i=%d raised %s", o.name, i, c18ErrText(err, gp)))
			} else if g := c18Code(ret[0]); g != want {
				bad(o.name, argc, "value", fmt.Sprintf("%s with i=%d = %c, expected %c", o.name, i, g, want))
			}
		}
	}
	// concat
	str := func(obs, argc, want string, f *lua.LFunction, args ...lua.LValue) {
		evals++
		ret, err, gp := w.call(f, lua.MultRet, append([]lua.LValue{tb}, args...)...)
		if ec := c18ErrClass(err, gp); ec != "" {
			bad(obs, argc, "error:"+ec, fmt.Sprintf("%s%v raised %s", obs, args, c18ErrText(err, gp)))
			return
		}
		if len(ret) != 1 {
			bad(obs, argc, "count", fmt.Sprintf("%s%v returned %d values", obs, args, len(ret)))
			return
		}
		if x, isNum := ret[0].(lua.LNumber); isNum && len(want) == 1 && want != "a" && c18Code(x) == want[0] {
			// A range of exactly one element that is a number: the manual's formula
			// "t[i]..sep..t[i+1] ... sep..t[j]" degenerates to "t[i]", PUC-Lua returns the string
			// form, gopher-lua the number itself. The statement does not settle the type: not judged.
			atomic.AddInt64(&c.concatSingleNumber, 1)
			return
		}
		if s, ok := ret[0].(lua.LString); !ok || string(s) != want {
			sym := "value"
			if argc == "i=n+1,j=n" && n >= 1 && len(ret[0].String()) == 1 && ret[0].String()[0] == m[n-1] {
				sym = "value:last-element" // the empty range behind the list yields t[n]
			}
			bad(obs, argc, sym, fmt.Sprintf("%s%v = %v (%s), expected %q", obs, args, ret[0], ret[0].Type(), want))
		}
	}
	sep := lua.LString(c18Sep)
	str("concat(t)", "-", strings.ReplaceAll(c18Join(m, 1, n), c18Sep, ""), w.fnConcat1)
	str("concat(t,sep)", "-", c18Join(m, 1, n), w.fnConcat2, sep)
	idx := c18Indices(n)
	for _, i := range idx {
		argc := "i<=n"
		if i == n+1 {
			argc = "i=n+1"
		}
		str("concat(t,sep,i)", argc, c18Join(m, i, n), w.fnConcat3, sep, lua.LNumber(i))
		for _, j := range append([]int{0}, idx...) {
			if j > n {
				continue
			}
			var argc string
			switch {
			case i <= j:
				argc = "i<=j"
			case i <= n:
				argc = "i>j,i<=n"
			case j == n:
				argc = "i=n+1,j=n"
			default:
				argc = "i=n+1,j<n"
			}
			str("concat(t,sep,i,j)", argc, c18Join(m, i, j), w.fnConcat4, sep, lua.LNumber(i), lua.LNumber(j))
		}
	}
	// unpack
	unp := func(obs, argc, want string, f *lua.LFunction, args ...lua.LValue) {
		evals++
		ret, err, gp := w.call(f, lua.MultRet, append([]lua.LValue{tb}, args...)...)
		if ec := c18ErrClass(err, gp); ec != "" {
			bad(obs, argc, "error:"+ec, fmt.Sprintf("%s%v raised %s", obs, args, c18ErrText(err, gp)))
			return
		}
		got := make([]byte, len(ret))
		for i, r := range ret {
			got[i] = c18Code(r)
		}
		if string(got) != want {
			sym := "value"
			if len(got) != len(want) {
				sym = "count"
			}
			bad(obs, argc, sym, fmt.Sprintf("%s%v returned %d values %q, expected %d values %q", obs, args, len(got), got, len(want), want))
		}
	}
	unp("unpack(t)", "-", m, w.fnUnpack1)
	for _, i := range idx {
		argc := "i<=n"
		if i == n+1 {
			argc = "i=n+1"
		}
		unp("unpack(t,i)", argc, m[i-1:], w.fnUnpack2, lua.LNumber(i))
	}
	for _, i := range idx {
		for _, j := range idx {
			if i > n || j > n {
				continue
			}
			want, argc := "", "i>j"
			if i <= j {
				want, argc = m[i-1:j], "i<=j"
			}
			unp("unpack(t,i,j)", argc, want, w.fnUnpack3, lua.LNumber(i), lua.LNumber(j))
		}
	}
	// ranges reaching beyond the list: the manual defines unpack(t,i,j) as t[i], ..., t[j], so
	// positions above n yield nil
	for _, i := range []int{1, n, n + 1, n + 2, n + 3} {
		if i < 1 {
			continue
		}
		for _, j := range []int{n + 1, n + 2, n + 3} {
			if i > j {
				continue
			}
			want := make([]byte, 0, j-i+1)
			for k := i; k <= j; k++ {
				if k <= n {
					want = append(want, m[k-1])
				} else {
					want = append(want, '-')
				}
			}
			unp("unpack(t,i,j)", "j>n", string(want), w.fnUnpack3, lua.LNumber(i), lua.LNumber(j))
		}
	}
	return evals
}

// ---- sort family ------------------------------------------------------------------------------

type c18Cmp struct {
	name  string
	body  string // Lua statements after the recorder prologue; "" = no comparator argument (default <)
	swo   bool   // a strict weak order: the result must be ordered and no error may occur
	model func(a, b int) bool
	rec   bool // elements are records {k=<number>}
	str   bool // elements are the strings "%03d" of the numbers (byte order = numeric order)
	gofn  bool // the comparator is a Go function (LGFunction) instead of a Lua closure
}

var c18Cmps = []c18Cmp{
	{name: "default", body: "", swo: true, model: func(a, b int) bool { return a < b }},
	{name: "lt", body: "return a<b", swo: true, model: func(a, b int) bool { return a < b }},
	{name: "gt", body: "return a>b", swo: true, model: func(a, b int) bool { return a > b }},
	{name: "bykey", body: "return a.k<b.k", swo: true, model: func(a, b int) bool { return a < b }, rec: true},
	{name: "mod2", body: "return a%2<b%2", swo: true, model: func(a, b int) bool { return a%2 < b%2 }},
	{name: "false", body: "return false", swo: true, model: func(a, b int) bool { return false }},
	{name: "truthy0", body: "return (a<b) and 0 or nil", swo: true, model: func(a, b int) bool { return a < b }},
	{name: "truthystr", body: `return (a<b) and "false"`, swo: true, model: func(a, b int) bool { return a < b }},
	{name: "noresult", body: "if a<b then return true end", swo: true, model: func(a, b int) bool { return a < b }},
	{name: "multi", body: "return a<b, not (a<b)", swo: true, model: func(a, b int) bool { return a < b }},
	{name: "defaultstr", body: "", swo: true, model: func(a, b int) bool { return a < b }, str: true},
	{name: "ltstr", body: "return a<b", swo: true, model: func(a, b int) bool { return a < b }, str: true},
	{name: "gtstr", body: "return a>b", swo: true, model: func(a, b int) bool { return a > b }, str: true},
	{name: "gofn", gofn: true, swo: true, model: func(a, b int) bool { return a < b }},
	{name: "le", body: "return a<=b"},
	{name: "ge", body: "return a>=b"},
	{name: "ne", body: "return a~=b"},
	{name: "true", body: "return true"},
	{name: "number", body: "return a"}, // non-boolean, always true in Lua (0 is true as well)
	{name: "alternating", body: "return c%2==1"},
}

func c18CmpByName(name string) *c18Cmp {
	for i := range c18Cmps {
		if c18Cmps[i].name == name {
			return &c18Cmps[i]
		}
	}
	return nil
}

var c18Builds = []string{"rawset", "append", "insert-front", "removed-last", "removed-first", "hole1", "hole2", "hole-refilled"}

type c18SortCase struct {
	List   []int  `json:"list"`
	Build  string `json:"build"`
	Cmp    string `json:"cmp"`
	FailAt int    `json:"fail_at,omitempty"` // the comparator raises on its k-th call
}

func (sc c18SortCase) String() string {
	s := fmt.Sprintf("sort list=%v build=%s cmp=%s", sc.List, sc.Build, sc.Cmp)
	if sc.FailAt > 0 {
		s += fmt.Sprintf(" fail@%d", sc.FailAt)
	}
	return s
}

// buildList places elems in a fresh table in one of several ways (clean array / trailing nil slots /
// shifted by insert or remove). ok=false when the list does not read back as built.
func (w *c18W) buildList(elems []lua.LValue, build string, extra func() lua.LValue) (tb *lua.LTable, ok bool) {
	tb = w.L.CreateTable(0, 0)
	k := len(elems)
	defer func() {
		if r := recover(); r != nil {
			ok = false
		}
	}()
	put := func(from int) {
		for i, e := range elems {
			tb.RawSetInt(from+i, e)
		}
	}
	switch build {
	case "rawset":
		put(1)
	case "append":
		for _, e := range elems {
			w.call(w.fnInsert2, 0, tb, e)
		}
	case "insert-front":
		for i := k - 1; i >= 0; i-- {
			w.call(w.fnInsert3, 0, tb, lua.LNumber(1), elems[i])
		}
	case "removed-last":
		put(1)
		tb.RawSetInt(k+1, extra())
		w.call(w.fnRemove1, 1, tb)
	case "removed-first":
		tb.RawSetInt(1, extra())
		put(2)
		w.call(w.fnRemove2, 1, tb, lua.LNumber(1))
	case "hole1":
		put(1)
		tb.RawSetInt(k+1, extra())
		w.call(w.fnSet, 0, tb, lua.LNumber(k+1), lua.LNil)
	case "hole2":
		put(1)
		tb.RawSetInt(k+1, extra())
		tb.RawSetInt(k+2, extra())
		w.call(w.fnSet, 0, tb, lua.LNumber(k+2), lua.LNil)
		w.call(w.fnSet, 0, tb, lua.LNumber(k+1), lua.LNil)
	case "hole-refilled":
		// the last element is cleared and stored again: the array is as long as the list again
		put(1)
		if k > 0 {
			w.call(w.fnSet, 0, tb, lua.LNumber(k), lua.LNil)
			w.call(w.fnSet, 0, tb, lua.LNumber(k), elems[k-1])
		}
	default:
		harness.Fatal("c18: build %s", build)
	}
	if tb.Len() != k {
		return tb, false
	}
	for i, e := range elems {
		if tb.RawGetInt(i+1) != e {
			return tb, false
		}
	}
	return tb, tb.RawGetInt(k+1) == lua.LNil
}

type c18SortResult struct {
	calls   int
	outcome string // "ok" | "error:<class>"
	viol    bool
}

// runSort executes one sort case and applies the oracle of the statement.
func (c *c18Ctx) runSort(w *c18W, sc c18SortCase) c18SortResult {
	cmp := c18CmpByName(sc.Cmp)
	if cmp == nil {
		harness.Fatal("c18: comparator %s", sc.Cmp)
	}
	k := len(sc.List)
	elems := make([]lua.LValue, k)
	keyOf := map[lua.LValue]int{}
	w.recElems = map[lua.LValue]bool{}
	for i, x := range sc.List {
		if cmp.rec {
			t := w.L.CreateTable(0, 2)
			t.RawSetString("k", lua.LNumber(x))
			t.RawSetString("id", lua.LNumber(i+1))
			elems[i] = t
		} else if cmp.str {
			elems[i] = lua.LString(fmt.Sprintf("%03d", x))
		} else {
			elems[i] = lua.LNumber(x)
		}
		keyOf[elems[i]] = x
		w.recElems[elems[i]] = true
	}
	extra := func() lua.LValue {
		if cmp.rec {
			t := w.L.CreateTable(0, 2)
			t.RawSetString("k", lua.LNumber(2))
			return t
		}
		if cmp.str {
			return lua.LString("002")
		}
		return lua.LNumber(2)
	}
	viol := func(sig, what string) {
		c.report(sig, sc.String()+": "+what, map[string]interface{}{"family": "sort", "case": sc, "expect": sig})
	}
	tb, ok := w.buildList(elems, sc.Build, extra)
	if !ok {
		viol("sortbuild/"+sc.Build+"/content", fmt.Sprintf("the list does not read back as built: %s, #t=%d", c18Layout(tb), tb.Len()))
		return c18SortResult{viol: true}
	}
	alen := c18ArrayLen(tb)
	slots := alen - k
	span := k
	if alen > span {
		span = alen
	}
	w.recCalls, w.recFailAt, w.recExceeded, w.recRaised, w.recBad = 0, sc.FailAt, false, false, ""
	w.recBound = 50*span*span + 100
	var err *lua.ApiError
	var gp interface{}
	if cmp.body == "" && !cmp.gofn {
		_, err, gp = w.call(w.fnSort1, 0, tb)
	} else {
		_, err, gp = w.call(w.fnSort2, 0, tb, w.cmps[cmp.name])
	}
	ec := c18ErrClass(err, gp)
	res := c18SortResult{calls: w.recCalls, outcome: "ok"}
	if ec != "" {
		res.outcome = "error:" + ec
	}
	cname := cmp.name
	if sc.FailAt > 0 {
		cname += "-fail@k"
	}
	prefix := fmt.Sprintf("sort/%s/%s/slots=%s/", cname, sc.Build, c18SlotClass(slots))
	fail := func(sym, what string) c18SortResult {
		viol(prefix+sym, what)
		res.viol = true
		return res
	}
	// read the whole former array range back, plus one
	after := make([]lua.LValue, span+1)
	for i := range after {
		after[i] = tb.RawGetInt(i + 1)
	}
	render := func() string {
		parts := make([]string, len(after))
		for i, v := range after {
			if x, ok := keyOf[v]; ok {
				parts[i] = fmt.Sprint(x)
			} else if v == lua.LNil {
				parts[i] = "nil"
			} else {
				parts[i] = "?" + v.String()
			}
		}
		return "[" + strings.Join(parts, " ") + "]"
	}
	if ec == "go-panic" {
		return fail("go-panic", "a Go run-time panic surfaced: "+c18ErrText(err, gp))
	}
	if w.recExceeded {
		return fail("call-bound-exceeded", fmt.Sprintf("more than %d comparator calls for %d elements", w.recBound, k))
	}
	if w.recBad != "" {
		return fail("lt-arg-not-element:"+w.recBad, fmt.Sprintf("the comparator was called with a value that is not an element of the list (%s); outcome %s, list now %s", w.recBad, c18ErrText(err, gp), render()))
	}
	strict := cmp.swo && sc.FailAt == 0
	if strict && ec != "" {
		return fail("error:"+ec, fmt.Sprintf("raised %q although the comparator is a strict weak order that never fails; list now %s", c18ErrText(err, gp), render()))
	}
	if sc.FailAt > 0 && w.recRaised && ec == "" {
		// not judged by the statement ("some permutation or a Lua error"); counted
		res.outcome = "ok-after-comparator-error"
	}
	// permutation in 1..k, nil beyond
	permOK := func(vals []lua.LValue) bool {
		cnt := map[lua.LValue]int{}
		for _, e := range elems {
			cnt[e]++
		}
		for _, v := range vals {
			cnt[v]--
		}
		for _, n := range cnt {
			if n != 0 {
				return false
			}
		}
		return true
	}
	clean := tb.Len() == k
	for _, v := range after[k:] {
		if v != lua.LNil {
			clean = false
		}
	}
	if !clean || !permOK(after[:k]) {
		var nonnil []lua.LValue
		for _, v := range after {
			if v != lua.LNil {
				nonnil = append(nonnil, v)
			}
		}
		sym := "not-permutation:lost-or-duplicated"
		if permOK(nonnil) {
			sym = "not-permutation:raw-slice-permuted"
		}
		return fail(sym, fmt.Sprintf("after the call (%s) positions 1..%d read %s, #t=%d: positions 1..%d are not a permutation of the original elements", res.outcome, span+1, render(), tb.Len(), k))
	}
	if strict {
		for i := 0; i < k; i++ {
			for j := i + 1; j < k; j++ {
				if cmp.model(keyOf[after[j]], keyOf[after[i]]) {
					return fail("not-ordered", fmt.Sprintf("result %s: element %d must come before element %d under the comparator", render(), j+1, i+1))
				}
			}
		}
	}
	return res
}

// c18SortLists enumerates the sort inputs.
func c18SortLists(thorough bool) (lists [][]int, desc string) {
	// every list of length <= 6 over {1,2,3}
	maxLen := 6
	if thorough {
		maxLen = 7
	}
	for l := 0; l <= maxLen; l++ {
		total := 1
		for i := 0; i < l; i++ {
			total *= 3
		}
		for code := 0; code < total; code++ {
			lst := make([]int, l)
			c := code
			for i := 0; i < l; i++ {
				lst[i] = 1 + c%3
				c /= 3
			}
			lists = append(lists, lst)
		}
	}
	// every permutation of 1..p
	pmax := 6
	if thorough {
		pmax = 8
	}
	for p := 4; p <= pmax; p++ { // permutations of 1..3 are among the lists above
		perm := make([]int, p)
		for i := range perm {
			perm[i] = i + 1
		}
		var rec func(i int)
		rec = func(i int) {
			if i == p {
				lists = append(lists, append([]int(nil), perm...))
				return
			}
			for j := i; j < p; j++ {
				perm[i], perm[j] = perm[j], perm[i]
				rec(i + 1)
				perm[i], perm[j] = perm[j], perm[i]
			}
		}
		rec(0)
	}
	// structured long lists (beyond the insertion-sort cutoff of Go's sort package)
	lens := []int{13, 20, 33}
	if thorough {
		lens = []int{13, 14, 20, 33, 50, 64, 100}
	}
	for _, n := range lens {
		mk := func(f func(i int) int) {
			lst := make([]int, n)
			for i := range lst {
				lst[i] = f(i)
			}
			lists = append(lists, lst)
		}
		mk(func(i int) int { return i + 1 })            // ascending
		mk(func(i int) int { return n - i })            // descending
		mk(func(i int) int { return (i+n/3)%n + 1 })    // rotated
		mk(func(i int) int { return i%3 + 1 })          // sawtooth over 3 values
		mk(func(i int) int { return 2 })                // all equal
		mk(func(i int) int { return (i*7)%n + 1 })      // stride permutation (n coprime to 7) or repeated values
		mk(func(i int) int { return (i*i + 3*i) % 11 }) // quadratic residues: many duplicates
		mk(func(i int) int {                            // organ pipe
			if i < n/2 {
				return i + 1
			}
			return n - i
		})
		mk(func(i int) int { // zigzag low/high
			if i%2 == 0 {
				return i/2 + 1
			}
			return n - i/2
		})
	}
	return lists, fmt.Sprintf("every list of length <= %d over {1,2,3}, every permutation of 1..p for p <= %d, 9 structured lists for each length in %v", maxLen, pmax, lens)
}

// ---- the check --------------------------------------------------------------------------------

func runC18(r *harness.Run) {
	depth, longDepth := 5, 1
	if r.Thorough() {
		depth, longDepth = 7, 2
	}
	c := &c18Ctx{report: func(sig, what string, replay interface{}) { r.Violation(sig, what, replay) }}
	lists, listDesc := c18SortLists(r.Thorough())
	r.Rule = fmt.Sprintf("(1) explicit-state BFS over list histories: start states = {} (both a constructor-like table and L.NewTable) and every list of length <= 3 over {1,2,3,\"a\"}; "+
		"alphabet = table.insert(t,v), table.insert(t,pos,v) for all pos in 1..n+1, table.remove(t), table.remove(t,pos) for all pos in 1..n, t[n+1]=v, t[n]=nil, t[i]=v for i<=n, table.sort(t), table.sort(t,>) "+
		"with insert/remove also through LTable.Append/Insert/Remove; depth <= %d; a state is (slice model, white-box dump of the array part incl. trailing nil slots and of the hash part); "+
		"every transition is executed on a real table (replay of the history on a fresh table + 1 operation) and validated (error status, result of remove, raw content 1..n+2, length); "+
		"in every distinct state #t, getn, maxn, Len/MaxN/ObjLen, rawget and t[i] for 1..n+2, concat(t), concat(t,sep), concat(t,sep,i), concat(t,sep,i,j) for all i in 1..n+1, j in 0..n, unpack(t), unpack(t,i), unpack(t,i,j) for all i,j in 1..n are compared with the slice model; non-trivial = distinct (model, layout) states; "+
		"the same exploration to depth %d from six lists of length 31, 32, 33 (around the initial capacity of the array part; one pattern mixing numbers and strings, one numeric), with the concat/unpack ranges restricted to the bounds {1,2,n/2,n-1,n,n+1}. "+
		"(2) sort: %s; each built in %d ways (clean array, built by append/insert-front, after remove, with 1 or 2 trailing nil slots, last slot cleared and refilled) x %d comparators "+
		"(strict weak orders: default, <, >, by-key on records, mod-2 classes, always false, truthy non-booleans, missing result, two results, default/</> over strings, < as a Go function; others: <=, >=, ~=, always true, number result, alternating) "+
		"+ the < comparator raising on its k-th call for every k up to the number of calls of the undisturbed run; non-trivial = distinct (list, build, comparator, k) cases in which the comparator machinery ran (length >= 2)",
		depth, longDepth, listDesc, len(c18Builds), len(c18Cmps))
	r.Assumptions = []string{
		"list elements are 1, 2, 3 and \"a\" (history part) and small integers or records keyed by them (sort part); no metatables",
		"the model never has holes: direct assignment only at n+1, at n with nil, or over an existing element, so #t is unique",
		"state merging assumes that a table's future depends only on the content of its array slice and hash part, not on spare capacity behind the slice",
		"table.remove(t) on an empty list may return nil or nothing (position 0 is outside 1..n); concat ranges beyond n+1 are outside the statement and not judged; unpack(t,i,j) beyond n yields nils (t[i..j])",
		"sort of a list mixing numbers and strings must raise (any comparison sort has to compare a number with a string) and leave a permutation; the order it leaves is taken from the implementation",
		"for inconsistent or failing comparators only termination (comparator-call bound 50*n^2+100), 'permutation or Lua error' (the table must hold a permutation in both cases), comparator arguments and absence of Go run-time panics are judged",
	}

	nw := harness.Workers()
	workers := make([]*c18W, nw)
	for i := range workers {
		workers[i] = newC18W()
	}
	defer func() {
		for _, w := range workers {
			w.L.Close()
		}
	}()

	c18RunSortFamily(r, c, workers, lists)
	long := c18RunBFS(r, c, workers, "long lists", c18LongInits(), longDepth)
	main := c18RunBFS(r, c, workers, "main exploration", c18MainInits(), depth)
	r.Extra["states"] = main.states + long.states
	r.Extra["transitions"] = main.transitions + long.transitions
	r.Extra["traces_validated_against_impl"] = main.transitions + long.transitions
	r.Extra["observer_evaluations"] = main.observations + long.observations
	r.Extra["start_states"] = main.starts
	r.Extra["max_depth_completed"] = main.maxDepthDone
	r.Extra["new_states_per_depth"] = main.perDepth
	r.Extra["max_list_length"] = main.maxLen
	r.Extra["max_trailing_nil_slots"] = main.maxSlots
	r.Extra["long_lists"] = map[string]interface{}{"start_states": long.starts, "max_depth_completed": long.maxDepthDone, "states": long.states,
		"transitions": long.transitions, "new_states_per_depth": long.perDepth, "max_list_length": long.maxLen}
	r.Extra["concat_single_number_range_returned_number_not_judged"] = atomic.LoadInt64(&c.concatSingleNumber)
	r.Count("bfs_states", main.states+long.states)
	r.Count("bfs_transitions", main.transitions+long.transitions)
	c18FalseFamily(r)
	c18LargeLists(r)
	c18NilArgs(r)
	c18NilInsert(r)
	runPinned(r, "C18")
	reentrantFamily(r, "C18")
}

func c18RunSortFamily(r *harness.Run, c *c18Ctx, workers []*c18W, lists [][]int) {
	var cases, calls, failCases int64
	var mu sync.Mutex
	outcomes := map[string]int64{}
	const chunk = 8
	nch := (len(lists) + chunk - 1) / chunk
	var expired int32
	harness.ParallelShards(nch, func(wi, shard int) {
		w := workers[wi]
		local := map[string]int64{}
		var lcases, lcalls, lfail int64
		for li := shard * chunk; li < (shard+1)*chunk && li < len(lists); li++ {
			if r.Expired() {
				atomic.StoreInt32(&expired, 1)
				break
			}
			lst := lists[li]
			for _, b := range c18Builds {
				for ci := range c18Cmps {
					cmp := &c18Cmps[ci]
					sc := c18SortCase{List: lst, Build: b, Cmp: cmp.name}
					res := c.runSort(w, sc)
					lcases++
					lcalls += int64(res.calls)
					local[cmp.name+":"+res.outcome]++
					r.Eval(sc.String(), len(lst) >= 2, func() interface{} {
						return map[string]interface{}{"sort_case": sc, "outcome": res.outcome, "comparator_calls": res.calls}
					})
					if cmp.name == "lt" && !res.viol {
						// the comparator fails on its k-th call, for every k
						for k := 1; k <= res.calls; k++ {
							scf := sc
							scf.FailAt = k
							rf := c.runSort(w, scf)
							lcases++
							lfail++
							lcalls += int64(rf.calls)
							local["lt-fail@k:"+rf.outcome]++
							r.Eval(scf.String(), true, func() interface{} {
								return map[string]interface{}{"sort_case": scf, "outcome": rf.outcome, "comparator_calls": rf.calls}
							})
						}
					}
				}
			}
		}
		mu.Lock()
		cases += lcases
		calls += lcalls
		failCases += lfail
		for k, v := range local {
			outcomes[k] += v
		}
		mu.Unlock()
	})
	if expired != 0 {
		r.NotExhaustive("deadline reached inside the sort family")
	}
	r.Extra["sort_lists"] = len(lists)
	r.Extra["sort_cases"] = cases
	r.Extra["sort_cases_failing_comparator"] = failCases
	r.Extra["sort_comparator_calls"] = calls
	r.Extra["sort_outcomes"] = outcomes
	r.Count("sort_cases", cases)
}

type c18Key [16]byte

func c18StateKey(m string, tb *lua.LTable) c18Key {
	h := sha1.Sum([]byte(m + "|" + c18Layout(tb)))
	var k c18Key
	copy(k[:], h[:16])
	return k
}

type c18BFSStats struct {
	starts, maxDepthDone                                int
	states, transitions, observations, maxLen, maxSlots int64
	perDepth                                            []int
}

// c18MainInits: {} twice (as a Lua constructor leaves it, and from L.NewTable) and every list of
// length <= 3 over the four values.
func c18MainInits() []c18Hist {
	var inits []c18Hist
	inits = append(inits, c18Hist{Init: "", Prealloc: true})
	var gen func(prefix string)
	gen = func(prefix string) {
		inits = append(inits, c18Hist{Init: prefix})
		if len(prefix) == 3 {
			return
		}
		for _, v := range c18ValCode {
			gen(prefix + string(v))
		}
	}
	gen("")
	sort.SliceStable(inits, func(i, j int) bool { return len(inits[i].Init) < len(inits[j].Init) })
	return inits
}

// c18LongInits: lists around the default capacity of the array part (32), one mixing numbers and
// strings, one of numbers only (so that sort succeeds, beyond the insertion-sort cutoff).
func c18LongInits() []c18Hist {
	var inits []c18Hist
	for _, n := range []int{31, 32, 33} {
		for _, pat := range []string{"123a", "321"} {
			inits = append(inits, c18Hist{Init: strings.Repeat(pat, n)[:n]})
		}
	}
	return inits
}

func c18RunBFS(r *harness.Run, c *c18Ctx, workers []*c18W, label string, inits []c18Hist, depth int) c18BFSStats {
	const nsh = 256
	type seenShard struct {
		mu sync.Mutex
		m  map[c18Key]struct{}
	}
	var seen [nsh]seenShard
	for i := range seen {
		seen[i].m = map[c18Key]struct{}{}
	}
	addSeen := func(k c18Key) bool {
		s := &seen[k[0]]
		s.mu.Lock()
		defer s.mu.Unlock()
		if _, ok := s.m[k]; ok {
			return false
		}
		s.m[k] = struct{}{}
		return true
	}
	var states, transitions, observations, maxLen, maxSlots int64
	noteState := func(w *c18W, tb *lua.LTable, m string, h c18Hist) {
		n := c.fullCheck(w, tb, m, h)
		atomic.AddInt64(&observations, int64(n))
		atomic.AddInt64(&states, 1)
		for {
			old := atomic.LoadInt64(&maxLen)
			if int64(len(m)) <= old || atomic.CompareAndSwapInt64(&maxLen, old, int64(len(m))) {
				break
			}
		}
		sl := int64(c18ArrayLen(tb) - len(m))
		for {
			old := atomic.LoadInt64(&maxSlots)
			if sl <= old || atomic.CompareAndSwapInt64(&maxSlots, old, sl) {
				break
			}
		}
		r.Eval(m+"|"+c18Layout(tb), true, func() interface{} {
			return map[string]interface{}{"history": h.texts(), "model": c18Show(m), "layout": c18Layout(tb)}
		})
	}

	// start states
	var frontier []c18Hist
	w0 := workers[0]
	for _, h := range inits {
		tb := c18Build(w0, h)
		if raw := c18Raw(tb, len(h.Init)+2); raw != c18Pad(h.Init, len(h.Init)+2) || tb.Len() != len(h.Init) {
			c.histViol("init/content", fmt.Sprintf("a list built by RawSetInt reads back %q with #t=%d", raw, tb.Len()), h, nil)
			continue
		}
		if addSeen(c18StateKey(h.Init, tb)) {
			noteState(w0, tb, h.Init, h)
			frontier = append(frontier, h)
		}
	}
	nstarts := len(frontier)

	maxDepthDone := 0
	perDepth := []int{len(frontier)}
	var mu sync.Mutex
	for d := 1; d <= depth && len(frontier) > 0; d++ {
		var next []c18Hist
		var expired int32
		chunk := 32
		if len(frontier) < 4096 {
			chunk = 1
		}
		nch := (len(frontier) + chunk - 1) / chunk
		var newStates int64
		harness.ParallelShards(nch, func(wi, shard int) {
			w := workers[wi]
			var localNext []c18Hist
			var ltrans int64
			for si := shard * chunk; si < (shard+1)*chunk && si < len(frontier); si++ {
				if r.Expired() {
					atomic.StoreInt32(&expired, 1)
					break
				}
				st := frontier[si]
				_, m := c18ReplayPrefix(w, st)
				for _, op := range c18Menu(len(m)) {
					tb2, m1 := c18ReplayPrefix(w, st)
					if m1 != m {
						harness.Fatal("c18: replay of %v is not deterministic (%q vs %q)", st.texts(), m, m1)
					}
					h2 := st.extend(op)
					m2, ok := c.checkedStep(w, tb2, m, op, h2)
					ltrans++
					if !ok {
						continue
					}
					if addSeen(c18StateKey(m2, tb2)) {
						noteState(w, tb2, m2, h2)
						atomic.AddInt64(&newStates, 1)
						if d < depth {
							localNext = append(localNext, h2)
						}
					}
				}
			}
			atomic.AddInt64(&transitions, ltrans)
			mu.Lock()
			next = append(next, localNext...)
			mu.Unlock()
		})
		if expired != 0 {
			r.NotExhaustive(fmt.Sprintf("%s: deadline reached while expanding depth %d (depth %d fully covered)", label, d, maxDepthDone))
			break
		}
		maxDepthDone = d
		perDepth = append(perDepth, int(newStates))
		frontier = next
	}
	return c18BFSStats{starts: nstarts, maxDepthDone: maxDepthDone, states: states, transitions: transitions, observations: observations,
		maxLen: maxLen, maxSlots: maxSlots, perDepth: perDepth}
}

// ---- replay -----------------------------------------------------------------------------------

func replayC18(raw json.RawMessage) (bool, string) {
	var rec struct {
		Family string      `json:"family"`
		Hist   c18Hist     `json:"hist"`
		Case   c18SortCase `json:"case"`
		Expect string      `json:"expect"` // signature the artefact was written for ("" = any violation counts)
	}
	if err := json.Unmarshal(raw, &rec); err != nil {
		return true, "cannot parse replay: " + err.Error()
	}
	var found []string
	hit := false
	c := &c18Ctx{report: func(sig, what string, _ interface{}) {
		mark := ""
		if sig == rec.Expect {
			hit = true
			mark = "  <== the recorded violation"
		}
		for _, f := range found {
			if strings.HasPrefix(f, sig+"\n") || strings.HasPrefix(f, sig+" ") {
				return // one report per signature
			}
		}
		found = append(found, sig+mark+"\n  "+strings.ReplaceAll(what, "\n", "\n  "))
	}}
	w := newC18W()
	defer w.L.Close()
	what := ""
	switch rec.Family {
	case "sort":
		res := c.runSort(w, rec.Case)
		what = fmt.Sprintf("%s: outcome %s after %d comparator calls", rec.Case, res.outcome, res.calls)
	case "hist":
		h := c18Hist{Init: rec.Hist.Init, Prealloc: rec.Hist.Prealloc}
		tb := c18Build(w, h)
		m := h.Init
		c.fullCheck(w, tb, m, h)
		for _, op := range rec.Hist.Ops {
			h = h.extend(op)
			m2, ok := c.checkedStep(w, tb, m, op, h)
			if !ok {
				break // implementation and model have diverged: later steps mean nothing
			}
			m = m2
			c.fullCheck(w, tb, m, h)
		}
		what = fmt.Sprintf("history %v", rec.Hist.texts())
	default:
		return true, "unknown replay family " + rec.Family
	}
	if len(found) == 0 {
		return true, what + ": every transition, observer and sort result agrees with the model; no violation"
	}
	if rec.Expect != "" && !hit {
		return true, what + ": the recorded violation (" + rec.Expect + ") does not reproduce; other deviations seen on the way (known findings included):\n" + strings.Join(found, "\n")
	}
	return false, what + ": reproduced:\n" + strings.Join(found, "\n")
}
