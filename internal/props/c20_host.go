package props

// C20, second part: host modules and real files. Exhaustive small scenarios that need a state the
// BFS does not use: the full OpenLibs state, every order of opening the libraries behind
// package+base with host registrations interleaved, and loader files rewritten on disk.

import (
	"fmt"
	"os"
	"path/filepath"
	"strings"
	"sync/atomic"

	lua "github.com/yuin/gopher-lua"

	"verif/internal/harness"
)

type c20Lib struct {
	name string
	open lua.LGFunction
}

var c20Libs = []c20Lib{
	{lua.TabLibName, lua.OpenTable}, {lua.IoLibName, lua.OpenIo}, {lua.OsLibName, lua.OpenOs}, {lua.StringLibName, lua.OpenString},
	{lua.MathLibName, lua.OpenMath}, {lua.DebugLibName, lua.OpenDebug}, {lua.ChannelLibName, lua.OpenChannel}, {lua.CoroutineLibName, lua.OpenCoroutine},
}

type c20Reporter func(sig, what string, replay interface{})

func c20Static(r *harness.Run, env *c20Env, workers []*c20Worker) {
	c20StaticWith(func(sig, what string, replay interface{}) { r.Violation(sig, what, replay) }, env, workers[0], r.Thorough(), r)
}

// reach: what require(name), the global of that name and package.loaded[name] are (Go-side walk
// of the dotted global path; the Lua chunk only calls require).
type c20Reach struct {
	ok     bool
	nres   int
	mod    lua.LValue
	msg    string
	global lua.LValue
	loaded lua.LValue
}

func (w *c20Worker) reach(L *lua.LState, name string) (c20Reach, error) {
	w.events = w.events[:0]
	err := w.exec(L, "local name = ...\nlocal function pack(...) return select('#', ...), ... end\nlocal n, ok, m = pack(pcall(require, name))\nemit(\"reach\", n, ok, m, package.loaded[name])\n", lua.LString(name))
	if err != nil {
		return c20Reach{}, err
	}
	if len(w.events) == 0 {
		return c20Reach{}, fmt.Errorf("no event")
	}
	a := w.events[len(w.events)-1].args
	rc := c20Reach{nres: int(lua.LVAsNumber(a[0])) - 1, ok: a[1] == lua.LTrue, loaded: a[3]}
	if rc.ok {
		rc.mod = a[2]
	} else {
		rc.msg = a[2].String()
	}
	rc.global = c20GlobalAt(L, strings.Split(name, "."))
	return rc, nil
}

// c20StaticWith runs the scenarios; r may be nil (replay).
func c20StaticWith(report c20Reporter, env *c20Env, w0 *c20Worker, thorough bool, r *harness.Run) {
	eval := func(key string, sample func() interface{}) {
		if r != nil {
			r.Eval(key, true, sample)
		}
	}
	viol := func(sig, what string) {
		report(sig, what, map[string]interface{}{"kind": "static", "thorough": thorough})
	}

	// ---- S1: after OpenLibs every library is reachable through require and its global name
	func() {
		L := lua.NewState()
		defer L.Close()
		L.SetGlobal("emit", L.NewFunction(func(L *lua.LState) int {
			ev := c20Event{kind: L.ToString(1)}
			for i := 2; i <= L.GetTop(); i++ {
				ev.args = append(ev.args, L.Get(i))
			}
			w0.events = append(w0.events, ev)
			return 0
		}))
		names := []string{lua.LoadLibName, "_G"}
		for _, l := range c20Libs {
			names = append(names, l.name)
		}
		for _, name := range names {
			rc, err := w0.reach(L, name)
			eval("openlibs/"+name, func() interface{} { return map[string]interface{}{"scenario": "OpenLibs", "require": name} })
			if err != nil {
				viol("openlibs/error/"+name, fmt.Sprintf("probing %s raised %v", name, err))
				continue
			}
			if !rc.ok {
				viol("openlibs/require-fails/"+name, fmt.Sprintf("after OpenLibs require(%q) fails: %s", name, rc.msg))
				continue
			}
			if _, isTb := rc.mod.(*lua.LTable); !isTb || rc.mod != rc.global || rc.mod != rc.loaded || rc.nres != 1 {
				viol("openlibs/identity/"+name, fmt.Sprintf("after OpenLibs require(%q) is %s, the global is %s, package.loaded is %s; rawequal(require, global)=%v rawequal(require, loaded)=%v",
					name, c20Class(rc.mod), c20Class(rc.global), c20Class(rc.loaded), rc.mod == rc.global, rc.mod == rc.loaded))
			}
		}
		if reg := L.GetField(L.Get(lua.RegistryIndex), "_LOADED"); reg != L.GetField(L.GetGlobal("package"), "loaded") {
			viol("openlibs/registry-loaded", "the registry's _LOADED table is not package.loaded")
		}
	}()

	// ---- S2: every order of opening k of the 8 libraries behind package+base, with
	// RegisterModule("hostm"), RegisterModule("hostm.sub") at position p and PreloadModule("hostp") at position q
	var seqs [][]int
	maxK := 3
	if thorough {
		maxK = 5
	}
	var gen func(cur []int, used uint)
	gen = func(cur []int, used uint) {
		seqs = append(seqs, append([]int(nil), cur...))
		if len(cur) == maxK {
			return
		}
		for i := range c20Libs {
			if used&(1<<uint(i)) == 0 {
				gen(append(cur, i), used|1<<uint(i))
			}
		}
	}
	gen(nil, 0)
	nFullPerms := 0
	if thorough {
		// all 8! complete orders too (host registrations first or last only)
		var perm func(cur []int, used uint)
		perm = func(cur []int, used uint) {
			if len(cur) == len(c20Libs) {
				seqs = append(seqs, append([]int(nil), cur...))
				nFullPerms++
				return
			}
			for i := range c20Libs {
				if used&(1<<uint(i)) == 0 {
					perm(append(cur, i), used|1<<uint(i))
				}
			}
		}
		perm(nil, 0)
	}
	var orderCases int64
	nw := harness.Workers()
	ws := make([]*c20Worker, nw)
	ws[0] = w0
	for i := 1; i < nw; i++ {
		ws[i] = newC20Worker(env)
	}
	if r == nil {
		ws = ws[:1]
	}
	const chunk = 16
	nchunks := (len(seqs) + chunk - 1) / chunk
	runChunk := func(wi, shard int) {
		w := ws[wi]
		for si := shard * chunk; si < (shard+1)*chunk && si < len(seqs); si++ {
			seq := seqs[si]
			k := len(seq)
			for p := 0; p <= k; p++ {
				for q := 0; q <= k; q++ {
					if k == len(c20Libs) && !((p == 0 && q == 0) || (p == k && q == k)) {
						continue
					}
					if r != nil && r.Expired() {
						r.NotExhaustive("deadline reached inside the open-order scenarios")
						return
					}
					atomic.AddInt64(&orderCases, 1)
					c20OrderCase(w, env, seq, p, q, viol, eval)
				}
			}
		}
	}
	if r != nil {
		harness.ParallelShards(nchunks, runChunk)
		r.Extra["open_order_cases"] = orderCases
		r.Extra["open_order_sequences"] = len(seqs)
	} else {
		for s := 0; s < nchunks; s++ {
			runChunk(0, s)
		}
	}

	// ---- S3: real files in one directory, rewritten between requires
	c20FileScenarios(w0, env, viol, eval)
}

func c20OrderCase(w *c20Worker, env *c20Env, seq []int, p, q int, viol func(sig, what string), eval func(string, func() interface{})) {
	var names []string
	for _, i := range seq {
		names = append(names, c20Libs[i].name)
	}
	desc := fmt.Sprintf("open package, base, then %v; RegisterModule(hostm), RegisterModule(hostm.sub) before step %d; PreloadModule(hostp) before step %d", names, p, q)
	eval(fmt.Sprintf("order/%v/%d/%d", seq, p, q), func() interface{} { return map[string]interface{}{"scenario": desc} })
	shape := fmt.Sprintf("k=%d", len(seq))
	L := lua.NewState(lua.Options{SkipOpenLibs: true})
	defer L.Close()
	var goErr interface{}
	hostpRuns := 0
	var hostm, hostsub lua.LValue
	var hostpTb *lua.LTable
	func() {
		defer func() { goErr = recover() }()
		c20OpenLib(L, lua.LoadLibName, lua.OpenPackage)
		c20OpenLib(L, lua.BaseLibName, lua.OpenBase)
		L.SetField(L.GetGlobal("package"), "path", lua.LString(c20Templates(env.baseDir)))
		L.SetGlobal("emit", L.NewFunction(func(L *lua.LState) int {
			ev := c20Event{kind: L.ToString(1)}
			for i := 2; i <= L.GetTop(); i++ {
				ev.args = append(ev.args, L.Get(i))
			}
			w.events = append(w.events, ev)
			return 0
		}))
		for step := 0; step <= len(seq); step++ {
			if step == p {
				hostm = L.RegisterModule("hostm", map[string]lua.LGFunction{"f": func(L *lua.LState) int { L.Push(lua.LString("hostm.f")); return 1 }})
				hostsub = L.RegisterModule("hostm.sub", map[string]lua.LGFunction{"g": func(L *lua.LState) int { L.Push(lua.LString("hostm.sub.g")); return 1 }})
			}
			if step == q {
				L.PreloadModule("hostp", func(L *lua.LState) int {
					hostpRuns++
					hostpTb = L.NewTable()
					hostpTb.RawSetString("arg", L.Get(1))
					L.Push(hostpTb)
					return 1
				})
			}
			if step < len(seq) {
				c20OpenLib(L, c20Libs[seq[step]].name, c20Libs[seq[step]].open)
			}
		}
	}()
	if goErr != nil {
		viol("order/setup-error/"+shape, fmt.Sprintf("%s: raised %v", desc, goErr))
		return
	}
	opened := map[string]bool{}
	for _, n := range names {
		opened[n] = true
	}
	for _, l := range c20Libs {
		rc, err := w.reach(L, l.name)
		if err != nil {
			viol("order/probe-error/"+l.name, fmt.Sprintf("%s: probing %s raised %v", desc, l.name, err))
			return
		}
		if opened[l.name] {
			if !rc.ok {
				viol("order/opened-not-requirable/"+l.name, fmt.Sprintf("%s: require(%q) fails: %s", desc, l.name, rc.msg))
			} else if _, isTb := rc.mod.(*lua.LTable); !isTb || rc.mod != rc.global || rc.mod != rc.loaded {
				viol("order/opened-identity/"+l.name, fmt.Sprintf("%s: require(%q) is %s, global is %s, package.loaded is %s, identical: %v/%v", desc, l.name, c20Class(rc.mod), c20Class(rc.global), c20Class(rc.loaded), rc.mod == rc.global, rc.mod == rc.loaded))
			}
		} else {
			if rc.ok {
				viol("order/unopened-requirable/"+l.name, fmt.Sprintf("%s: require(%q) succeeds although the library was never opened", desc, l.name))
			} else if !strings.Contains(rc.msg, "no field package.preload['"+l.name+"']") || !strings.Contains(rc.msg, filepath.Join(env.baseDir, l.name+".lua")) || !strings.Contains(rc.msg, filepath.Join(env.baseDir, l.name, "init.lua")) {
				viol("order/unopened-message/"+l.name, fmt.Sprintf("%s: require(%q) fails with %q, which does not list package.preload and both expanded templates", desc, l.name, rc.msg))
			}
			if rc.global != lua.LNil {
				viol("order/unopened-global/"+l.name, fmt.Sprintf("%s: global %s exists although the library was never opened", desc, l.name))
			}
		}
	}
	for _, h := range []struct {
		name string
		tb   lua.LValue
		fn   string
	}{{"hostm", hostm, "f"}, {"hostm.sub", hostsub, "g"}} {
		rc, err := w.reach(L, h.name)
		if err != nil {
			viol("order/probe-error/"+h.name, fmt.Sprintf("%s: probing %s raised %v", desc, h.name, err))
			return
		}
		if !rc.ok {
			viol("order/host-not-requirable/"+h.name, fmt.Sprintf("%s: require(%q) fails: %s", desc, h.name, rc.msg))
			continue
		}
		tb, isTb := rc.mod.(*lua.LTable)
		if !isTb || rc.mod != h.tb || rc.mod != rc.global || rc.mod != rc.loaded {
			viol("order/host-identity/"+h.name, fmt.Sprintf("%s: require(%q) is %s; identical to RegisterModule's result: %v, to the global: %v, to package.loaded: %v", desc, h.name, c20Class(rc.mod), rc.mod == h.tb, rc.mod == rc.global, rc.mod == rc.loaded))
			continue
		}
		if f, ok := tb.RawGetString(h.fn).(*lua.LFunction); !ok || !f.IsG {
			viol("order/host-funcs/"+h.name, fmt.Sprintf("%s: require(%q).%s is not the registered function", desc, h.name, h.fn))
		}
	}
	// the host preload: runs once, with the module name, and is cached
	rc1, err1 := w.reach(L, "hostp")
	rc2, err2 := w.reach(L, "hostp")
	if err1 != nil || err2 != nil {
		viol("order/probe-error/hostp", fmt.Sprintf("%s: probing hostp raised %v %v", desc, err1, err2))
		return
	}
	if !rc1.ok || !rc2.ok {
		viol("order/hostp-not-requirable", fmt.Sprintf("%s: require(\"hostp\") fails: %s %s", desc, rc1.msg, rc2.msg))
	} else if hostpRuns != 1 || rc1.mod != lua.LValue(hostpTb) || rc2.mod != rc1.mod || rc1.loaded != rc1.mod || hostpTb.RawGetString("arg") != lua.LString("hostp") {
		viol("order/hostp-cache", fmt.Sprintf("%s: the preloaded Go loader ran %d times (argument %v); first/second require identical: %v; identical to the loader's table: %v", desc, hostpRuns, hostpTb.RawGetString("arg"), rc1.mod == rc2.mod, rc1.mod == lua.LValue(hostpTb)))
	}
}

// ---- S3 ---------------------------------------------------------------------------------------

func c20FileScenarios(w *c20Worker, env *c20Env, viol func(sig, what string), eval func(string, func() interface{})) {
	dir := filepath.Join(env.root, "files")
	write := func(rel, content string) {
		p := filepath.Join(dir, rel)
		if err := os.MkdirAll(filepath.Dir(p), 0o755); err != nil {
			harness.Fatal("c20: %v", err)
		}
		if err := os.WriteFile(p, []byte(content), 0o644); err != nil {
			harness.Fatal("c20: %v", err)
		}
	}
	body := func(ver string) string {
		return fmt.Sprintf("local NAME = ...\nemit(\"run\", NAME, %q)\nreturn {ver=%q}\n", ver, ver)
	}
	runsOf := func() []string {
		var out []string
		for _, e := range w.events {
			if e.kind == "run" {
				out = append(out, e.args[0].String()+"@"+e.args[1].String())
			}
		}
		return out
	}
	type probe struct {
		rc   c20Reach
		runs []string
	}
	req := func(L *lua.LState, name string) probe {
		rc, err := w.reach(L, name)
		if err != nil {
			return probe{rc: c20Reach{msg: "PROBE ERROR: " + err.Error()}}
		}
		return probe{rc, runsOf()}
	}
	ver := func(p probe) string {
		if !p.rc.ok {
			return "error: " + p.rc.msg
		}
		if tb, ok := p.rc.mod.(*lua.LTable); ok {
			return "ver=" + tb.RawGetString("ver").String() + " runs=" + strings.Join(p.runs, ",")
		}
		return c20Class(p.rc.mod) + " runs=" + strings.Join(p.runs, ",")
	}
	fresh := func() *lua.LState {
		os.RemoveAll(dir)
		os.MkdirAll(dir, 0o755)
		L := w.newState()
		L.SetField(L.GetGlobal("package"), "path", lua.LString(c20Templates(dir)))
		return L
	}
	clear := func(L *lua.LState, name string) {
		L.SetField(L.GetField(L.GetGlobal("package"), "loaded"), name, lua.LNil)
	}
	expect := func(sig, what, got, want string) {
		eval("files/"+sig, func() interface{} { return map[string]interface{}{"scenario": "files: " + what, "observed": got} })
		if got != want {
			viol("files/"+sig, fmt.Sprintf("%s: observed %q, expected %q", what, got, want))
		}
	}

	// a) rewrite between loads
	func() {
		L := fresh()
		defer L.Close()
		write("m.lua", body("1"))
		p1 := req(L, "m")
		expect("first-load", "m.lua v1 on disk; require m", ver(p1), "ver=1 runs=m@1")
		write("m.lua", body("2"))
		p2 := req(L, "m")
		expect("cached-despite-rewrite", "m.lua rewritten to v2 while package.loaded.m stands; require m", ver(p2), "ver=1 runs=")
		if p1.rc.ok && p2.rc.ok && p1.rc.mod != p2.rc.mod {
			viol("files/cached-identity", "second require of m returned a different table")
		}
		clear(L, "m")
		p3 := req(L, "m")
		expect("reload-after-clear", "package.loaded.m=nil; require m", ver(p3), "ver=2 runs=m@2")
	}()
	// b) template order and init.lua
	func() {
		L := fresh()
		defer L.Close()
		write("m/init.lua", body("init"))
		expect("init-template", "only m/init.lua exists; require m", ver(req(L, "m")), "ver=init runs=m@init")
		write("m.lua", body("plain"))
		clear(L, "m")
		expect("template-order", "m.lua and m/init.lua exist, path is ?.lua;?/init.lua; require m", ver(req(L, "m")), "ver=plain runs=m@plain")
	}()
	// c) dotted name -> directory
	func() {
		L := fresh()
		defer L.Close()
		write("p/q.lua", body("pq"))
		expect("dotted-name", "p/q.lua exists; require p.q", ver(req(L, "p.q")), "ver=pq runs=p.q@pq")
		write("p/q/r/init.lua", body("pqr"))
		expect("dotted-name-init", "p/q/r/init.lua exists; require p.q.r", ver(req(L, "p.q.r")), "ver=pqr runs=p.q.r@pqr")
	}()
	// d) a file that does not compile: reported as an error (not a crash); after repairing the file
	// and clearing the entry the module loads
	func() {
		L := fresh()
		defer L.Close()
		write("s.lua", "return {ver=\n")
		p := req(L, "s")
		got := "ok"
		if !p.rc.ok {
			got = "error"
			if c20LooksLikeGoPanic(p.rc.msg) {
				got = "go panic: " + p.rc.msg
			}
		}
		expect("syntax-error", "s.lua has a syntax error; require s", got, "error")
		write("s.lua", body("fixed"))
		clear(L, "s")
		expect("syntax-error-repaired", "s.lua repaired, package.loaded.s=nil; require s", ver(req(L, "s")), "ver=fixed runs=s@fixed")
	}()
	// e) unusual characters in a missing module's name are listed literally
	func() {
		L := fresh()
		defer L.Close()
		for _, name := range []string{"a%sb", "x-y", "with space", "q?"} {
			p := req(L, name)
			got := "listed"
			fname := strings.Replace(name, ".", "/", -1)
			want1 := "no field package.preload['" + name + "']"
			want2 := strings.Replace(dir+"/?.lua", "?", fname, -1)
			want3 := strings.Replace(dir+"/?/init.lua", "?", fname, -1)
			if p.rc.ok {
				got = "loaded?!"
			} else if !strings.Contains(p.rc.msg, want1) || !strings.Contains(p.rc.msg, want2) || !strings.Contains(p.rc.msg, want3) {
				got = "message: " + p.rc.msg
			}
			expect("missing-name/"+name, fmt.Sprintf("require(%q) with nothing to find", name), got, "listed")
		}
	}()
	os.RemoveAll(dir)
}
