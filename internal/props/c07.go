package props

// C07 — every compiled function is well-formed bytecode the VM can run without faulting.
//
// Every program of an enumerated corpus is compiled (parse.Parse + lua.Compile); every prototype
// produced (recursively) is checked by the structural verifier internal/bcverify, which is written
// from opcode.go / vm.go and knows nothing about compile.go. Programs whose result is cheap to
// predict are then executed under PCall and compared with a value computed in Go, so that the
// verifier and the VM cannot both be wrong in the same way; all executed programs are watched for
// Go run-time panics coming out of the VM (the "consequently ... can never index outside" clause).
//
// The corpus (c07_gen.go): the repository's own test scripts; the boundary families of DESIGN §4
// C07 (locals, parameters, upvalues, constants, constructors, nesting, long jumps), each over its
// whole window around the documented limit; and the exhaustive family "every sequence of <= n
// statement kinds (13) in every block position (9)".
//
// Signatures: a verifier issue is reported under its class ("reg/SELF.A+1", "jump/wrapped/JMP", ...);
// a failed prediction as "exec/mismatch/<family>/<shape>", a Go panic out of the VM as
// "exec/go-panic/<family>/<shape>", a front-end panic as "compile/panic/<family>". Each signature is
// handed to the harness once, from the smallest case that shows it.
//
// Detection record (scratch copies of the library, quick tier; the first five keep the library's own
// test suite green):
//   patchCode: drop `case OP_SELF`                          -> reg/SELF.A+1, reg/CALL.args, reg/TAILCALL.args
//   patchCode: LOADNIL counts operand A instead of B        -> reg/LOADNIL.B, reg/TFORLOOP.A+2
//   loadRk: cindex <= opMaxIndexRk+1                        -> exec/mismatch/consts/v4
//   compileTableExpr: `if c > 512` for the extended SETLIST -> setlist/count-word/wrong
//   const maxRegisters = 260                                -> regmax/*, reg/*, const/*, exec/* (60+ signatures)
//   compileLabelStmt: label pc + 1                          -> jump/into-closure-captures/JMP, exec/go-panic/seq, exec/mismatch/longjump/goto-*/inrange
//   PropagateKMV: cindex <= opMaxIndexRk+1                  -> exec/mismatch/consts/v0..v5
//   stringConstants filled for string constants only        -> strconst/len, strconst/mismatch, strconst/*.index, exec/go-panic/*
//   `IsVarArg &= ^VarArgHasArg` on use of '...'             -> vararg/needsarg-without-hasarg
//   patchCode: no `maxreg++`                                -> reg/* (70+ signatures)
// Not detected, and not a property break: MOVEN length written without clamping to 511 (the 9-bit
// field truncates to a shorter group followed by plain MOVEs, which is still correct code).

import (
	"encoding/json"
	"fmt"
	"os"
	"path/filepath"
	"sort"
	"strings"
	"sync"
	"sync/atomic"
	"time"

	lua "github.com/yuin/gopher-lua"
	"github.com/yuin/gopher-lua/ast"
	"github.com/yuin/gopher-lua/parse"

	"verif/internal/bcverify"
	"verif/internal/harness"
)

func init() {
	harness.Register("C07", "exploration", runC07)
	harness.RegisterReplay("C07", replayC07)
}

// c07ID names one case of the corpus; c07Make rebuilds the case from it (used by the replayer).
type c07ID struct {
	Family string `json:"family"`
	P      []int  `json:"params,omitempty"`
	Name   string `json:"name,omitempty"`
}

func (id c07ID) String() string {
	if id.Name != "" {
		return id.Family + ":" + id.Name
	}
	return fmt.Sprintf("%s%v", id.Family, id.P)
}

type c07Case struct {
	ID     c07ID
	Src    string
	Exec   bool                                          // run the main function under PCall
	Budget int64                                         // instruction budget for the run
	Expect func(L *lua.LState, rets []lua.LValue) string // "" = as predicted; nil = result not predicted
	ExSig  string                                        // signature used when the prediction fails
	Note   string                                        // what the program is (for reports)
}

func c07RepoDir() string {
	if d := os.Getenv("VERIF_REPO"); d != "" {
		return d
	}
	return "/repo"
}

// ---- per-worker interpreter with an instruction budget -------------------------------------------

type c07Worker struct {
	L     *lua.LState
	steps int64
	limit int64
	found map[string]*c07Found // signature -> smallest case showing it, number of cases
}

// c07Found: what a worker remembers about one signature. Signatures are handed to the harness once,
// after the run, from the smallest case that showed them, so that the report and the replay file do
// not depend on goroutine scheduling.
type c07Found struct {
	id c07ID
	n  int64
}

var c07States sync.Map // *lua.LState -> *c07Worker

// Helper globals of the generated programs. They are Go functions so that they do not depend on
// the compiler under test: F(...) returns its arguments, K(i) = "ck"..i, V(i) = 900000+i,
// M() = 700001, 700002, 700003, ID(x) = x.
func c07Helpers(L *lua.LState) {
	L.SetGlobal("F", L.NewFunction(func(L *lua.LState) int { return L.GetTop() }))
	L.SetGlobal("K", L.NewFunction(func(L *lua.LState) int {
		L.Push(lua.LString(fmt.Sprintf("ck%d", L.CheckInt(1))))
		return 1
	}))
	L.SetGlobal("V", L.NewFunction(func(L *lua.LState) int {
		L.Push(lua.LNumber(900000 + L.CheckInt(1)))
		return 1
	}))
	L.SetGlobal("M", L.NewFunction(func(L *lua.LState) int {
		L.Push(lua.LNumber(700001))
		L.Push(lua.LNumber(700002))
		L.Push(lua.LNumber(700003))
		return 3
	}))
	L.SetGlobal("ID", L.NewFunction(func(L *lua.LState) int {
		L.SetTop(1)
		return 1
	}))
}

func (w *c07Worker) fresh() {
	if w.L != nil {
		c07States.Delete(w.L)
		// a state that went through a Go panic is abandoned, not closed
	}
	w.L = lua.NewState()
	c07States.Store(w.L, w)
	c07Helpers(w.L)
}

var c07HookOnce sync.Once

func c07InstallHook() {
	c07HookOnce.Do(func() {
		lua.VerifInstallStepHook(func(L *lua.LState) {
			v, ok := c07States.Load(L)
			if !ok {
				return
			}
			w := v.(*c07Worker)
			w.steps++
			if w.limit > 0 && w.steps > w.limit {
				w.limit = 0
				L.RaiseError("C07-STEP-BUDGET")
			}
		})
	})
}

type c07Outcome struct {
	rets    []lua.LValue
	err     error
	goPanic string // Go run-time panic that came out of the VM (through PCall or past it)
	escaped bool   // the panic was not even contained by PCall
	overrun bool
}

func (w *c07Worker) run(proto *lua.FunctionProto, budget int64) (out c07Outcome) {
	L := w.L
	w.steps, w.limit = 0, budget
	defer func() {
		w.limit = 0
		if rcv := recover(); rcv != nil {
			out.goPanic = fmt.Sprint(rcv)
			out.escaped = true
			w.fresh()
		}
	}()
	L.SetTop(0)
	L.Push(L.NewFunctionFromProto(proto))
	err := L.PCall(0, lua.MultRet, nil)
	if err != nil {
		out.err = err
		if ae, ok := err.(*lua.ApiError); ok && ae.Type == lua.ApiErrorPanic {
			out.goPanic = ae.Object.String()
			w.fresh()
			return
		}
		if strings.Contains(err.Error(), "C07-STEP-BUDGET") {
			out.overrun = true
		}
		w.fresh() // no state is carried over from a failed run into later cases
		return
	}
	for i := 1; i <= L.GetTop(); i++ {
		out.rets = append(out.rets, L.Get(i))
	}
	return
}

// ---- compile ---------------------------------------------------------------------------------------

type c07Compiled struct {
	proto      *lua.FunctionProto
	parseErr   error
	compileErr error
	panicked   string
}

func c07Compile(src, name string) (res c07Compiled) {
	defer func() {
		if rcv := recover(); rcv != nil {
			res.proto = nil
			res.panicked = fmt.Sprint(rcv)
		}
	}()
	var chunk []ast.Stmt
	chunk, res.parseErr = parse.Parse(strings.NewReader(src), name)
	if res.parseErr != nil {
		return
	}
	res.proto, res.compileErr = lua.Compile(chunk, name)
	if res.compileErr != nil {
		res.proto = nil
	}
	return
}

func c07ErrClass(err error) string {
	s := err.Error()
	for _, k := range []string{"register overflow", "too many local variables", "too long to jump", "control structure too long", "too many function expressions", "too many constants", "too many upvalues", "jumps into the scope", "no loop to break", "syntax error", "cannot use '...'", "no visible label", "already defined"} {
		if strings.Contains(s, k) {
			return k
		}
	}
	if len(s) > 60 {
		s = s[:60]
	}
	return s
}

func c07Short(s string, n int) string {
	if len(s) <= n {
		return s
	}
	return s[:n/2] + fmt.Sprintf(" …[%d bytes]… ", len(s)-n) + s[len(s)-n/2:]
}

func c07FindProto(p *lua.FunctionProto, path string) *lua.FunctionProto {
	parts := strings.Split(path, "/")
	for _, s := range parts[1:] {
		var i int
		fmt.Sscanf(s, "%d", &i)
		if p == nil || i >= len(p.FunctionPrototypes) {
			return nil
		}
		p = p.FunctionPrototypes[i]
	}
	return p
}

// ---- the pipeline for one case -------------------------------------------------------------------

type c07Stats struct {
	mu         sync.Mutex
	classes    map[string]int64  // issue class -> number of programs showing it
	rejects    map[string]int64  // family/error class -> count
	firstRej   map[string]string // family/variant -> smallest rejected member (for the evidence)
	firstRejID map[string]c07ID
	accepted   map[string]int64 // family -> accepted programs
}

type c07Ctx struct {
	r                                                       *harness.Run
	st                                                      *c07Stats
	protos, words, executed, predicted, luaErrors, overruns int64
}

// check runs one case. It returns the signatures the case shows; with detail set it also renders
// the explanation of each signature (used for the final report and by the replayer).
func (c *c07Ctx) check(w *c07Worker, cs *c07Case, detail bool) (sigs []string, texts map[string]string, report string) {
	r := c.r
	var rep strings.Builder
	if detail {
		texts = map[string]string{}
	}
	violf := func(sig string, what func() string) {
		sigs = append(sigs, sig)
		if detail {
			t := what()
			texts[sig] = t
			fmt.Fprintf(&rep, "%s: %s\n", sig, t)
			return
		}
		if w.found == nil {
			w.found = map[string]*c07Found{}
		}
		f := w.found[sig]
		if f == nil {
			w.found[sig] = &c07Found{id: cs.ID, n: 1}
			return
		}
		f.n++
		if c07LessCase(cs.ID, f.id) {
			f.id = cs.ID
		}
	}
	viol := func(sig, what string) { violf(sig, func() string { return what }) }
	res := c07Compile(cs.Src, cs.ID.String())
	fam := cs.ID.Family
	accepted := false
	defer func() {
		if r != nil && !detail {
			r.Eval(cs.ID.String(), accepted, func() interface{} {
				return map[string]interface{}{"case": cs.ID.String(), "what": cs.Note, "source": c07Short(cs.Src, 240), "accepted": accepted}
			})
		}
	}()
	switch {
	case res.panicked != "":
		viol("compile/panic/"+fam, "the front end panicked instead of returning a prototype or an error: "+res.panicked)
		return sigs, texts, rep.String()
	case res.parseErr != nil:
		c.reject(cs, "parse: "+c07ErrClass(res.parseErr))
		fmt.Fprintf(&rep, "rejected by the parser: %v\n", res.parseErr)
		return sigs, texts, rep.String()
	case res.compileErr != nil:
		c.reject(cs, "compile: "+c07ErrClass(res.compileErr))
		fmt.Fprintf(&rep, "rejected by the compiler: %v\n", res.compileErr)
		return sigs, texts, rep.String()
	}
	accepted = true
	np, nw := bcverify.Count(res.proto)
	atomic.AddInt64(&c.protos, int64(np))
	atomic.AddInt64(&c.words, int64(nw))
	issues := bcverify.Verify(res.proto)
	seenClass := map[string]bool{}
	for _, is := range issues {
		if seenClass[is.Class] {
			continue
		}
		seenClass[is.Class] = true
		is := is
		violf(is.Class, func() string {
			ctx := ""
			if p := c07FindProto(res.proto, is.Proto); p != nil && is.Pc >= 0 {
				ctx = "\n" + bcverify.Disasm(p, is.Pc-3, is.Pc+3) + fmt.Sprintf("(NumUsedRegisters=%d NumParameters=%d NumUpvalues=%d IsVarArg=%d len(Code)=%d len(Constants)=%d)",
					p.NumUsedRegisters, p.NumParameters, p.NumUpvalues, p.IsVarArg, len(p.Code), len(p.Constants))
			}
			return is.String() + ctx
		})
	}
	c.st.mu.Lock()
	c.st.accepted[fam]++
	for k := range seenClass {
		c.st.classes[k]++
	}
	c.st.mu.Unlock()

	if !cs.Exec {
		return sigs, texts, rep.String()
	}
	exSig := cs.ExSig
	if fam == "longjump" {
		// a displacement that did not fit sBx (reported by the verifier) explains a failing run
		exSig += "/inrange"
		for k := range seenClass {
			if strings.HasPrefix(k, "jump/wrapped/") {
				exSig = cs.ExSig + "/wrapped"
			}
		}
	}
	budget := cs.Budget
	if budget == 0 {
		budget = 200000
	}
	out := w.run(res.proto, budget)
	atomic.AddInt64(&c.executed, 1)
	switch {
	case out.goPanic != "":
		how := "contained by PCall"
		if out.escaped {
			how = "NOT contained by PCall"
		}
		viol("exec/go-panic/"+exSig, fmt.Sprintf("running the compiled chunk raised a Go run-time panic (%s): %s", how, c07Short(out.goPanic, 300)))
	case out.overrun:
		atomic.AddInt64(&c.overruns, 1)
		if cs.Expect != nil {
			viol("exec/mismatch/"+exSig, fmt.Sprintf("the program did not finish within %d VM instructions; it terminates by construction", budget))
		}
	case out.err != nil:
		atomic.AddInt64(&c.luaErrors, 1)
		if cs.Expect != nil {
			viol("exec/mismatch/"+exSig, "the program raised an error; it is error-free by construction: "+c07Short(out.err.Error(), 300))
		}
	default:
		if cs.Expect != nil {
			atomic.AddInt64(&c.predicted, 1)
			if d := cs.Expect(w.L, out.rets); d != "" {
				viol("exec/mismatch/"+exSig, "result differs from the value computed in Go: "+d)
			}
		}
	}
	w.L.SetTop(0)
	return sigs, texts, rep.String()
}

func (c *c07Ctx) reject(cs *c07Case, why string) {
	c.st.mu.Lock()
	defer c.st.mu.Unlock()
	fam := cs.ID.Family
	c.st.rejects[fam+" | "+why]++
	// smallest rejected member per (family, variant): ids are (variant, k) or (k, ...) lists
	key := fam
	if len(cs.ID.P) == 2 {
		key = fmt.Sprintf("%s/variant-%d", fam, cs.ID.P[0])
	}
	cur, ok := c.st.firstRejID[key]
	if !ok || c07LessID(cs.ID, cur) {
		c.st.firstRejID[key] = cs.ID
		c.st.firstRej[key] = cs.ID.String() + " (" + why + ")"
	}
}

// c07LessCase orders cases simplest first: shorter parameter lists, then smaller parameters.
func c07LessCase(a, b c07ID) bool {
	if a.Family != b.Family {
		return a.Family < b.Family
	}
	if len(a.P) != len(b.P) {
		return len(a.P) < len(b.P)
	}
	// the size parameter first where the family has one in a later position
	ka, kb := c07SizeOf(a), c07SizeOf(b)
	if ka != kb {
		return ka < kb
	}
	return c07LessID(a, b)
}

func c07SizeOf(id c07ID) int {
	switch id.Family {
	case "locals", "params", "upvalues", "consts", "moves", "nest", "longjump", "limits":
		if len(id.P) == 2 {
			return id.P[1]
		}
	case "ctor":
		if len(id.P) == 3 {
			return id.P[0]
		}
	}
	return 0
}

func c07LessID(a, b c07ID) bool {
	for i := 0; i < len(a.P) && i < len(b.P); i++ {
		if a.P[i] != b.P[i] {
			return a.P[i] < b.P[i]
		}
	}
	if len(a.P) != len(b.P) {
		return len(a.P) < len(b.P)
	}
	return a.Name < b.Name
}

// ---- driver -----------------------------------------------------------------------------------------

func runC07(r *harness.Run) {
	thorough := r.Thorough()
	seqLen := 3
	if thorough {
		seqLen = 5
	}
	r.Rule = fmt.Sprintf("compile every program of the corpus and run the structural verifier (internal/bcverify, written from opcode.go/vm.go) over every prototype, nested ones included; "+
		"corpus = every .lua file under _glua-tests and _lua5.1-tests + boundary families over their whole windows (k locals 0..205 in 5 layouts; k parameters in 3 layouts; k upvalues in {1,59,60,61,199,200,254,255,256,257,300} from two enclosing functions; "+
		"k constants in 250..260 and 510..514 in 6 uses; constructors with k positional items in {0..3,49..51,99..101,25549..25552} x 4 keyed-field patterns x 4 tails; nesting depth 1..60 of %d constructs; loop/branch bodies of N instructions around the sBx limit in %d shapes) "+
		"+ every sequence of <= %d statements drawn from %d kinds placed in each of %d block positions; predictable programs are executed under PCall and compared with a value computed in Go, all executed programs are watched for Go panics; "+
		"a case is non-trivial when the front end accepted it and its prototypes were verified; distinct = distinct case identities",
		len(c07NestKinds), len(c07JumpKinds), seqLen, len(c07StmtKinds), len(c07Positions))
	r.Assumptions = []string{
		"register rule is judged per (opcode, operand role); roles whose operands already exceed NumUsedRegisters on the unchanged tree are recorded known findings (patchCode under-computes the count), every other role and any register >= 256 is a violation",
		"a program rejected by the front end is not judged (the property quantifies over accepted texts); rejections are counted per family in the evidence",
		"behaviour near 2^18 constants is not exercised (ConstIndex is quadratic)",
		"execution oracle: only results that follow from the Lua 5.1 manual by construction (sums, table contents, lengths that are unique borders); a run that raises a Lua error or exhausts its instruction budget is a mismatch only for programs with a predicted result",
	}
	c07InstallHook()
	r.Count("verifier_rules_self_tested_on_damaged_prototypes", int64(c07SelfTest()))

	st := &c07Stats{classes: map[string]int64{}, rejects: map[string]int64{}, firstRej: map[string]string{}, firstRejID: map[string]c07ID{}, accepted: map[string]int64{}}
	c := &c07Ctx{r: r, st: st}

	nw := harness.Workers()
	workers := make([]*c07Worker, nw)
	for i := range workers {
		workers[i] = &c07Worker{}
		workers[i].fresh()
	}

	// own deadline: a fraction of the harness budget, so that the run ends well inside the tier limit
	frac := 0.55 // quick: 100 s harness budget -> stop starting work after 55 s
	if thorough {
		frac = 0.75
	}
	stopAt := time.Now().Add(time.Duration(float64(time.Until(r.Deadline)) * frac))
	var expired int32
	isExpired := func() bool {
		if atomic.LoadInt32(&expired) != 0 {
			return true
		}
		if time.Now().After(stopAt) {
			atomic.StoreInt32(&expired, 1)
			return true
		}
		return false
	}
	phase := map[string]float64{}
	r.Extra["phase_seconds(informative)"] = phase

	runIDs := func(ids []c07ID, chunk int) (done bool) {
		n := (len(ids) + chunk - 1) / chunk
		harness.ParallelShards(n, func(wi, shard int) {
			w := workers[wi]
			for i := shard * chunk; i < (shard+1)*chunk && i < len(ids); i++ {
				if isExpired() {
					return
				}
				cs := c07Make(ids[i])
				if cs == nil {
					harness.Fatal("c07: cannot build case %v", ids[i])
				}
				c.check(w, cs, false)
			}
		})
		return !isExpired()
	}

	// 1. repository scripts and boundary families
	t0 := time.Now()
	ids := c07EnumerateSmall(thorough)
	if !runIDs(ids, 16) {
		r.NotExhaustive("deadline reached inside the boundary families")
	}
	r.Count("cases_boundary_families_and_files", int64(len(ids)))
	phase["boundary_families_and_files"] = time.Since(t0).Seconds()

	// 2. the long-jump family (large sources, one per shard)
	t0 = time.Now()
	big := c07EnumerateBig(thorough)
	if !runIDs(big, 1) {
		r.NotExhaustive("deadline reached inside the long-jump family")
	}
	r.Count("cases_long_jump", int64(len(big)))
	phase["long_jump"] = time.Since(t0).Seconds()

	// 3. the exhaustive statement-sequence family, one length after the other so that a deadline
	// leaves whole lengths covered; a shard is (position, first two kinds)
	t0 = time.Now()
	nk := len(c07StmtKinds)
	var seqCases int64
	lengthsDone := -1
	for length := 0; length <= seqLen; length++ {
		type shardT struct {
			pos    int
			prefix []int
		}
		var shards []shardT
		pl := length
		if pl > 2 {
			pl = 2
		}
		for pos := range c07Positions {
			var gen func(pre []int)
			gen = func(pre []int) {
				if len(pre) == pl {
					shards = append(shards, shardT{pos, append([]int(nil), pre...)})
					return
				}
				for k := 0; k < nk; k++ {
					gen(append(pre, k))
				}
			}
			gen(nil)
		}
		harness.ParallelShards(len(shards), func(wi, si int) {
			w := workers[wi]
			sh := shards[si]
			var n int64
			seq := append(make([]int, 0, length), sh.prefix...)
			var rec func()
			rec = func() {
				if len(seq) == length {
					if isExpired() {
						return
					}
					id := c07ID{Family: "seq", P: append([]int{sh.pos}, seq...)}
					if cs := c07Make(id); cs != nil { // nil: not placeable (break outside a loop)
						c.check(w, cs, false)
						n++
					}
					return
				}
				for k := 0; k < nk; k++ {
					seq = append(seq, k)
					rec()
					seq = seq[:len(seq)-1]
				}
			}
			rec()
			atomic.AddInt64(&seqCases, n)
		})
		if isExpired() {
			r.NotExhaustive(fmt.Sprintf("deadline reached inside statement sequences of length %d (all lengths <= %d are complete)", length, lengthsDone))
			break
		}
		lengthsDone = length
	}
	r.Count("cases_statement_sequences", seqCases)
	r.Extra["sequence_lengths_completed"] = lengthsDone
	phase["statement_sequences"] = time.Since(t0).Seconds()

	// hand every signature to the harness once, from the smallest case that shows it
	merged := map[string]*c07Found{}
	for _, w := range workers {
		for sig, f := range w.found {
			m := merged[sig]
			if m == nil {
				merged[sig] = &c07Found{id: f.id, n: f.n}
				continue
			}
			m.n += f.n
			if c07LessCase(f.id, m.id) {
				m.id = f.id
			}
		}
	}
	var allSigs []string
	for sig := range merged {
		allSigs = append(allSigs, sig)
	}
	sort.Strings(allSigs)
	sigCases := map[string]int64{}
	rc := &c07Ctx{st: &c07Stats{classes: map[string]int64{}, rejects: map[string]int64{}, firstRej: map[string]string{}, firstRejID: map[string]c07ID{}, accepted: map[string]int64{}}}
	for _, sig := range allSigs {
		f := merged[sig]
		sigCases[sig] = f.n
		cs := c07Make(f.id)
		rw := &c07Worker{}
		rw.fresh()
		_, texts, _ := rc.check(rw, cs, true)
		c07States.Delete(rw.L)
		what, ok := texts[sig]
		if !ok {
			what = "shown during the run; not shown when the single case is re-run on a fresh state for this report (depends on the cases run before it on the same state)"
		}
		r.Violation(sig, fmt.Sprintf("smallest of %d cases: %s (%s)\n%s\nsource: %s", f.n, cs.ID, cs.Note, what, c07Short(cs.Src, 700)),
			map[string]interface{}{"id": cs.ID, "signature": sig, "cases": f.n})
	}
	r.Extra["cases_per_signature"] = sigCases

	r.Count("prototypes_verified", c.protos)
	r.Count("code_words_verified", c.words)
	r.Count("programs_executed", c.executed)
	r.Count("programs_with_predicted_result_compared", c.predicted)
	r.Count("executed_programs_raising_a_lua_error", c.luaErrors)
	r.Count("executed_programs_over_instruction_budget", c.overruns)
	r.Extra["issue_classes_seen(programs)"] = st.classes
	r.Extra["rejected_by_front_end"] = st.rejects
	r.Extra["first_rejected_member_per_family"] = st.firstRej
	acc := map[string]int64{}
	var total int64
	for k, v := range st.accepted {
		acc[k] = v
		total += v
	}
	r.Extra["accepted_programs_per_family"] = acc
	r.Count("programs_accepted", total)
	r.Extra["sequence_length_bound"] = seqLen
	cl := make([]string, 0, len(st.classes))
	for k := range st.classes {
		cl = append(cl, k)
	}
	sort.Strings(cl)
	r.Extra["distinct_issue_classes"] = cl
	// the program families of C01-C04, C05 (error values) and C17: compile and verify
	c07ProgramFamilies(r)
}

// ---- replay -----------------------------------------------------------------------------------------

func replayC07(raw json.RawMessage) (bool, string) {
	var rec struct {
		ID  c07ID  `json:"id"`
		Sig string `json:"signature"`
	}
	if err := json.Unmarshal(raw, &rec); err != nil {
		return true, "bad replay record: " + err.Error()
	}
	cs := c07Make(rec.ID)
	if cs == nil {
		return true, "case cannot be rebuilt: " + rec.ID.String()
	}
	c07InstallHook()
	w := &c07Worker{}
	w.fresh()
	c := &c07Ctx{st: &c07Stats{classes: map[string]int64{}, rejects: map[string]int64{}, firstRej: map[string]string{}, firstRejID: map[string]c07ID{}, accepted: map[string]int64{}}}
	sigs, _, report := c.check(w, cs, true)
	for _, s := range sigs {
		if s == rec.Sig {
			return false, fmt.Sprintf("case %s reproduces %s\n%s\nsource: %s", rec.ID, rec.Sig, report, c07Short(cs.Src, 1500))
		}
	}
	return true, fmt.Sprintf("case %s no longer shows %s\n%s", rec.ID, rec.Sig, report)
}

// ---- repository scripts ---------------------------------------------------------------------------

func c07ScriptFiles() []string {
	var out []string
	for _, d := range []string{"_glua-tests", "_lua5.1-tests"} {
		root := filepath.Join(c07RepoDir(), d)
		filepath.Walk(root, func(p string, info os.FileInfo, err error) error {
			if err == nil && !info.IsDir() && strings.HasSuffix(p, ".lua") {
				rel, _ := filepath.Rel(c07RepoDir(), p)
				out = append(out, rel)
			}
			return nil
		})
	}
	sort.Strings(out)
	return out
}
