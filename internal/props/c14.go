package props

// C14 — Lua patterns match as the 5.1 matcher does; bad patterns are errors, not crashes.
//
// Bounded exhaustive enumeration of (pattern, subject, init / replacement / limit) tuples. Every
// tuple is run on gopher-lua twice — pm.Find directly and string.find/match/gmatch/gsub through
// precompiled Lua functions on a reused LState — and compared with internal/refs/lstrlib, a
// line-by-line Go port of PUC-Rio Lua 5.1.4's lstrlib.c that shares no code with /repo/pm.
//
// Oracle:
//   reference returns normally, pattern well-formed and its meaning defined by the manual
//       => identical results (extents, captures, position captures as numbers, gsub string+count);
//   reference raises (malformed pattern / replacement)
//       => gopher-lua raises a Lua error or reports "no match";
//   pattern statically malformed but the reference did not reach the defect
//       => gopher-lua raises a Lua error, or equals the reference;
//   always: no Go panic (neither escaping pm.Find nor converted by PCall), no hang.

import (
	"fmt"
	"os"
	"sort"
	"strconv"
	"strings"
	"sync"
	"sync/atomic"
	"time"

	lua "github.com/yuin/gopher-lua"
	"github.com/yuin/gopher-lua/pm"

	"verif/internal/harness"
	"verif/internal/refs/lstrlib"
)

func init() {
	harness.Register("C14", "exploration", runC14)
	harness.RegisterReplay("C14", replayC14)
}

// ---- alphabets --------------------------------------------------------------------------------

const c14PatAlpha = "ab.%*+-?^$()[]1ds" // 17 symbols (DESIGN §4 C14)
const c14SubAlpha = "ab1 ("
const c14ReplAlpha = "x%012"

// c14Strings returns all strings over alpha with length <= maxLen, shortest first.
func c14Strings(alpha string, maxLen int) []string {
	out := []string{""}
	prev := []string{""}
	for l := 1; l <= maxLen; l++ {
		next := make([]string, 0, len(prev)*len(alpha))
		for _, p := range prev {
			for i := 0; i < len(alpha); i++ {
				next = append(next, p+alpha[i:i+1])
			}
		}
		out = append(out, next...)
		prev = next
	}
	return out
}

// c14CountUpTo is the number of strings of length <= n over an alphabet of k symbols.
func c14CountUpTo(k, n int) int {
	t, p := 0, 1
	for i := 0; i <= n; i++ {
		t += p
		p *= k
	}
	return t
}

// c14NthString is the idx-th string (shortest first, then lexicographic in alphabet order).
func c14NthString(alpha string, idx int) string {
	k := len(alpha)
	l, p := 0, 1
	for idx >= p {
		idx -= p
		p *= k
		l++
	}
	b := make([]byte, l)
	for i := l - 1; i >= 0; i-- {
		b[i] = alpha[idx%k]
		idx /= k
	}
	return string(b)
}

// ---- canonical rendering ----------------------------------------------------------------------

func c14AppendStr(b []byte, s string) []byte {
	b = append(b, '$')
	for i := 0; i < len(s); i++ {
		if s[i] == '|' || s[i] == '\\' {
			b = append(b, '\\')
		}
		b = append(b, s[i])
	}
	return append(b, '|')
}

func c14AppendNum(b []byte, f float64) []byte {
	b = append(b, '#')
	if f == float64(int64(f)) && f > -1e14 && f < 1e14 {
		b = strconv.AppendInt(b, int64(f), 10)
	} else {
		b = strconv.AppendFloat(b, f, 'g', 14, 64)
	}
	return append(b, '|')
}

func c14AppendLV(b []byte, v lua.LValue) []byte {
	switch x := v.(type) {
	case lua.LString:
		return c14AppendStr(b, string(x))
	case lua.LNumber:
		return c14AppendNum(b, float64(x))
	case *lua.LNilType:
		return append(b, 'z', '|')
	case lua.LBool:
		if x {
			return append(b, 't', '|')
		}
		return append(b, 'f', '|')
	}
	b = append(b, '?')
	b = append(b, v.Type().String()...)
	return append(b, '|')
}

func c14AppendRV(b []byte, v lstrlib.Value) []byte {
	switch v.Kind {
	case 's':
		return c14AppendStr(b, v.Str)
	case 'n':
		return c14AppendNum(b, v.Num)
	case 'z':
		return append(b, 'z', '|')
	case 'f':
		return append(b, 'f', '|')
	case 't':
		return append(b, 't', '|')
	}
	return append(b, '?', '|')
}

func c14RenderRVs(vs []lstrlib.Value) string {
	var b []byte
	for _, v := range vs {
		b = c14AppendRV(b, v)
	}
	return string(b)
}

// a match as seen at the pm.Find level: "start,end;" then per capture "P<pos>;" or "start,end;"
func c14AppendRefMatch(b []byte, m *lstrlib.Match) []byte {
	b = strconv.AppendInt(b, int64(m.Start), 10)
	b = append(b, ',')
	b = strconv.AppendInt(b, int64(m.End), 10)
	b = append(b, ';')
	for _, c := range m.Caps {
		if c.Unfinished {
			b = append(b, 'U', ';')
		} else if c.IsPos {
			b = append(b, 'P')
			b = strconv.AppendInt(b, int64(c.Pos), 10)
			b = append(b, ';')
		} else {
			b = strconv.AppendInt(b, int64(c.Start), 10)
			b = append(b, ',')
			b = strconv.AppendInt(b, int64(c.End), 10)
			b = append(b, ';')
		}
	}
	return append(b, '/')
}

func c14AppendPmMatch(b []byte, md *pm.MatchData) []byte {
	n := md.CaptureLength()
	if n < 2 {
		return append(b, "short-capture-vector/"...)
	}
	for i := 0; i+1 < n; i += 2 {
		if i >= 2 && md.IsPosCapture(i) {
			b = append(b, 'P')
			b = strconv.AppendInt(b, int64(md.Capture(i)), 10)
			b = append(b, ';')
		} else {
			b = strconv.AppendInt(b, int64(md.Capture(i)), 10)
			b = append(b, ',')
			b = strconv.AppendInt(b, int64(md.Capture(i+1)), 10)
			b = append(b, ';')
		}
	}
	if n%2 == 1 {
		b = append(b, "odd-capture-vector;"...)
	}
	return append(b, '/')
}

// ---- per-worker implementation driver ---------------------------------------------------------

type c14Worker struct {
	L *lua.LState

	fFind2, fFind3, fMatch2, fMatch3 *lua.LFunction
	fGmatchFor, fGmatchDirect        *lua.LFunction
	fGsub3, fGsub4                   *lua.LFunction

	replTab   *lua.LTable
	replFnStr *lua.LFunction // Go function: renders its arguments
	replFnLua *lua.LFunction // Lua closure: returns its first argument doubled (string) / +0.5 (number)
	replFnNum *lua.LFunction // returns the number of arguments (a number)
	replFnF   *lua.LFunction // returns false
	replFnNil *lua.LFunction // returns nothing

	emit []byte // values emitted by the running Lua function
	buf  []byte

	nPm, nFind, nMatch, nGmatch, nGsub int64 // calls made, by API

	seq   uint64       // number of pairs started (watchdog)
	cur   atomic.Value // description of the pair being run
	tuple int64
}

const c14LuaSrc = `
local find, match, gmatch, gsub = string.find, string.match, string.gmatch, string.gsub
return
  function(s, p) return find(s, p) end,
  function(s, p, i) return s:find(p, i) end,
  function(s, p) return s:match(p) end,
  function(s, p, i) return match(s, p, i) end,
  function(s, p)
    for a, b, c, d, e in gmatch(s, p) do emit(a, b, c, d, e) end
  end,
  function(s, p)
    local f = gmatch(s, p)
    while true do
      local a, b, c, d, e = f()
      if a == nil then break end
      emit(a, b, c, d, e)
    end
  end,
  function(s, p, r) return gsub(s, p, r) end,
  function(s, p, r, n) return s:gsub(p, r, n) end,
  function(a) if type(a) == "number" then return a + 0.5 end return a .. a end
`

func newC14Worker() *c14Worker {
	w := &c14Worker{}
	w.L = lua.NewState()
	L := w.L
	L.SetGlobal("emit", L.NewFunction(func(L *lua.LState) int {
		// trailing nils are loop variables without a capture: drop them
		top := L.GetTop()
		for top > 0 && L.Get(top) == lua.LNil {
			top--
		}
		for i := 1; i <= top; i++ {
			w.emit = c14AppendLV(w.emit, L.Get(i))
		}
		w.emit = append(w.emit, '/')
		return 0
	}))
	if err := L.DoString(c14LuaSrc); err != nil {
		harness.Fatal("c14: loading the Lua drivers: %v", err)
	}
	fn := func(i int) *lua.LFunction {
		f, ok := L.Get(i).(*lua.LFunction)
		if !ok {
			harness.Fatal("c14: Lua driver %d missing", i)
		}
		return f
	}
	w.fFind2, w.fFind3, w.fMatch2, w.fMatch3 = fn(1), fn(2), fn(3), fn(4)
	w.fGmatchFor, w.fGmatchDirect, w.fGsub3, w.fGsub4 = fn(5), fn(6), fn(7), fn(8)
	w.replFnLua = fn(9)
	L.SetTop(0)

	w.replTab = L.NewTable()
	for k, v := range c14ReplTabStr {
		w.replTab.RawSetString(k, c14RVtoLV(v))
	}
	for k, v := range c14ReplTabNum {
		w.replTab.RawSetInt(k, c14RVtoLV(v))
	}
	w.replFnStr = L.NewFunction(func(L *lua.LState) int {
		b := []byte{'<'}
		for i := 1; i <= L.GetTop(); i++ {
			b = c14AppendLV(b, L.Get(i))
		}
		b = append(b, '>')
		L.Push(lua.LString(string(b)))
		return 1
	})
	w.replFnNum = L.NewFunction(func(L *lua.LState) int { L.Push(lua.LNumber(L.GetTop())); return 1 })
	w.replFnF = L.NewFunction(func(L *lua.LState) int { L.Push(lua.LFalse); return 1 })
	w.replFnNil = L.NewFunction(func(L *lua.LState) int { return 0 })
	w.cur.Store("")
	return w
}

// replacement table shared by the reference and the implementation
var c14ReplTabStr = map[string]lstrlib.Value{
	"a": lstrlib.Str("X"), "b": lstrlib.False(), "ab": lstrlib.Num(7), "": lstrlib.Str("E"), "1": lstrlib.Str("one"),
	" ": lstrlib.Str(""), "aa": lstrlib.Float(2.5), "(": lstrlib.Str("%1"),
}
var c14ReplTabNum = map[int]lstrlib.Value{1: lstrlib.Str("P1"), 2: lstrlib.Num(22), 3: lstrlib.False()}

func c14RVtoLV(v lstrlib.Value) lua.LValue {
	switch v.Kind {
	case 's':
		return lua.LString(v.Str)
	case 'n':
		return lua.LNumber(v.Num)
	case 'f':
		return lua.LFalse
	case 't':
		return lua.LTrue
	}
	return lua.LNil
}

type c14Got struct {
	out      string
	err      error
	panicked bool
}

// call runs fn under PCall and renders its results (and whatever it emitted).
func (w *c14Worker) call(fn *lua.LFunction, args ...lua.LValue) (g c14Got) {
	L := w.L
	w.emit = w.emit[:0]
	base := L.GetTop()
	defer func() {
		if r := recover(); r != nil { // a panic PCall did not contain
			g = c14Got{err: fmt.Errorf("GO PANIC escaped PCall: %v", r), panicked: true}
			L.SetTop(base)
		}
	}()
	L.Push(fn)
	for _, a := range args {
		L.Push(a)
	}
	err := L.PCall(len(args), lua.MultRet, nil)
	if err != nil {
		L.SetTop(base)
		if ae, ok := err.(*lua.ApiError); ok && ae.Type == lua.ApiErrorPanic {
			return c14Got{err: err, panicked: true}
		}
		return c14Got{err: err}
	}
	b := w.buf[:0]
	b = append(b, w.emit...)
	for i := base + 1; i <= L.GetTop(); i++ {
		b = c14AppendLV(b, L.Get(i))
	}
	w.buf = b
	L.SetTop(base)
	return c14Got{out: string(b)}
}

// pmFind calls pm.Find directly.
func c14PmFind(p string, s []byte, off, limit int) (g c14Got) {
	defer func() {
		if r := recover(); r != nil {
			g = c14Got{err: fmt.Errorf("GO PANIC escaped pm.Find: %v", r), panicked: true}
		}
	}()
	mds, err := pm.Find(p, s, off, limit)
	if err != nil {
		return c14Got{err: err}
	}
	var b []byte
	for _, md := range mds {
		b = c14AppendPmMatch(b, md)
	}
	return c14Got{out: string(b)}
}

// ---- the judge --------------------------------------------------------------------------------

type c14Ctx struct {
	r *harness.Run

	outcomes sync.Map // distinct canonical outcomes observed (bounded)
	nOutcome int64

	sink func(sig, what string, cs c14Case) // replay mode: collect instead of recording in the run
}

var c14Debug = os.Getenv("VERIF_C14_DEBUG") != ""
var c14DbgMu sync.Mutex
var c14DbgCount = map[string]int{}
var c14DbgFirst = map[string]string{}
var c14DbgLen = map[string]int{}

func c14DebugDump() {
	if !c14Debug {
		return
	}
	var keys []string
	for k := range c14DbgCount {
		keys = append(keys, k)
	}
	sort.Strings(keys)
	for _, k := range keys {
		fmt.Fprintf(os.Stderr, "DBG %7d %s\n            %s\n", c14DbgCount[k], k, c14DbgFirst[k])
	}
}

func (c *c14Ctx) report(sig, what string, cs c14Case) {
	if c14Debug {
		c14DbgMu.Lock()
		c14DbgCount[sig]++
		ex := fmt.Sprintf("%s p=%q s=%q init=%s lim=%s repl=%q exp=%s got=%.80s", cs.API, cs.Pattern, cs.Subject, c14OptInt(cs.Init), c14OptInt(cs.Limit), cs.Repl, cs.Ref, cs.Got)
		if old, ok := c14DbgFirst[sig]; !ok || len(cs.Pattern)+len(cs.Subject) < c14DbgLen[sig] {
			_ = old
			c14DbgFirst[sig] = ex
			c14DbgLen[sig] = len(cs.Pattern) + len(cs.Subject)
		}
		c14DbgMu.Unlock()
	}
	if c.sink != nil {
		c.sink(sig, what, cs)
		return
	}
	c.r.Violation(sig, what, cs)
}

type c14Case struct {
	API     string `json:"api"` // pm.Find | find | match | gmatch | gmatch-direct | gsub
	Pattern string `json:"pattern"`
	Subject string `json:"subject"`
	Init    *int   `json:"init,omitempty"`  // find/match: Lua init argument; pm.Find: 0-based offset
	Limit   *int   `json:"limit,omitempty"` // pm.Find limit; gsub argument 4
	Repl    string `json:"repl,omitempty"`  // gsub: "s:<string>" | "table" | "fn:str|lua|num|false|nil"
	Ref     string `json:"expected,omitempty"`
	Got     string `json:"actual,omitempty"`
}

func c14Feat(in *lstrlib.Info) string {
	var f []string
	if in.Anchored {
		f = append(f, "^")
	}
	if in.TailAnchor {
		f = append(f, "$")
	}
	if n := in.NCaptures - in.PosCaptures; n > 0 {
		f = append(f, "cap")
	}
	if in.PosCaptures > 0 {
		f = append(f, "pos")
	}
	if in.BackrefToOpen {
		f = append(f, "brefopen")
	}
	if in.BackrefToPos {
		f = append(f, "brefpos")
	} else if in.Backrefs > 0 {
		f = append(f, "bref")
	}
	if in.Balances > 0 {
		f = append(f, "bal")
	}
	if in.RangeToDash {
		f = append(f, "set[x--]")
	} else if in.Sets > 0 {
		f = append(f, "set")
	}
	if in.Stars > 0 {
		f = append(f, "*")
	}
	if in.Pluses > 0 {
		f = append(f, "+")
	}
	if in.Lazies > 0 {
		f = append(f, "-")
	}
	if in.Opts > 0 {
		f = append(f, "?")
	}
	if len(f) == 0 {
		return "plain"
	}
	return strings.Join(f, ",")
}

// judge applies the oracle to one call. refOut/refErr: the reference; noMatch: the canonical
// "nothing matched" result of this API; alt: a second acceptable result ("" = none).
func (c *c14Ctx) judge(api, variant string, in *lstrlib.Info, replBad bool, refOut string, refErr *lstrlib.Error, got c14Got, noMatch, alt string, mk func() c14Case) {
	viol := func(kind string, why string) {
		cs := mk()
		cs.Ref = refOut
		if refErr != nil {
			cs.Ref = "error: " + refErr.Msg
		}
		cs.Got = got.out
		if got.err != nil {
			cs.Got = "error: " + got.err.Error()
		}
		sig := api + "/" + kind + "/" + variant + "/" + c14Feat(in)
		c.report(sig, fmt.Sprintf("%s: %s pattern=%q subject=%q init=%s limit=%s repl=%q\n expected %s\n actual   %s", why, cs.API, cs.Pattern, cs.Subject,
			c14OptInt(cs.Init), c14OptInt(cs.Limit), cs.Repl, cs.Ref, cs.Got), cs)
	}
	switch {
	case got.panicked:
		viol("go-panic", "Go run-time panic inside the matcher / string library")
	case refErr != nil:
		if in.Malformed == "" && in.Unspecified == "" && !replBad {
			harness.Fatal("c14: reference raised %q on a pattern classified well-formed: %+v", refErr.Msg, mk())
		}
		if got.err == nil && got.out != noMatch && in.Unspecified == "" {
			viol("malformed-accepted", "malformed pattern/replacement (reference raises \""+refErr.Msg+"\") produced a result")
		}
	case got.err != nil:
		if in.Malformed == "" && in.Unspecified == "" {
			viol("spurious-error", "error on a well-formed pattern")
		}
	case in.Unspecified != "":
		// meaning not fixed by the manual: nothing to compare
	case got.out != refOut && (alt == "" || got.out != alt):
		if in.Malformed != "" {
			viol("malformed-mismatch", "statically malformed pattern neither rejected nor matched as the reference does")
		} else {
			viol("mismatch", "result differs from the reference matcher")
		}
	}
}

func c14OptInt(p *int) string {
	if p == nil {
		return "-"
	}
	return strconv.Itoa(*p)
}

func c14IntP(i int) *int { return &i }

// ---- reference helpers ------------------------------------------------------------------------

// c14RefScan: the reference result of "first match at or after offset off" in pm.Find's terms.
func c14RefScan(s, p string, off int) (string, *lstrlib.Error) {
	m, err := lstrlib.Scan(s, p, off)
	if err != nil {
		return "", err
	}
	if m == nil {
		return "", nil
	}
	return string(c14AppendRefMatch(nil, m)), nil
}

var c14ReplIdentity = &lstrlib.Repl{Kind: 's', Str: ""}

// c14RefAll: the reference list of matches of a gsub-style scan (anchor honoured) with a limit
// (limit < 0: unlimited).
func c14RefAll(s, p string, limit int) (string, *lstrlib.Error) {
	hasMax := limit >= 0
	_, _, ms, err := lstrlib.Gsub(s, p, c14ReplIdentity, limit, hasMax)
	if err != nil {
		return "", err
	}
	var b []byte
	for i := range ms {
		for _, cp := range ms[i].Caps {
			if cp.Unfinished {
				return "", &lstrlib.Error{Msg: "unfinished capture"}
			}
		}
		b = c14AppendRefMatch(b, &ms[i])
	}
	return string(b), nil
}

// ---- what is run for one (pattern, subject) pair ------------------------------------------------

type c14GsubCall struct {
	repl  int // index into c14BasicRepls
	limit int // c14NoLimit or argument 4
}

type c14Plan struct {
	pmFind bool // pm.Find at every offset (limit 1) and with limit -1 from 0
	// string.find and string.match: 0 = not called, 1 = without init, 2 = without init and with
	// init 2 and -1, 3 = without init and with every init in [-len-1, len+2]
	luaFind   int
	gmatch    bool
	gsub      []c14GsubCall
	gsubRepls []string // additional replacement strings (no limit)
}

type c14Pat struct {
	p     string
	info  lstrlib.Info // anchor-aware (find, match, gsub, pm.Find)
	infoG lstrlib.Info // gmatch: '^' is an ordinary character in 5.1
}

func c14MkPat(p string) *c14Pat {
	return &c14Pat{p: p, info: lstrlib.Classify(p, true), infoG: lstrlib.Classify(p, false)}
}

func (c *c14Ctx) runPair(w *c14Worker, pt *c14Pat, s string, plan *c14Plan) (tuples int64) {
	p := pt.p
	in := &pt.info
	atomic.AddUint64(&w.seq, 1)
	w.cur.Store(p + "\x00" + s)
	sb := []byte(s)
	ls, lp, lsub := lua.LString(s), lua.LString(p), len(s)

	if plan.pmFind {
		for off := 0; off <= lsub; off++ {
			refOut, refErr := c14RefScan(s, p, off)
			got := c14PmFind(p, sb, off, 1)
			w.nPm++
			off := off
			c.judge("pm.Find", "limit1", in, false, refOut, refErr, got, "", "", func() c14Case {
				return c14Case{API: "pm.Find", Pattern: p, Subject: s, Init: c14IntP(off), Limit: c14IntP(1)}
			})
			tuples++
		}
		refOut, refErr := c14RefAll(s, p, -1)
		got := c14PmFind(p, sb, 0, -1)
		w.nPm++
		c.judge("pm.Find", "all", in, false, refOut, refErr, got, "", "", func() c14Case {
			return c14Case{API: "pm.Find", Pattern: p, Subject: s, Init: c14IntP(0), Limit: c14IntP(-1)}
		})
		tuples++
		c.outcome(refOut, refErr)
	}

	if plan.luaFind > 0 {
		for _, find := range []bool{true, false} {
			api := "match"
			f2, f3 := w.fMatch2, w.fMatch3
			cnt := &w.nMatch
			if find {
				api, f2, f3 = "find", w.fFind2, w.fFind3
				cnt = &w.nFind
			}
			// without init
			rv, refErr := lstrlib.Find(s, p, 1, false, find)
			got := w.call(f2, ls, lp)
			*cnt++
			if got.err == nil && got.out == "" {
				got.out = "z|" // string.match returning no value instead of nil is not judged
			}
			variant := "noinit"
			if p == "" {
				variant = "emptypat"
			}
			c.judge(api, variant, in, false, c14RenderRVs(rv), refErr, got, "z|", "", func() c14Case {
				return c14Case{API: api, Pattern: p, Subject: s}
			})
			tuples++
			if plan.luaFind < 2 {
				continue
			}
			for init := -lsub - 1; init <= lsub+2; init++ {
				if plan.luaFind == 2 && init != 2 && init != -1 {
					continue
				}
				rv, refErr := lstrlib.Find(s, p, init, false, find)
				got := w.call(f3, ls, lp, lua.LNumber(init))
				*cnt++
				if got.err == nil && got.out == "" {
					got.out = "z|"
				}
				alt := ""
				variant := "init"
				if init > lsub+1 {
					// 5.1.4 clamps init to len+1, 5.2+ fails; the 5.1 manual is silent: accept both
					alt = "z|"
					variant = "init>len+1"
				}
				if p == "" {
					variant = "emptypat"
				}
				init := init
				c.judge(api, variant, in, false, c14RenderRVs(rv), refErr, got, "z|", alt, func() c14Case {
					return c14Case{API: api, Pattern: p, Subject: s, Init: c14IntP(init)}
				})
				tuples++
			}
		}
	}

	if plan.gmatch {
		ing := &pt.infoG
		out, _, refErr := lstrlib.Gmatch(s, p, -1)
		var b []byte
		for _, vs := range out {
			for _, v := range vs {
				b = c14AppendRV(b, v)
			}
			b = append(b, '/')
		}
		got := w.call(w.fGmatchFor, ls, lp)
		w.nGmatch++
		api, variant := "gmatch", "for"
		if len(p) > 0 && p[0] == '^' && got.err == nil && !got.panicked && refErr == nil && got.out != string(b) {
			// 5.1 manual: "a '^' at the start of a pattern does not work as an anchor" in gmatch (lstrlib
			// takes it as an ordinary character). If the implementation's result is exactly what an
			// anchored single attempt at the start gives, classify it as that deviation.
			if rv, aerr := lstrlib.Find(s, p, 1, false, false); aerr == nil {
				anch := ""
				if !(len(rv) == 1 && rv[0].Kind == 'z') {
					anch = c14RenderRVs(rv) + "/"
				}
				if got.out == anch {
					variant = "caret-honoured-as-anchor"
				}
			}
		}
		c.judge(api, variant, ing, false, string(b), refErr, got, "", "", func() c14Case {
			return c14Case{API: "gmatch", Pattern: p, Subject: s}
		})
		tuples++
	}

	for _, gc := range plan.gsub {
		tuples += c.gsubOne(w, pt, s, ls, lp, &c14BasicRepls[gc.repl], gc.limit)
	}
	for _, rs := range plan.gsubRepls {
		rp := c14Repl{name: "s:" + rs, str: rs, kind: 's'}
		tuples += c.gsubOne(w, pt, s, ls, lp, &rp, c14NoLimit)
	}
	return tuples
}

const c14NoLimit = -1 << 30

// every basic replacement without limit; limits 0, 1, 2 with a string and a function
func c14GsubFull() []c14GsubCall {
	var out []c14GsubCall
	for i := range c14BasicRepls {
		out = append(out, c14GsubCall{i, c14NoLimit})
	}
	for _, lim := range []int{0, 1, 2} {
		out = append(out, c14GsubCall{0, lim}, c14GsubCall{4, lim})
	}
	return out
}

// one replacement of each kind, and one limit
func c14GsubLite() []c14GsubCall {
	return []c14GsubCall{{1, c14NoLimit}, {3, c14NoLimit}, {4, c14NoLimit}, {0, 1}}
}

type c14Repl struct {
	name string
	kind byte // 's', 't', 'f'
	str  string
	fn   string // str | lua | num | false | nil
}

var c14BasicRepls = []c14Repl{
	{name: "s:x", kind: 's', str: "x"},
	{name: "s:%0%1", kind: 's', str: "%0%1"},
	{name: "s:%2%%", kind: 's', str: "%2%%"},
	{name: "table", kind: 't'},
	{name: "fn:str", kind: 'f', fn: "str"},
	{name: "fn:lua", kind: 'f', fn: "lua"},
	{name: "fn:num", kind: 'f', fn: "num"},
	{name: "fn:false", kind: 'f', fn: "false"},
	{name: "fn:nil", kind: 'f', fn: "nil"},
}

func c14ParseRepl(name string) (c14Repl, bool) {
	if strings.HasPrefix(name, "s:") {
		return c14Repl{name: name, kind: 's', str: name[2:]}, true
	}
	for _, r := range c14BasicRepls {
		if r.name == name {
			return r, true
		}
	}
	return c14Repl{}, false
}

func (w *c14Worker) replValue(rp *c14Repl) lua.LValue {
	switch rp.kind {
	case 's':
		return lua.LString(rp.str)
	case 't':
		return w.replTab
	}
	switch rp.fn {
	case "str":
		return w.replFnStr
	case "lua":
		return w.replFnLua
	case "num":
		return w.replFnNum
	case "false":
		return w.replFnF
	}
	return w.replFnNil
}

func c14RefRepl(rp *c14Repl) *lstrlib.Repl {
	switch rp.kind {
	case 's':
		return &lstrlib.Repl{Kind: 's', Str: rp.str}
	case 't':
		return &lstrlib.Repl{Kind: 't', Index: func(k lstrlib.Value) lstrlib.Value {
			if k.Kind == 'n' {
				if v, ok := c14ReplTabNum[int(k.Num)]; ok && float64(int(k.Num)) == k.Num {
					return v
				}
				return lstrlib.Nil
			}
			if v, ok := c14ReplTabStr[k.Str]; ok {
				return v
			}
			return lstrlib.Nil
		}}
	}
	r := &lstrlib.Repl{Kind: 'f'}
	switch rp.fn {
	case "str":
		r.Call = func(a []lstrlib.Value) lstrlib.Value {
			b := []byte{'<'}
			for _, v := range a {
				b = c14AppendRV(b, v)
			}
			return lstrlib.Str(string(append(b, '>')))
		}
	case "lua":
		r.Call = func(a []lstrlib.Value) lstrlib.Value {
			if a[0].Kind == 'n' {
				return lstrlib.Float(a[0].Num + 0.5)
			}
			return lstrlib.Str(a[0].Str + a[0].Str)
		}
	case "num":
		r.Call = func(a []lstrlib.Value) lstrlib.Value { return lstrlib.Num(len(a)) }
	case "false":
		r.Call = func(a []lstrlib.Value) lstrlib.Value { return lstrlib.False() }
	default:
		r.Call = func(a []lstrlib.Value) lstrlib.Value { return lstrlib.Nil }
	}
	return r
}

func (c *c14Ctx) gsubOne(w *c14Worker, pt *c14Pat, s string, ls, lp lua.LString, rp *c14Repl, lim int) int64 {
	p := pt.p
	in := &pt.info
	rr := c14RefRepl(rp)
	res, n, _, refErr := lstrlib.Gsub(s, p, rr, lim, lim != c14NoLimit)
	refOut := ""
	if refErr == nil {
		refOut = string(c14AppendNum(c14AppendStr(nil, res), float64(n)))
	}
	var got c14Got
	w.nGsub++
	if lim == c14NoLimit {
		got = w.call(w.fGsub3, ls, lp, w.replValue(rp))
	} else {
		got = w.call(w.fGsub4, ls, lp, w.replValue(rp), lua.LNumber(lim))
	}
	noMatch := string(c14AppendNum(c14AppendStr(nil, s), 0))
	variant := "nolimit"
	if lim != c14NoLimit {
		variant = "limit" + strconv.Itoa(lim)
	}
	kind := "gsub-" + rp.name
	if rp.kind == 's' {
		kind = "gsub-str"
		if !lstrlib.ReplDefined(rp.str) {
			// "%x" / trailing "%": not defined by the 5.1 manual. Only crashes are judged.
			if got.panicked {
				c.judge(kind, variant+"/undefined-repl", in, true, "", nil, got, noMatch, "", func() c14Case {
					return c14Case{API: "gsub", Pattern: p, Subject: s, Repl: rp.name, Limit: c14LimP(lim)}
				})
			}
			return 1
		}
		variant += "/" + c14ReplShape(rp.str)
	}
	replBad := refErr != nil && in.Malformed == "" // the replacement, not the pattern, is at fault
	c.judge(kind, variant, in, replBad, refOut, refErr, got, noMatch, "", func() c14Case {
		return c14Case{API: "gsub", Pattern: p, Subject: s, Repl: rp.name, Limit: c14LimP(lim)}
	})
	return 1
}

func c14LimP(lim int) *int {
	if lim == c14NoLimit {
		return nil
	}
	return &lim
}

// c14ReplShape abstracts a replacement string: literal characters -> "L", %% -> "%", %n -> n.
func c14ReplShape(r string) string {
	var b []byte
	for i := 0; i < len(r); i++ {
		if r[i] == '%' && i+1 < len(r) {
			i++
			b = append(b, '%', r[i])
		} else if len(b) == 0 || b[len(b)-1] != 'L' {
			b = append(b, 'L')
		}
	}
	if len(b) == 0 {
		return "empty"
	}
	return string(b)
}

func (c *c14Ctx) outcome(out string, err *lstrlib.Error) {
	if atomic.LoadInt64(&c.nOutcome) > 200000 {
		return
	}
	k := out
	if err != nil {
		k = "E:" + err.Msg
	}
	if _, loaded := c.outcomes.LoadOrStore(k, struct{}{}); !loaded {
		atomic.AddInt64(&c.nOutcome, 1)
	}
}

// ---- watchdog ---------------------------------------------------------------------------------

// c14Watch reports a hang when a worker stays on the same pair for longer than limit. The pairs of
// the enumeration take microseconds; limit is tens of seconds.
func c14Watch(workers []*c14Worker, limit time.Duration, stop <-chan struct{}, hung chan<- string) {
	last := make([]uint64, len(workers))
	since := make([]time.Time, len(workers))
	for i := range since {
		since[i] = time.Now()
	}
	t := time.NewTicker(500 * time.Millisecond)
	defer t.Stop()
	for {
		select {
		case <-stop:
			return
		case <-t.C:
		}
		for i, w := range workers {
			s := atomic.LoadUint64(&w.seq)
			if s != last[i] || s == 0 {
				last[i], since[i] = s, time.Now()
				continue
			}
			if cur, _ := w.cur.Load().(string); cur != "" && time.Since(since[i]) > limit {
				hung <- cur
				return
			}
		}
	}
}
