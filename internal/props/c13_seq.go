package props

// C13, channel semantics at the level of the Lua operations, without a scheduler: explicit-state
// search over histories of send / receive / close / select (with default, two receive cases,
// receive+send, with handlers) performed strictly one after the other by two states that share two
// buffered channels (capacities 1 and 2). Only operations that cannot block are enabled, so every
// history is deterministic and no goroutine is involved. The oracle is a plain model of channels
// (a queue and a closed flag per channel); it looks at what the Lua operation returns, not at which
// Go primitive the library uses to get it - so an implementation that polls with TryRecv is judged
// exactly like one that calls reflect.Select. Complements the scheduler part, whose predictions
// are tied to the Go-level operations it intercepts.

import (
	"fmt"
	"strings"

	lua "github.com/yuin/gopher-lua"

	"verif/internal/harness"
)

type c13SeqModel struct {
	buf    [2][]int
	closed [2]bool
	cap    [2]int
}

func (m *c13SeqModel) recvReady(c int) bool { return len(m.buf[c]) > 0 || m.closed[c] }
func (m *c13SeqModel) sendReady(c int) bool { return m.closed[c] || len(m.buf[c]) < m.cap[c] }

var c13SeqOps = []string{"send1", "send2", "recv1", "recv2", "close1", "close2", "sel-r1-default", "sel-r1-default-h", "sel-default-r2", "sel-r1-r2", "sel-s1-default", "sel-r1-s2", "sel-r2-s1-default"}

const c13SeqLib = `
local function pack(...) local t = {...} for i = 1, select("#", ...) do t[i] = tostring(t[i]) end return table.concat(t, ",") end
local H = ""
local function hr(ok, v) H = H .. "hr(" .. tostring(ok) .. "," .. tostring(v) .. ")" end
local function hd() H = H .. "hd()" end
ops = {
  send1 = function(v) return pack(pcall(c1.send, c1, v)) end,
  send2 = function(v) return pack(pcall(c2.send, c2, v)) end,
  recv1 = function() return pack(c1:receive()) end,
  recv2 = function() return pack(c2:receive()) end,
  close1 = function() return pack(pcall(c1.close, c1)) end,
  close2 = function() return pack(pcall(c2.close, c2)) end,
  ["sel-r1-default"] = function() return pack(channel.select({"|<-", c1}, {"default"})) end,
  ["sel-r1-default-h"] = function() H = "" local r = pack(channel.select({"|<-", c1, hr}, {"default", hd})) return r .. ";" .. H end,
  ["sel-default-r2"] = function() return pack(channel.select({"default"}, {"|<-", c2})) end,
  ["sel-r1-r2"] = function() return pack(channel.select({"|<-", c1}, {"|<-", c2})) end,
  ["sel-s1-default"] = function(v) return pack(pcall(channel.select, {"<-|", c1, v}, {"default"})) end,
  ["sel-r1-s2"] = function(v) return pack(pcall(channel.select, {"|<-", c1}, {"<-|", c2, v})) end,
  ["sel-r2-s1-default"] = function(v) return pack(pcall(channel.select, {"|<-", c2}, {"<-|", c1, v}, {"default"})) end,
}
`

// c13SeqStep: is op enabled in m (cannot block, outcome defined)? If so, the admissible results and
// the successor model for each.
func c13SeqStep(m c13SeqModel, op string, v int) (results []string, next []c13SeqModel, enabled bool) {
	cp := func() c13SeqModel {
		n := m
		n.buf[0] = append([]int(nil), m.buf[0]...)
		n.buf[1] = append([]int(nil), m.buf[1]...)
		return n
	}
	recv := func(c int, idx int, form string) (string, c13SeqModel) {
		n := cp()
		if len(n.buf[c]) > 0 {
			x := n.buf[c][0]
			n.buf[c] = n.buf[c][1:]
			switch form {
			case "method":
				return fmt.Sprintf("true,%d", x), n
			case "handler":
				return fmt.Sprintf("%d,%d,true;hr(true,%d)", idx, x, x), n
			case "pcall":
				return fmt.Sprintf("true,%d,%d,true", idx, x), n
			}
			return fmt.Sprintf("%d,%d,true", idx, x), n
		}
		switch form {
		case "method":
			return "false,nil", n
		case "handler":
			return fmt.Sprintf("%d,nil,false;hr(false,nil)", idx), n
		case "pcall":
			return fmt.Sprintf("true,%d,nil,false", idx), n
		}
		return fmt.Sprintf("%d,nil,false", idx), n
	}
	send := func(c int) c13SeqModel {
		n := cp()
		n.buf[c] = append(n.buf[c], v)
		return n
	}
	switch op {
	case "send1", "send2":
		c := int(op[4] - '1')
		if m.closed[c] {
			return []string{"false,*"}, []c13SeqModel{cp()}, true
		}
		if len(m.buf[c]) >= m.cap[c] {
			return nil, nil, false
		}
		return []string{"true"}, []c13SeqModel{send(c)}, true
	case "recv1", "recv2":
		c := int(op[4] - '1')
		if !m.recvReady(c) {
			return nil, nil, false
		}
		r, n := recv(c, 0, "method")
		return []string{r}, []c13SeqModel{n}, true
	case "close1", "close2":
		c := int(op[5] - '1')
		if m.closed[c] {
			return []string{"false,*"}, []c13SeqModel{cp()}, true
		}
		n := cp()
		n.closed[c] = true
		return []string{"true"}, []c13SeqModel{n}, true
	case "sel-r1-default", "sel-r1-default-h":
		form := "plain"
		if strings.HasSuffix(op, "-h") {
			form = "handler"
		}
		if m.recvReady(0) {
			r, n := recv(0, 1, form)
			return []string{r}, []c13SeqModel{n}, true
		}
		if form == "handler" {
			return []string{"2,nil,false;hd()"}, []c13SeqModel{cp()}, true
		}
		return []string{"2,nil,false"}, []c13SeqModel{cp()}, true
	case "sel-default-r2":
		if m.recvReady(1) {
			r, n := recv(1, 2, "plain")
			return []string{r}, []c13SeqModel{n}, true
		}
		return []string{"1,nil,false"}, []c13SeqModel{cp()}, true
	case "sel-r1-r2":
		for c := 0; c < 2; c++ {
			if m.recvReady(c) {
				r, n := recv(c, c+1, "plain")
				results, next = append(results, r), append(next, n)
			}
		}
		return results, next, len(results) > 0
	case "sel-s1-default":
		if m.closed[0] {
			return []string{"false,*"}, []c13SeqModel{cp()}, true // a send case on a closed channel is ready and fails, as in Go
		}
		if len(m.buf[0]) < m.cap[0] {
			return []string{"true,1,nil,false"}, []c13SeqModel{send(0)}, true
		}
		return []string{"true,2,nil,false"}, []c13SeqModel{cp()}, true
	case "sel-r1-s2":
		if m.closed[1] {
			return nil, nil, false // a ready failing send next to a possibly ready receive: either may be picked
		}
		if m.recvReady(0) {
			r, n := recv(0, 1, "pcall")
			results, next = append(results, r), append(next, n)
		}
		if len(m.buf[1]) < m.cap[1] {
			results, next = append(results, "true,2,nil,false"), append(next, send(1))
		}
		return results, next, len(results) > 0
	case "sel-r2-s1-default":
		if m.closed[0] {
			return nil, nil, false
		}
		if m.recvReady(1) {
			r, n := recv(1, 1, "pcall")
			results, next = append(results, r), append(next, n)
		}
		if len(m.buf[0]) < m.cap[0] {
			results, next = append(results, "true,2,nil,false"), append(next, send(0))
		}
		if len(results) == 0 {
			return []string{"true,3,nil,false"}, []c13SeqModel{cp()}, true
		}
		return results, next, true
	}
	panic("c13 seq op " + op)
}

func c13SeqHistories(r *harness.Run) {
	depth := 4
	if r.Thorough() {
		depth = 5
	}
	type step struct {
		op    string
		state int
	}
	var menu []step
	for _, op := range c13SeqOps {
		for st := 0; st < 2; st++ {
			menu = append(menu, step{op, st})
		}
	}
	// level-1 prefixes are the shards
	type worker struct {
		L   [2]*lua.LState
		ops [2]*lua.LTable
	}
	workers := make([]*worker, harness.Workers())
	var statesSeen, transitions int64
	var mu = make(chan struct{}, 1)
	mu <- struct{}{}
	seen := map[string]bool{}
	harness.ParallelShards(len(menu), func(wi, shard int) {
		w := workers[wi]
		if w == nil {
			w = &worker{}
			for i := 0; i < 2; i++ {
				w.L[i] = lua.NewState()
				if err := w.L[i].DoString(c13SeqLib); err != nil {
					panic(err)
				}
				w.ops[i] = w.L[i].GetGlobal("ops").(*lua.LTable)
			}
			workers[wi] = w
		}
		var localStates = map[string]bool{}
		var localTrans int64
		hist := make([]step, 0, depth)
		var rec func(d int)
		replay := func() (ok bool) {
			// fresh channels, the whole history from the start
			ch := [2]chan lua.LValue{make(chan lua.LValue, 1), make(chan lua.LValue, 2)}
			for i := 0; i < 2; i++ {
				w.L[i].SetGlobal("c1", lua.LChannel(ch[0]))
				w.L[i].SetGlobal("c2", lua.LChannel(ch[1]))
			}
			m := c13SeqModel{cap: [2]int{1, 2}}
			for k, st := range hist {
				v := 100 + k
				results, next, en := c13SeqStep(m, st.op, v)
				if !en {
					return false
				}
				L := w.L[st.state]
				got := ""
				func() {
					defer func() {
						if rec := recover(); rec != nil {
							got = fmt.Sprintf("GO PANIC: %v", rec)
						}
					}()
					L.Push(w.ops[st.state].RawGetString(st.op))
					L.Push(lua.LNumber(v))
					if err := L.PCall(1, 1, nil); err != nil {
						got = "ERROR: " + err.Error()
						return
					}
					got = L.Get(-1).String()
					L.Pop(1)
				}()
				if k < len(hist)-1 {
					// earlier steps were judged when they were the last step of a shorter history; follow the branch taken
					for i, want := range results {
						if c13SeqMatch(want, got) {
							m = next[i]
							break
						}
					}
					continue
				}
				localTrans++
				matched := -1
				for i, want := range results {
					if c13SeqMatch(want, got) {
						matched = i
						break
					}
				}
				var names []string
				for _, h := range hist {
					names = append(names, fmt.Sprintf("%s@%c", h.op, 'A'+h.state))
				}
				key := fmt.Sprintf("seq/%s/c1=%d%v,c2=%d%v", st.op, len(m.buf[0]), m.closed[0], len(m.buf[1]), m.closed[1])
				r.Eval(key+"/"+strings.Join(names, " "), true, func() interface{} {
					return map[string]interface{}{"case": "sequential channel history over two states", "history": names, "result": got}
				})
				if matched < 0 {
					r.Violation(key, fmt.Sprintf("history %s (channels c1 cap 1, c2 cap 2; states A and B take turns as written): the last operation returned %q; the channel model (c1 holds %v closed=%v, c2 holds %v closed=%v before it) admits %q", strings.Join(names, " ; "), got, m.buf[0], m.closed[0], m.buf[1], m.closed[1], results),
						map[string]interface{}{"history": names, "got": got, "admissible": results})
					return false
				}
				m = next[matched]
				localStates[fmt.Sprintf("%v%v%v%v", m.buf[0], m.closed[0], m.buf[1], m.closed[1])] = true
			}
			return true
		}
		rec = func(d int) {
			if !replay() || d == depth {
				return
			}
			for _, st := range menu {
				hist = append(hist, st)
				rec(d + 1)
				hist = hist[:len(hist)-1]
			}
		}
		hist = append(hist, menu[shard])
		rec(1)
		<-mu
		for k := range localStates {
			seen[k] = true
		}
		statesSeen = int64(len(seen))
		transitions += localTrans
		mu <- struct{}{}
	})
	for _, w := range workers {
		if w != nil {
			w.L[0].Close()
			w.L[1].Close()
		}
	}
	r.Count("seq_channel_model_states", statesSeen)
	r.Count("seq_channel_transitions", transitions)
}

// c13SeqMatch: "false,*" admits any message after false.
func c13SeqMatch(want, got string) bool {
	if strings.HasSuffix(want, ",*") {
		return strings.HasPrefix(got, strings.TrimSuffix(want, "*"))
	}
	return want == got
}
