package props

// C04 — metamethods are selected and applied by the Lua 5.1 rules.

import (
	"fmt"

	lua "github.com/yuin/gopher-lua"

	"verif/internal/harness"
	. "verif/internal/luaref"
)

func init() { harness.Register("C04", "exploration", runC04) }

func runC04(r *harness.Run) {
	pr := &progRunner{r: r, prop: "C04", opts: lua.Options{}}
	th := r.Thorough()
	gens := map[string]Gen{"F-arith": genMetaArith(th), "F-cmp": genMetaCmp(th), "F-index": genMetaIndex(th), "F-callmeta": genMetaCall(th), "F-misc": genMetaMisc(th), "F-chain": genMetaChain(th)}
	r.Rule = "complete product of event x ordered operand pair (tables sharing a metatable, tables whose metatables share or do not share the handler, plain table, userdata, numbers, numeric and non-numeric strings, nil, true) x operand form (local, constant, upvalue) x context (value, branch condition, concat chain position, tail call) x handler result (truthy, false, nil); " +
		"__index/__newindex as function and as table chains of depth 1-3 and 99/100/101 with key present/absent/stored-false; the complete product of 1-2 (thorough: 3) linked tables x per level key absent/present/false x __index link none/table/function x __newindex link none/table/logging function/rawsetting function x key form, driven by a fixed read/write/erase sequence with raw dumps (F-chain); __call as statement, argument, tail call, iterator; __tostring, __metatable, rawget/rawset/rawequal. Every handler logs event, argument identities and order through emit and returns two values. Each program runs on gopher-lua and the reference interpreter"
	r.Assumptions = []string{"luaref implements the manual's §2.8 pseudo-code", "not judged: __len on tables, the second argument of __unm, __gc/__mode, callable tables as handlers, arithmetic on the string metatable"}
	order := []string{"F-misc", "F-callmeta", "F-index", "F-chain", "F-cmp", "F-arith"}
	// every event once more on protected metatables (__metatable set): only getmetatable and
	// setmetatable may notice
	for _, n := range append([]string{}, order...) {
		gens["L/"+n] = mapGen(gens[n], "L/", lockMeta)
		order = append(order, "L/"+n)
	}
	pr.runGens(gens, order)
	runPinned(r, "C04")
	reentrantFamily(r, "C04")
	// handlers are entered through frames that the interpreter builds on the value stack: the same
	// selection rules under a registry that reallocates on every growth step (one slot at a time,
	// and in steps of 3 from 16), so that a handler call falls on a reallocation at every alignment
	for _, cfg := range []struct {
		name string
		opts lua.Options
	}{
		// (NewState replaces a RegistrySize below 128 by the default, so 128 is the smallest start)
		{"grow1-from128", lua.Options{RegistrySize: 128, RegistryMaxSize: 1 << 20, RegistryGrowStep: 1}},
		{"grow3-from128", lua.Options{RegistrySize: 128, RegistryMaxSize: 1 << 20, RegistryGrowStep: 3}},
	} {
		pg := &progRunner{r: r, prop: "C04", opts: cfg.opts, sigPrefix: cfg.name + "/"}
		pg.runGens(map[string]Gen{"F-misc": genMetaMisc(false), "F-callmeta": genMetaCall(false), "F-index": genMetaIndex(false), "F-chain": genMetaChain(false), "F-callalign": genCallAlign(), "F-opgrow": genOpGrow(false)},
			[]string{"F-misc", "F-callmeta", "F-index", "F-chain", "F-callalign", "F-opgrow"})
	}
}

// genCallAlign: a __call object (with 0-3 arguments, as call, tail call, pcall target) invoked from a
// frame that holds 95..140 locals, so that under a registry that starts at 128 slots and grows
// stepwise the frame set-up for the handler falls on every alignment relative to the capacity.
func genCallAlign() Gen {
	return func(yield func(*Prog)) {
		for nloc := 95; nloc <= 140; nloc++ {
			for nargs := 0; nargs <= 3; nargs++ {
				for _, form := range []string{"call", "tail", "pcall"} {
					nloc, nargs, form := nloc, nargs, form
					yield(&Prog{Family: "F-callalign", Shape: fmt.Sprintf("locals=%d/args=%d/%s", nloc, nargs, form), Mk: func() *Block {
						h := Func(nil, true, Emit(Str("handler"), CallN("select", Str("#"), Vararg()), Vararg()), Return(Str("r1"), Str("r2")))
						st := []Stat{Local1("obj", CallN("setmetatable", TableE(), TableE(NamedField("__call", h)))), Emit(Str("ids"), Name("obj"))}
						var locs []string
						var vals []Expr
						for i := 0; i < nloc; i++ {
							locs = append(locs, fmt.Sprintf("l%d", i))
							vals = append(vals, Num(float64(i)))
						}
						var body []Stat
						if nloc > 0 {
							body = append(body, &LocalStat{Names: locs, Exprs: vals})
						}
						var args []Expr
						for i := 0; i < nargs; i++ {
							args = append(args, Str(fmt.Sprintf("a%d", i)))
						}
						switch form {
						case "call":
							body = append(body, Local(names("x", "y"), Call(Name("obj"), args...)), Return(Name("x"), Name("y")))
						case "tail":
							body = append(body, Return(Call(Name("obj"), args...)))
						case "pcall":
							body = append(body, Return(CallN("pcall", append([]Expr{Name("obj")}, args...)...)))
						}
						st = append(st, LocalFunc("caller", Func(nil, false, body...)), Emit(Str("result"), CallN("caller")))
						return Blk(st...)
					}})
				}
			}
		}
	}
}

func dotted(path ...string) Expr {
	var e Expr = Name(path[0])
	for _, p := range path[1:] {
		e = Dot(e, p)
	}
	return e
}

// c04Prelude declares handlers, metatables and operands.
//
//	ret: the first value the handlers return ("str": a tagged string, "false", "nil")
//	events: which events the shared metatables define
func c04Prelude(ret string, events []string) []Stat {
	var rv func(tag string) Expr
	switch ret {
	case "false":
		rv = func(string) Expr { return False() }
	case "nil":
		rv = func(string) Expr { return Nil() }
	case "num":
		rv = func(string) Expr { return Num(42) }
	default:
		rv = func(tag string) Expr { return Str(tag + "-r") }
	}
	mkh := func(tag string) Expr {
		return Func(nil, true, Emit(Str(tag), Vararg()), Return(rv(tag), Str("second")))
	}
	mkh1 := func(tag string) Expr { // logs only its first argument (for __unm)
		return Func(names("a"), false, Emit(Str(tag), Name("a")), Return(rv(tag), Str("second")))
	}
	mt := func(h, hu string) Expr {
		var fs []Field
		for _, ev := range events {
			if ev == "__unm" {
				fs = append(fs, NamedField(ev, Name(hu)))
			} else {
				fs = append(fs, NamedField(ev, Name(h)))
			}
		}
		return TableE(fs...)
	}
	return []Stat{
		Local(names("hA", "hC", "hUA", "hUC"), mkh("hA"), mkh("hC"), mkh1("hUA"), mkh1("hUC")),
		Local(names("MA", "MB", "MC"), mt("hA", "hUA"), mt("hA", "hUA"), mt("hC", "hUC")),
		Local(names("A1", "A2", "B", "C", "P"), CallN("setmetatable", TableE(), Name("MA")), CallN("setmetatable", TableE(), Name("MA")), CallN("setmetatable", TableE(), Name("MB")), CallN("setmetatable", TableE(), Name("MC")), TableE()),
		Local(names("U1", "U2", "UC", "UP"), CallN("udmeta", CallN("newud", Num(1)), Name("MA")), CallN("udmeta", CallN("newud", Num(2)), Name("MA")), CallN("udmeta", CallN("newud", Num(3)), Name("MC")), CallN("newud", Num(4))),
		Local(names("n1", "n25", "s10", "ss", "vnil", "vtrue"), Num(1), Num(2.5), Str("10"), Str("s"), Nil(), True()),
		// identities are numbered by first appearance: fix the numbering
		Emit(Str("ids"), Name("A1"), Name("A2"), Name("B"), Name("C"), Name("P"), Name("U1"), Name("U2"), Name("UC"), Name("UP"), Name("MA"), Name("MB"), Name("MC"), Name("hA"), Name("hC")),
	}
}

type c04Operand struct {
	name  string
	local string // name of the local holding it
	lit   func() Expr
}

func c04Operands() []c04Operand {
	return []c04Operand{
		{"A1", "A1", nil}, {"A2", "A2", nil}, {"B", "B", nil}, {"C", "C", nil}, {"P", "P", nil},
		{"U1", "U1", nil}, {"U2", "U2", nil}, {"UC", "UC", nil}, {"UP", "UP", nil},
		{"1", "n1", func() Expr { return Num(1) }}, {"2.5", "n25", func() Expr { return Num(2.5) }},
		{`"10"`, "s10", func() Expr { return Str("10") }}, {`"s"`, "ss", func() Expr { return Str("s") }},
		{"nil", "vnil", func() Expr { return Nil() }}, {"true", "vtrue", func() Expr { return True() }},
	}
}

var arithEvents = []string{"__add", "__sub", "__mul", "__div", "__mod", "__pow", "__unm", "__concat", "__eq", "__lt", "__le"}

// forms of an operand pair: both locals; constants where a literal exists; both as upvalues
func c04Forms(a, b c04Operand, mkBody func(l, r Expr) []Stat) map[string]func() []Stat {
	forms := map[string]func() []Stat{
		"local": func() []Stat { return mkBody(Name(a.local), Name(b.local)) },
		"upvalue": func() []Stat {
			return []Stat{LocalFunc("inner", Func(nil, false, mkBody(Name(a.local), Name(b.local))...)), Return(CallN("inner"))}
		},
	}
	if a.lit != nil || b.lit != nil {
		forms["const"] = func() []Stat {
			var l, r Expr = Name(a.local), Name(b.local)
			if a.lit != nil {
				l = a.lit()
			}
			if b.lit != nil {
				r = b.lit()
			}
			return mkBody(l, r)
		}
	}
	return forms
}

var formOrder = []string{"local", "const", "upvalue"}

func genMetaArith(thorough bool) Gen {
	return func(yield func(*Prog)) {
		ops := []string{"+", "-", "*", "/", "%", "^", ".."}
		operands := c04Operands()
		for _, op := range ops {
			for _, a := range operands {
				for _, b := range operands {
					a, b, op := a, b, op
					for _, ctx := range []string{"value", "branch", "tail"} {
						ctx := ctx
						mkBody := func(l, r Expr) []Stat {
							e := Bin(op, l, r)
							switch ctx {
							case "branch":
								return []Stat{IfElse(e, []Stat{Emit(Num(1))}, []Stat{Emit(Num(2))})}
							case "tail":
								return []Stat{Return(e)}
							}
							return []Stat{Emit(Str("v"), e)}
						}
						forms := c04Forms(a, b, mkBody)
						for _, fname := range formOrder {
							f := forms[fname]
							if f == nil || (ctx != "value" && fname != "local") {
								continue
							}
							rets := []string{"str"}
							if ctx == "branch" {
								rets = []string{"str", "false", "nil"}
							}
							for _, ret := range rets {
								ret := ret
								yield(&Prog{Family: "F-arith", Shape: fmt.Sprintf("%s %s %s/%s/%s/ret=%s", a.name, op, b.name, fname, ctx, ret), Mk: func() *Block {
									return Blk(append(c04Prelude(ret, arithEvents), LocalFunc("test", Func(nil, false, f()...)), Emit(Str("ret"), CallN("test")))...)
								}})
							}
						}
					}
				}
			}
		}
		// concat chains x .. y .. z with the object in each position
		chainOps := []c04Operand{operands[0], operands[3], operands[4], operands[9], operands[12]}
		for _, a := range chainOps {
			for _, b := range chainOps {
				for _, c := range chainOps {
					a, b, c := a, b, c
					yield(&Prog{Family: "F-arith", Shape: fmt.Sprintf("chain %s..%s..%s", a.name, b.name, c.name), Mk: func() *Block {
						e := Bin("..", Name(a.local), Bin("..", Name(b.local), Name(c.local)))
						return Blk(append(c04Prelude("str", arithEvents), Emit(Str("v"), e))...)
					}})
					yield(&Prog{Family: "F-arith", Shape: fmt.Sprintf("chain4 %s..%s..\"k\"..%s", a.name, b.name, c.name), Mk: func() *Block {
						e := Bin("..", Name(a.local), Bin("..", Name(b.local), Bin("..", Str("k"), Name(c.local))))
						return Blk(append(c04Prelude("str", arithEvents), Emit(Str("v"), e))...)
					}})
				}
			}
		}
		// unary minus
		for _, a := range operands {
			a := a
			for _, ctx := range []string{"value", "branch"} {
				ctx := ctx
				yield(&Prog{Family: "F-arith", Shape: "unm " + a.name + "/" + ctx, Mk: func() *Block {
					e := Un("-", Name(a.local))
					var body Stat = Emit(Str("v"), e)
					if ctx == "branch" {
						body = IfElse(e, []Stat{Emit(Num(1))}, []Stat{Emit(Num(2))})
					}
					return Blk(append(c04Prelude("str", arithEvents), body)...)
				}})
			}
		}
		// handler only on one side / arithmetic handler chosen left then right (metatables with a single event)
		for _, op := range []string{"+", ".."} {
			ev := map[string]string{"+": "__add", "..": "__concat"}[op]
			for _, which := range []string{"left", "right", "both", "neither"} {
				op, ev, which := op, ev, which
				yield(&Prog{Family: "F-arith", Shape: "side " + op + "/" + which, Mk: func() *Block {
					st := []Stat{
						Local(names("hL", "hR"), Func(nil, true, Emit(Str("hL"), Vararg()), Return(Str("L"))), Func(nil, true, Emit(Str("hR"), Vararg()), Return(Str("R")))),
						Local(names("x", "y"), TableE(), TableE()),
					}
					if which == "left" || which == "both" {
						st = append(st, CallS(Name("setmetatable"), Name("x"), TableE(NamedField(ev, Name("hL")))))
					}
					if which == "right" || which == "both" {
						st = append(st, CallS(Name("setmetatable"), Name("y"), TableE(NamedField(ev, Name("hR")))))
					}
					st = append(st, Emit(Str("ids"), Name("x"), Name("y")), Emit(Str("v"), Paren(CallN("pcall", Func(nil, false, Return(Bin(op, Name("x"), Name("y"))))))), Emit(Str("v"), Paren(CallN("pcall", Func(nil, false, Return(Bin(op, Name("y"), Name("x"))))))),
						Emit(Str("v"), Paren(CallN("pcall", Func(nil, false, Return(Bin(op, Name("x"), Num(1))))))), Emit(Str("v"), Paren(CallN("pcall", Func(nil, false, Return(Bin(op, Num(1), Name("y"))))))))
					return Blk(st...)
				}})
			}
		}
	}
}

func genMetaCmp(thorough bool) Gen {
	return func(yield func(*Prog)) {
		operands := c04Operands()
		ops := []string{"==", "~=", "<", "<=", ">", ">="}
		evsets := map[string][]string{
			"all":    arithEvents,
			"ltonly": {"__lt", "__eq"},
			"leonly": {"__le"},
			"none":   {"__add"},
		}
		for _, evname := range []string{"all", "ltonly", "leonly", "none"} {
			for _, op := range ops {
				for _, a := range operands {
					for _, b := range operands {
						if evname != "all" && (a.lit != nil || b.lit != nil) {
							continue // primitive operands do not depend on the event set
						}
						a, b, op, evname := a, b, op, evname
						for _, ctx := range []string{"value", "branch", "notbranch"} {
							ctx := ctx
							mkBody := func(l, r Expr) []Stat {
								e := Bin(op, l, r)
								switch ctx {
								case "branch":
									return []Stat{IfElse(e, []Stat{Emit(Num(1))}, []Stat{Emit(Num(2))})}
								case "notbranch":
									return []Stat{IfElse(Un("not", e), []Stat{Emit(Num(1))}, []Stat{Emit(Num(2))})}
								}
								return []Stat{Emit(Str("v"), e)}
							}
							forms := c04Forms(a, b, mkBody)
							for _, fname := range formOrder {
								f := forms[fname]
								if f == nil || (ctx != "value" && fname == "upvalue") {
									continue
								}
								for _, ret := range []string{"str", "false", "nil", "num"} {
									if ret != "str" && (fname != "local" || evname != "all") {
										continue
									}
									ret := ret
									yield(&Prog{Family: "F-cmp", Shape: fmt.Sprintf("%s %s %s/%s/%s/%s/ret=%s", a.name, op, b.name, evname, fname, ctx, ret), Mk: func() *Block {
										return Blk(append(c04Prelude(ret, evsets[evname]), LocalFunc("test", Func(nil, false, f()...)), Emit(Str("ret"), CallN("test")))...)
									}})
								}
							}
						}
					}
				}
			}
		}
	}
}

func genMetaIndex(thorough bool) Gen {
	return func(yield func(*Prog)) {
		// __index / __newindex: function handler and table chains
		keyStates := []string{"absent", "present", "false"}
		for _, kind := range []string{"func", "chain1", "chain2", "chain3", "chainfunc"} {
			for _, ks := range keyStates {
				for _, keyform := range []string{"const", "reg", "num"} {
					kind, ks, keyform := kind, ks, keyform
					yield(&Prog{Family: "F-index", Shape: fmt.Sprintf("index/%s/%s/%s", kind, ks, keyform), Mk: func() *Block {
						st := []Stat{Local1("log", Func(nil, true, Emit(Str("h"), Vararg()), Return(Str("hv"), Str("second"))))}
						st = append(st, Local1("base", TableE(NamedField("deep", Str("D")), KeyField(Num(7), Str("seven")))))
						st = append(st, Local1("obj", TableE()))
						switch ks {
						case "present":
							st = append(st, Assign1(Dot(Name("obj"), "k"), Str("own")), Assign1(Index(Name("obj"), Num(7)), Str("own7")))
						case "false":
							st = append(st, Assign1(Dot(Name("obj"), "k"), False()), Assign1(Index(Name("obj"), Num(7)), False()))
						}
						switch kind {
						case "func":
							st = append(st, CallS(Name("setmetatable"), Name("obj"), TableE(NamedField("__index", Name("log")))))
						case "chain1":
							st = append(st, Assign1(Dot(Name("base"), "k"), Str("B1")), CallS(Name("setmetatable"), Name("obj"), TableE(NamedField("__index", Name("base")))))
						case "chain2":
							st = append(st, Local1("mid", CallN("setmetatable", TableE(), TableE(NamedField("__index", Name("base"))))), Assign1(Dot(Name("base"), "k"), Str("B2")), CallS(Name("setmetatable"), Name("obj"), TableE(NamedField("__index", Name("mid")))))
						case "chain3":
							st = append(st, Local1("mid", CallN("setmetatable", TableE(), TableE(NamedField("__index", Name("base"))))), Local1("mid2", CallN("setmetatable", TableE(NamedField("k", False())), TableE(NamedField("__index", Name("mid"))))), Assign1(Dot(Name("base"), "k"), Str("B3")), CallS(Name("setmetatable"), Name("obj"), TableE(NamedField("__index", Name("mid2")))))
						case "chainfunc":
							st = append(st, Local1("mid", CallN("setmetatable", TableE(), TableE(NamedField("__index", Name("log"))))), CallS(Name("setmetatable"), Name("obj"), TableE(NamedField("__index", Name("mid")))))
						}
						st = append(st, Emit(Str("ids"), Name("obj"), Name("base")))
						var key, key2 Expr
						switch keyform {
						case "const":
							st = append(st, Emit(Str("get"), Dot(Name("obj"), "k"), Dot(Name("obj"), "deep"), Dot(Name("obj"), "nope")))
						case "reg":
							st = append(st, Local(names("k1", "k2", "k3"), Str("k"), Str("deep"), Str("nope")))
							key, key2 = Name("k1"), Name("k2")
							st = append(st, Emit(Str("get"), Index(Name("obj"), key), Index(Name("obj"), key2), Index(Name("obj"), Name("k3"))))
						case "num":
							st = append(st, Emit(Str("get"), Index(Name("obj"), Num(7)), Index(Name("obj"), Num(8))))
						}
						st = append(st, Emit(Str("raw"), CallN("rawget", Name("obj"), Str("k")), CallN("rawget", Name("obj"), Str("deep")), CallN("rawget", Name("obj"), Num(7))))
						return Blk(st...)
					}})
					yield(&Prog{Family: "F-index", Shape: fmt.Sprintf("newindex/%s/%s/%s", kind, ks, keyform), Mk: func() *Block {
						st := []Stat{Local1("log", Func(nil, true, Emit(Str("h"), Vararg()), Return(Str("hv"))))}
						st = append(st, Local1("base", TableE()), Local1("obj", TableE()))
						switch ks {
						case "present":
							st = append(st, Assign1(Dot(Name("obj"), "k"), Str("own")), Assign1(Index(Name("obj"), Num(7)), Str("own7")))
						case "false":
							st = append(st, Assign1(Dot(Name("obj"), "k"), False()), Assign1(Index(Name("obj"), Num(7)), False()))
						}
						switch kind {
						case "func":
							st = append(st, CallS(Name("setmetatable"), Name("obj"), TableE(NamedField("__newindex", Name("log")))))
						case "chain1":
							st = append(st, CallS(Name("setmetatable"), Name("obj"), TableE(NamedField("__newindex", Name("base")))))
						case "chain2":
							st = append(st, Local1("mid", CallN("setmetatable", TableE(), TableE(NamedField("__newindex", Name("base"))))), CallS(Name("setmetatable"), Name("obj"), TableE(NamedField("__newindex", Name("mid")))))
						case "chain3":
							st = append(st, Local1("mid", CallN("setmetatable", TableE(NamedField("k", Str("midown"))), TableE(NamedField("__newindex", Name("base"))))), CallS(Name("setmetatable"), Name("obj"), TableE(NamedField("__newindex", Name("mid")))))
						case "chainfunc":
							st = append(st, Local1("mid", CallN("setmetatable", TableE(), TableE(NamedField("__newindex", Name("log"))))), CallS(Name("setmetatable"), Name("obj"), TableE(NamedField("__newindex", Name("mid")))))
						}
						st = append(st, Emit(Str("ids"), Name("obj"), Name("base")))
						switch keyform {
						case "const":
							st = append(st, Assign1(Dot(Name("obj"), "k"), Str("v1")), Assign1(Dot(Name("obj"), "fresh"), Str("v2")), Assign1(Dot(Name("obj"), "k"), Nil()))
						case "reg":
							st = append(st, Local(names("k1", "k2", "vv"), Str("k"), Str("fresh"), Str("v1")), Assign1(Index(Name("obj"), Name("k1")), Name("vv")), Assign1(Index(Name("obj"), Name("k2")), Name("vv")), Assign1(Index(Name("obj"), Name("k1")), Nil()))
						case "num":
							st = append(st, Assign1(Index(Name("obj"), Num(7)), Str("v1")), Assign1(Index(Name("obj"), Num(8)), Str("v2")))
						}
						rg := func(t, k string) Expr { return CallN("rawget", Name(t), Str(k)) }
						st = append(st, Emit(Str("raw"), rg("obj", "k"), rg("obj", "fresh"), rg("base", "k"), rg("base", "fresh"), CallN("rawget", Name("obj"), Num(7)), CallN("rawget", Name("obj"), Num(8)), CallN("rawget", Name("base"), Num(7)), CallN("rawget", Name("base"), Num(8))))
						if kind == "chain3" {
							st = append(st, Emit(Str("mid"), rg("mid", "k"), rg("mid", "fresh")))
						}
						// rawset never invokes handlers
						st = append(st, CallS(Name("rawset"), Name("obj"), Str("rs"), Num(1)), Emit(Str("rawset"), rg("obj", "rs"), rg("base", "rs")))
						return Blk(st...)
					}})
				}
			}
		}
		// chains at the documented depth limit: n tables linked by __index / __newindex
		for _, n := range []int{2, 50, 98, 99, 100, 101, 102, 150} {
			for _, ev := range []string{"__index", "__newindex"} {
				n, ev := n, ev
				yield(&Prog{Family: "F-index", Shape: fmt.Sprintf("depth/%s/%d", ev, n), Mk: func() *Block {
					// chain[1] -> chain[2] -> ... -> chain[n]; the key lives only in chain[n]
					st := []Stat{Local1("chain", TableE()),
						NumFor("i", Num(1), Num(float64(n)), nil, Assign1(Index(Name("chain"), Name("i")), TableE())),
						NumFor("i", Num(1), Num(float64(n-1)), nil, CallS(Name("setmetatable"), Index(Name("chain"), Name("i")), TableE(KeyField(Str(ev), Index(Name("chain"), Bin("+", Name("i"), Num(1))))))),
					}
					if ev == "__index" {
						st = append(st, Assign1(Dot(Index(Name("chain"), Num(float64(n))), "key"), Str("found")),
							Emit(Str("r"), Paren(CallN("pcall", Func(nil, false, Return(Dot(Index(Name("chain"), Num(1)), "key")))))),
							Emit(Str("absent"), Paren(CallN("pcall", Func(nil, false, Return(Dot(Index(Name("chain"), Num(1)), "nokey")))))))
					} else {
						st = append(st, Emit(Str("r"), Paren(CallN("pcall", Func(nil, false, Assign1(Dot(Index(Name("chain"), Num(1)), "key"), Str("stored")))))),
							Emit(Str("where"), CallN("rawget", Index(Name("chain"), Num(1)), Str("key")), CallN("rawget", Index(Name("chain"), Num(float64(n))), Str("key"))))
					}
					return Blk(st...)
				}})
			}
		}
		// indexing non-tables: strings use the string metatable; numbers, nil, booleans fault; userdata with __index
		for _, what := range []string{"string-method", "string-len-field", "number", "nil", "bool", "ud-func", "ud-table", "ud-none", "ud-newindex"} {
			what := what
			yield(&Prog{Family: "F-index", Shape: "nontable/" + what, Mk: func() *Block {
				p := func(e Expr) Stat { return Emit(Str("r"), CallN("pcall", Func(nil, false, Return(e)))) }
				var st []Stat
				switch what {
				case "string-method":
					st = []Stat{Local1("s", Str("abc")), p(Method(Name("s"), "len")), p(Method(Name("s"), "upper")), p(Method(Str("xy"), "rep", Num(2)))}
				case "string-len-field":
					st = []Stat{Local1("s", Str("abc")), p(Bin("==", Dot(Name("s"), "len"), Dot(Name("string"), "len"))), p(Dot(Name("s"), "nofield"))}
				case "number":
					st = []Stat{Local1("n", Num(5)), Emit(Str("r"), Paren(CallN("pcall", Func(nil, false, Return(Dot(Name("n"), "x"))))))}
				case "nil":
					st = []Stat{Local1("n", Nil()), Emit(Str("r"), Paren(CallN("pcall", Func(nil, false, Return(Dot(Name("n"), "x")))))), Emit(Str("r"), Paren(CallN("pcall", Func(nil, false, Assign1(Dot(Name("n"), "x"), Num(1))))))}
				case "bool":
					st = []Stat{Local1("n", True()), Emit(Str("r"), Paren(CallN("pcall", Func(nil, false, Return(Index(Name("n"), Num(1)))))))}
				case "ud-func":
					st = []Stat{Local1("u", CallN("udmeta", CallN("newud", Num(1)), TableE(NamedField("__index", Func(names("o", "k"), false, Emit(Str("h"), Name("o"), Name("k")), Return(Str("uv"), Num(2))))))), p(Dot(Name("u"), "f")), p(Index(Name("u"), Num(3)))}
				case "ud-table":
					st = []Stat{Local1("u", CallN("udmeta", CallN("newud", Num(1)), TableE(NamedField("__index", TableE(NamedField("f", Str("fromtable"))))))), p(Dot(Name("u"), "f")), p(Dot(Name("u"), "g"))}
				case "ud-none":
					st = []Stat{Local1("u", CallN("newud", Num(1))), Emit(Str("r"), Paren(CallN("pcall", Func(nil, false, Return(Dot(Name("u"), "f"))))))}
				case "ud-newindex":
					st = []Stat{Local1("store", TableE()), Local1("u", CallN("udmeta", CallN("newud", Num(1)), TableE(NamedField("__newindex", Name("store"))))), Assign1(Dot(Name("u"), "f"), Num(9)), Emit(Str("r"), Dot(Name("store"), "f")),
						Local1("u2", CallN("udmeta", CallN("newud", Num(2)), TableE(NamedField("__newindex", Func(names("o", "k", "v"), false, Emit(Str("h"), Name("o"), Name("k"), Name("v"))))))), Assign1(Index(Name("u2"), Num(1)), Str("x"))}
				}
				return Blk(st...)
			}})
		}
	}
}

func genMetaCall(thorough bool) Gen {
	return func(yield func(*Prog)) {
		mkObj := func() []Stat {
			h := Func(names("self"), true, Emit(Str("called"), Name("self"), Vararg()), Return(Str("c1"), Str("c2"), Vararg()))
			return []Stat{Local1("obj", CallN("setmetatable", TableE(), TableE(NamedField("__call", h)))), Local1("uobj", CallN("udmeta", CallN("newud", Num(1)), TableE(NamedField("__call", h)))), Emit(Str("ids"), Name("obj"), Name("uobj"))}
		}
		for _, o := range []string{"obj", "uobj"} {
			for nargs := 0; nargs <= 3; nargs++ {
				for _, ctx := range []string{"stat", "arg", "arglast", "tail", "local2", "method", "pcall", "paren"} {
					o, nargs, ctx := o, nargs, ctx
					yield(&Prog{Family: "F-callmeta", Shape: fmt.Sprintf("%s(%d)@%s", o, nargs, ctx), Mk: func() *Block {
						var args []Expr
						for i := 0; i < nargs; i++ {
							args = append(args, Num(float64(11+i)))
						}
						call := CallN(o, args...)
						var body []Stat
						switch ctx {
						case "stat":
							body = []Stat{&CallStat{Call: call}}
						case "arg":
							body = []Stat{Emit(Str("r"), call, Str("x"))}
						case "arglast":
							body = []Stat{Emit(Str("r"), call)}
						case "tail":
							body = []Stat{Return(call)}
						case "local2":
							body = []Stat{Local(names("a", "b"), call), Emit(Name("a"), Name("b"))}
						case "method":
							// obj.m is the callable object: t:m(args) passes t then args to the handler after self
							body = []Stat{Local1("t", TableE(NamedField("m", Name(o)))), Emit(Str("ids"), Name("t")), Emit(Str("r"), Method(Name("t"), "m", args...))}
						case "pcall":
							body = []Stat{Emit(Str("r"), CallN("pcall", append([]Expr{Name(o)}, args...)...))}
						case "paren":
							body = []Stat{Emit(Str("r"), Paren(call))}
						}
						st := append(mkObj(), LocalFunc("test", Func(nil, false, body...)), Emit(Str("ret"), CallN("test")))
						return Blk(st...)
					}})
				}
			}
		}
		// __call object as for-in iterator
		yield(&Prog{Family: "F-callmeta", Shape: "iterator", Mk: func() *Block {
			h := Func(names("self", "s", "c"), false, Emit(Str("iter"), Name("self"), Name("s"), Name("c")), If(Bin("<", Name("c"), Num(2)), Return(Bin("+", Name("c"), Num(1)), Str("v"))))
			return Blk(Local1("it", CallN("setmetatable", TableE(), TableE(NamedField("__call", h)))), Emit(Str("ids"), Name("it")), GenFor(names("a", "b"), []Expr{Name("it"), Str("state"), Num(0)}, Emit(Name("a"), Name("b"))))
		}})
		// calling non-callable values faults
		for _, v := range []struct {
			n string
			e func() Expr
		}{{"nil", func() Expr { return Nil() }}, {"number", func() Expr { return Num(1) }}, {"string", func() Expr { return Str("s") }}, {"table", func() Expr { return TableE() }}, {"table-mt-nocall", func() Expr { return CallN("setmetatable", TableE(), TableE()) }}, {"ud", func() Expr { return CallN("newud", Num(1)) }}} {
			v := v
			yield(&Prog{Family: "F-callmeta", Shape: "noncallable/" + v.n, Mk: func() *Block {
				return Blk(Local1("x", v.e()), Emit(Str("r"), Paren(CallN("pcall", Func(nil, false, Return(CallN("x", Num(1))))))), Emit(Str("r"), Paren(CallN("pcall", Name("x")))), CallS(Name("x")))
			}})
		}
		// __call handler that is not a function is an error in 5.1 only for non-function values: a number handler
		yield(&Prog{Family: "F-callmeta", Shape: "handler-number", Mk: func() *Block {
			return Blk(Local1("x", CallN("setmetatable", TableE(), TableE(NamedField("__call", Num(5))))), Emit(Str("r"), Paren(CallN("pcall", Name("x")))))
		}})
	}
}

func genMetaMisc(thorough bool) Gen {
	return func(yield func(*Prog)) {
		type prog struct {
			name string
			mk   func() []Stat
		}
		var progs []prog
		// __tostring
		for _, ret := range []string{"str", "callsecond"} {
			ret := ret
			progs = append(progs, prog{"tostring/" + ret, func() []Stat {
				h := Func(names("o"), false, Emit(Str("ts"), Name("o")), Return(Str("custom"), Str("second")))
				return []Stat{Local1("o", CallN("setmetatable", TableE(), TableE(NamedField("__tostring", h)))), Local1("u", CallN("udmeta", CallN("newud", Num(1)), TableE(NamedField("__tostring", h)))), Emit(Str("ids"), Name("o"), Name("u")),
					Emit(CallN("tostring", Name("o"))), Emit(CallN("tostring", Name("u"))), Emit(CallN("type", CallN("tostring", TableE()))), Emit(CallN("tostring", Num(12)), CallN("tostring", Str("s")), CallN("tostring", Nil()), CallN("tostring", True()), CallN("tostring", Num(-2.5)))}
			}})
		}
		// __metatable
		progs = append(progs, prog{"__metatable", func() []Stat {
			return []Stat{Local1("mt", TableE(NamedField("__metatable", Str("locked")))), Local1("o", CallN("setmetatable", TableE(), Name("mt"))),
				Emit(CallN("getmetatable", Name("o"))), Emit(Paren(CallN("pcall", Name("setmetatable"), Name("o"), TableE()))), Emit(Bin("==", CallN("getmetatable", Name("o")), Str("locked"))),
				Local1("mt2", TableE(NamedField("__metatable", False()))), Local1("o2", CallN("setmetatable", TableE(), Name("mt2"))), Emit(CallN("getmetatable", Name("o2"))), Emit(Paren(CallN("pcall", Name("setmetatable"), Name("o2"), Nil()))),
				Local1("u", CallN("udmeta", CallN("newud", Num(1)), Name("mt"))), Emit(CallN("getmetatable", Name("u")))}
		}})
		progs = append(progs, prog{"setmetatable-basic", func() []Stat {
			return []Stat{Local(names("t", "mt"), TableE(), TableE()), Emit(Bin("==", CallN("setmetatable", Name("t"), Name("mt")), Name("t")), Bin("==", CallN("getmetatable", Name("t")), Name("mt"))), Emit(Bin("==", CallN("setmetatable", Name("t"), Nil()), Name("t")), CallN("getmetatable", Name("t"))),
				Emit(Paren(CallN("pcall", Name("setmetatable"), TableE(), Num(1)))),
				Emit(CallN("getmetatable", Num(1)), CallN("getmetatable", Nil()), Bin("==", Dot(CallN("getmetatable", Str("s")), "__index"), Name("string")))}
		}})
		// rawequal / rawget / rawset never invoke handlers
		progs = append(progs, prog{"raw", func() []Stat {
			h := Func(nil, true, Emit(Str("h"), Vararg()), Return(True()))
			return []Stat{Local1("mt", TableE(NamedField("__eq", h), NamedField("__index", h), NamedField("__newindex", h))), Local(names("a", "b"), CallN("setmetatable", TableE(), Name("mt")), CallN("setmetatable", TableE(), Name("mt"))), Emit(Str("ids"), Name("a"), Name("b")),
				Emit(CallN("rawequal", Name("a"), Name("b")), CallN("rawequal", Name("a"), Name("a")), Bin("==", Name("a"), Name("b"))), Emit(CallN("rawget", Name("a"), Str("k")), Dot(Name("a"), "k")), CallS(Name("rawset"), Name("a"), Str("k"), Num(1)), Emit(CallN("rawget", Name("a"), Str("k")), Dot(Name("a"), "k")),
				Emit(CallN("rawequal", Num(1), Num(1)), CallN("rawequal", Str("a"), Str("a")), CallN("rawequal", Num(1), Str("1")), CallN("rawequal", Nil(), False()))}
		}})
		// __eq details: same object, primitive equal, mixed types, handler result converted to boolean
		progs = append(progs, prog{"eq-details", func() []Stat {
			h := Func(nil, true, Emit(Str("eq"), Vararg()), Return(Num(0)))
			return []Stat{Local1("mt", TableE(NamedField("__eq", h))), Local(names("a", "b"), CallN("setmetatable", TableE(), Name("mt")), CallN("setmetatable", TableE(), Name("mt"))), Local1("u", CallN("udmeta", CallN("newud", Num(1)), Name("mt"))), Emit(Str("ids"), Name("a"), Name("b"), Name("u")),
				Emit(Bin("==", Name("a"), Name("a")), Bin("==", Name("a"), Name("b")), Bin("~=", Name("a"), Name("b")), Bin("==", Name("a"), Name("u")), Bin("==", Name("a"), Num(1)), Bin("==", Name("a"), Str("x")), Bin("==", Name("a"), Nil()))}
		}})
		// table as key equality, numbers 1 and 1.0, "1" vs 1
		progs = append(progs, prog{"prim-eq", func() []Stat {
			return []Stat{Emit(Bin("==", Num(1), NumLit(1, "1.0")), Bin("==", Str("1"), Num(1)), Bin("==", Num(0), Un("-", Num(0))), Bin("==", Str("a"), Str("a")), Bin("~=", True(), False()), Bin("==", Nil(), False()))}
		}})
		// lt/le on mixed primitive types fault; strings compare bytewise
		progs = append(progs, prog{"prim-order", func() []Stat {
			p := func(e Expr) Stat { return Emit(Str("r"), Paren(CallN("pcall", Func(nil, false, Return(e))))) }
			pv := func(e Expr) Stat { return Emit(Str("r"), CallN("pcall", Func(nil, false, Return(e)))) }
			return []Stat{pv(Bin("<", Str("a"), Str("b"))), pv(Bin("<", Str("a"), Str("B"))), pv(Bin("<=", Str(""), Str("a"))), pv(Bin("<", Str("a"), Str("aa"))), pv(Bin("<", Str("10"), Str("9"))), pv(Bin("<", Num(10), Num(9))),
				p(Bin("<", Num(1), Str("2"))), p(Bin("<", Str("1"), Num(2))), p(Bin("<=", Nil(), Num(1))), p(Bin("<", True(), False())), p(Bin("<", TableE(), TableE())), p(Bin(">=", TableE(), Num(1)))}
		}})
		for _, p := range progs {
			p := p
			yield(&Prog{Family: "F-misc", Shape: p.name, Mk: func() *Block { return Blk(p.mk()...) }})
		}
	}
}
