package props

// Program transformers: every program of a family is re-run inside a different execution context.
// The model runs the transformed program too, so no expectation is written by hand; what is
// enumerated is the family's product times the context.

import (
	"fmt"
	"strings"

	. "verif/internal/luaref"
)

// mapGen applies f to every program of g (lazily) and prefixes the family name.
func mapGen(g Gen, prefix string, f func(*Block) *Block) Gen {
	return func(yield func(*Prog)) {
		g(func(p *Prog) {
			q := *p
			q.Family = prefix + p.Family
			mk, chunk := p.Mk, p.Chunk
			q.Chunk = nil
			q.Mk = func() *Block {
				c := chunk
				if c == nil {
					c = mk()
				}
				return f(c)
			}
			yield(&q)
		})
	}
}

func tpack() Stat {
	// local function __pack(...) return { n = select('#', ...), ... } end
	return LocalFunc("__pack", Func(nil, true, Return(TableE(NamedField("n", CallN("select", Str("#"), Vararg())), Pos1(Vararg())))))
}

func tclobber() Stat {
	return LocalFunc("__clobber", Func(names("a", "b", "c", "d", "e", "f"), false,
		Local(names("x", "y", "z", "u", "v", "w"), Name("f"), Name("e"), Name("d"), Name("c"), Name("b"), Name("a")),
		Local1("t", TableE(Pos1(Name("x")), Pos1(Name("y")), Pos1(Name("z")))),
		Return(Name("x"))))
}

// suspendAtEmit: the chunk becomes the body of a coroutine that suspends after every observable
// event (every call of emit); the driver resumes it until it is dead and runs a register-hungry
// function between two resumes. With other=true a second coroutine (a generator with its own loop
// state and upvalue) is resumed between any two resumes of the first. The chunk's results and its
// error value are passed through.
func suspendAtEmit(other bool) func(*Block) *Block {
	return func(c *Block) *Block {
		st := []Stat{
			Local(names("__emit", "__yield", "__resume", "__status"), Name("emit"), Dot(Name("coroutine"), "yield"), Dot(Name("coroutine"), "resume"), Dot(Name("coroutine"), "status")),
			tpack(), tclobber(),
			Local1("__co", Call(Dot(Name("coroutine"), "create"), Func(nil, true, c.Stats...))),
			Assign1(Name("emit"), Func(nil, true, CallS(Name("__emit"), Vararg()), CallS(Name("__yield")))),
		}
		if other {
			// generator: counts resumes in an upvalue shared with a closure, yields from a nested call
			gen := Func(nil, false,
				Local1("n", Num(0)),
				LocalFunc("bump", Func(names("d"), false, Assign1(Name("n"), Bin("+", Name("n"), Name("d"))), Return(CallN("__yield", Name("n"))))),
				While(True(), Local(names("a", "b"), CallN("bump", Num(1))), If(Bin("~=", Name("a"), Nil()), Assign1(Name("n"), Bin("+", Name("n"), Name("a"))))))
			st = append(st, Local1("__gen", Call(Dot(Name("coroutine"), "create"), gen)), Local1("__gsum", Num(0)))
		}
		loop := []Stat{
			Assign1(Name("__r"), CallN("__pack", CallN("__resume", Name("__co")))),
			CallS(Name("__clobber"), Num(1), Num(2), Num(3), Num(4), Num(5), Num(6)),
		}
		if other {
			loop = append(loop, Local(names("gok", "gv"), CallN("__resume", Name("__gen"), Num(10))), Assign1(Name("__gsum"), Bin("+", Name("__gsum"), Name("gv"))))
		}
		st = append(st, Local1("__r", Nil()), Repeat(Bin("==", CallN("__status", Name("__co")), Str("dead")), loop...), Assign1(Name("emit"), Name("__emit")))
		if other {
			st = append(st, Emit(Str("generator"), Name("__gsum"), CallN("__status", Name("__gen"))))
		}
		st = append(st,
			If(Index(Name("__r"), Num(1)), Return(CallN("unpack", Name("__r"), Num(2), Dot(Name("__r"), "n")))),
			CallS(Name("error"), Index(Name("__r"), Num(2)), Num(0)))
		return Blk(st...)
	}
}

// deepFrame: the chunk runs as a function called below `depth` vararg frames of decreasing
// argument count (so its registers sit far from the base of the value stack and every enclosing
// frame has a different layout); results and error value are passed through.
func deepFrame(depth int) func(*Block) *Block {
	return func(c *Block) *Block {
		args := []Expr{Num(float64(depth))}
		// at most 20 extra arguments: the frames' varargs must stay well inside the default registry
		// (frames x arguments slots) — reaching that limit is C12's subject, not this family's
		for i := 1; i <= depth && i <= 20; i++ {
			args = append(args, Num(float64(i)))
		}
		st := []Stat{
			tpack(),
			LocalFunc("__body", Func(nil, true, c.Stats...)),
			Local1("__down", Nil()),
			Assign1(Name("__down"), Func(names("n", "a"), true,
				Local(names("p", "q"), Name("a"), Name("n")),
				If(Bin("==", Name("n"), Num(0)), Return(CallN("__pack", CallN("__body")))),
				Local1("r", CallN("__down", Bin("-", Name("n"), Num(1)), Vararg())),
				If(Bin("~=", Name("q"), Name("n")), CallS(Name("error"), Str("frame local changed"))),
				Return(Name("r")))),
			Local1("__r", Call(Name("__down"), args...)),
			Return(CallN("unpack", Name("__r"), Num(1), Dot(Name("__r"), "n"))),
		}
		return Blk(st...)
	}
}

// bufBoundary: for every carriage return of a program's rendering with the given end-of-line
// sequence (incl. those inside long strings and comments), one variant that starts with a filler
// comment sized so that this carriage return is the last byte of the reader's first 4096-byte
// block (and one more for the second block). Line counting and the pairing of CR LF / LF CR must
// not depend on where the source happens to be cut into blocks.
func bufBoundary(g Gen, eol string) Gen {
	return func(yield func(*Prog)) {
		g(func(p *Prog) {
			if (p.Layout != Layout{}) {
				return
			}
			mk, chunk := p.Mk, p.Chunk
			build := func() *Block {
				if mk != nil {
					return mk()
				}
				return chunk
			}
			// (generators build lazily; the number of variants must be known here, so render once)
			first := build()
			if first == nil {
				return
			}
			text := Print(first, Layout{EOL: eol})
			var crs []int
			for i := 0; i < len(text); i++ {
				if text[i] == '\r' {
					crs = append(crs, i)
				}
			}
			for ci, idx := range crs {
				for _, block := range []int{4096, 8192} {
					pad := block - 1 - idx - (2 + len(eol))
					if pad < 1 {
						continue
					}
					q := &Prog{Family: "B/" + p.Family, Shape: fmt.Sprintf("%s/eol=%q/cr%d@%d", p.Shape, eol, ci, block-1), Layout: Layout{EOL: eol, LeadComment: pad}, Mk: build}
					if mk == nil {
						// a shared AST cannot be printed under two layouts at once: only lazily built programs get variants
						return
					}
					yield(q)
				}
			}
		})
	}
}

// genCRLFProgs: programs whose long strings and long comments contain line ends of every kind; the
// string values (Lua normalises any line end inside a long string to "\n") and the lines reported
// after them are observed.
func genCRLFProgs() Gen {
	return func(yield func(*Prog)) {
		for _, inner := range []string{"\n", "\r\n", "\n\r", "\r"} {
			for _, form := range []string{"long-string", "long-string-level2", "quoted-backslash-newline", "long-comment", "mixed"} {
				inner, form := inner, form
				yield(&Prog{Family: "F-crlf", Shape: fmt.Sprintf("%s/inner=%q", form, inner), Mk: func() *Block {
					line := func() Expr { return Dot(Call(Dot(Name("debug"), "getinfo"), Num(1), Str("l")), "currentline") }
					nl := func(s string) string { return strings.ReplaceAll(s, "\n", inner) }
					st := []Stat{Emit(Str("line"), line())}
					switch form {
					case "long-string":
						st = append(st, Local1("s", &StrExpr{V: "a\nb\n\nc", Raw: "[[" + nl("a\nb\n\nc") + "]]"}), Emit(Str("value"), Un("#", Name("s")), Name("s")))
					case "long-string-level2":
						st = append(st, Local1("s", &StrExpr{V: "x]]\ny", Raw: "[==[" + nl("\nx]]\ny") + "]==]"}), Emit(Str("value"), Un("#", Name("s")), Name("s")))
					case "quoted-backslash-newline":
						st = append(st, Local1("s", &StrExpr{V: "c\nd", Raw: "\"c\\" + nl("\n") + "d\""}), Emit(Str("value"), Un("#", Name("s")), Name("s")))
					case "long-comment":
						st = append(st, Local1("s", &StrExpr{V: "after", Raw: "--[[" + nl("one\ntwo\n") + "]] \"after\""}), Emit(Str("value"), Name("s")))
					case "mixed":
						st = append(st, Local1("s", &StrExpr{V: "p\nq", Raw: "--[=[" + nl("c1\n") + "]=] [[" + nl("p\nq") + "]]"}), Emit(Str("value"), Un("#", Name("s")), Name("s")))
					}
					st = append(st, Emit(Str("line-after"), line()), Local1("bad", Nil()), Emit(Str("fault-line"), Paren(CallN("pcall", Func(nil, false, Return(Bin("+", Name("bad"), Num(1))))))))
					return Blk(st...)
				}})
			}
		}
	}
}

// constPressure: the chunk starts with a constructor of n distinct numeric constants, so every
// constant the program's main function uses afterwards (method and field names, global names,
// strings, numbers) has an index beyond the 256 that fit into an instruction's RK operand and must
// be loaded into a register first - the operand forms the compiler and the VM rarely see.
func constPressure(n int) func(*Block) *Block {
	return func(c *Block) *Block {
		mkItems := func() []Field {
			var items []Field
			for i := 0; i < n; i++ {
				items = append(items, Pos1(Num(float64(100000+i)+0.5)))
			}
			return items
		}
		// the functions declared at the top level of the chunk (the test function and the callees of the
		// families) get the same treatment: constants are per function
		for _, st := range c.Stats {
			var f *FuncExpr
			switch x := st.(type) {
			case *LocalFuncStat:
				f = x.Func
			case *FuncStat:
				f = x.Func
			}
			if f != nil && f.Body != nil {
				f.Body.Stats = append([]Stat{Local1("__cpf", TableE(mkItems()...))}, f.Body.Stats...)
			}
		}
		st := []Stat{Local1("__cp", TableE(mkItems()...)), Emit(Str("constants"), Un("#", Name("__cp")), Index(Name("__cp"), Num(float64(n))))}
		return Blk(append(st, c.Stats...)...)
	}
}

// lockMeta: the program runs with a setmetatable that first puts a __metatable field into the
// metatable it installs. Lua consults that field in getmetatable and setmetatable only; every event
// (__call, arithmetic, comparison, concat, __index, __newindex, __tostring ...) still finds its
// handler in the real metatable.
func lockMeta(c *Block) *Block {
	wrap := Func(names("t", "mt"), false,
		If(Bin("and", Bin("==", CallN("type", Name("mt")), Str("table")), Bin("==", CallN("rawget", Name("mt"), Str("__metatable")), Nil())),
			CallS(Name("rawset"), Name("mt"), Str("__metatable"), Str("locked"))),
		Return(CallN("__setmt", Name("t"), Name("mt"))))
	st := []Stat{Local1("__setmt", Name("setmetatable")), Assign1(Name("setmetatable"), wrap)}
	return Blk(append(st, c.Stats...)...)
}
