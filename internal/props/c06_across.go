package props

// C06, family F-yieldacross — coroutine.yield called below a call boundary the interpreter cannot
// suspend (pcall/xpcall, metamethods, generic-for iterators, tostring, host callbacks): Lua 5.1
// raises an ordinary error at the yield ("attempt to yield across metamethod/C-call boundary"),
// which the protected call catches or which kills the coroutine; either way the coroutine and its
// resumer stay consistent: later yields at the base level work, resume values and statuses are
// right. A __call handler is no such boundary (the yield works).

import (
	"fmt"

	. "verif/internal/luaref"
)

func genYieldAcross() Gen {
	y := func(args ...Expr) Expr { return Call(Dot(Name("coroutine"), "yield"), args...) }
	type boundary struct {
		name string
		// mk builds statements that run `yielder` (a function value expression) below the boundary and emit what comes back
		mk func(yielder Expr) []Stat
	}
	mt := func(ev string, h Expr) Expr { return CallN("setmetatable", TableE(), TableE(NamedField(ev, h))) }
	bs := []boundary{
		{"pcall", func(f Expr) []Stat { return []Stat{Emit(Str("b"), CallN("pcall", f, Str("a1")))} }},
		{"xpcall", func(f Expr) []Stat {
			return []Stat{Emit(Str("b"), CallN("xpcall", Func(nil, false, Return(Call(f, Str("a1")))), Func(names("e"), false, Emit(Str("handler")), Return(Str("H")))))}
		}},
		{"__index", func(f Expr) []Stat {
			return []Stat{Local1("o", mt("__index", Func(names("t", "k"), false, Return(Call(f, Name("k")))))), Emit(Str("b"), Dot(Name("o"), "key"))}
		}},
		{"__newindex", func(f Expr) []Stat {
			return []Stat{Local1("o", mt("__newindex", Func(names("t", "k", "v"), false, CallS(f, Name("k"))))), Assign1(Dot(Name("o"), "key"), Num(1)), Emit(Str("b"))}
		}},
		{"__add", func(f Expr) []Stat {
			return []Stat{Local1("o", mt("__add", Func(names("a", "b"), false, Return(Call(f, Str("add")))))), Emit(Str("b"), Bin("+", Name("o"), Num(1)))}
		}},
		{"__eq", func(f Expr) []Stat {
			return []Stat{Local1("m", TableE(NamedField("__eq", Func(names("a", "b"), false, Return(Call(f, Str("eq"))))))), Local(names("o1", "o2"), CallN("setmetatable", TableE(), Name("m")), CallN("setmetatable", TableE(), Name("m"))), Emit(Str("b"), Bin("==", Name("o1"), Name("o2")))}
		}},
		{"__lt", func(f Expr) []Stat {
			return []Stat{Local1("m", TableE(NamedField("__lt", Func(names("a", "b"), false, Return(Call(f, Str("lt"))))))), Local(names("o1", "o2"), CallN("setmetatable", TableE(), Name("m")), CallN("setmetatable", TableE(), Name("m"))), Emit(Str("b"), Bin("<", Name("o1"), Name("o2")))}
		}},
		{"__concat", func(f Expr) []Stat {
			return []Stat{Local1("o", mt("__concat", Func(names("a", "b"), false, Return(Call(f, Str("cc")))))), Emit(Str("b"), Bin("..", Name("o"), Str("x")))}
		}},
		{"__unm", func(f Expr) []Stat {
			return []Stat{Local1("o", mt("__unm", Func(names("a"), false, Return(Call(f, Str("unm")))))), Emit(Str("b"), Un("-", Name("o")))}
		}},
		{"__call", func(f Expr) []Stat {
			return []Stat{Local1("o", mt("__call", Func(names("self", "a"), false, Return(Call(f, Name("a")))))), Emit(Str("b"), CallN("o", Str("called")))}
		}},
		{"iterator", func(f Expr) []Stat {
			return []Stat{GenFor(names("i"), []Expr{Func(names("s", "c"), false, If(Bin("<", Name("c"), Num(2)), CallS(f, Name("c")), Return(Bin("+", Name("c"), Num(1))))), Nil(), Num(0)}, Emit(Str("loop"), Name("i"))), Emit(Str("b"))}
		}},
		{"tostring", func(f Expr) []Stat {
			return []Stat{Local1("o", mt("__tostring", Func(names("a"), false, CallS(f, Str("ts")), Return(Str("TS"))))), Emit(Str("b"), CallN("tostring", Name("o")))}
		}},
		{"hostcall", func(f Expr) []Stat { return []Stat{Emit(Str("b"), CallN("hcall", f, Str("a1")))} }},
		{"none", func(f Expr) []Stat { return []Stat{Emit(Str("b"), Call(f, Str("a1")))} }},
	}
	return func(yield func(*Prog)) {
		for _, b := range bs {
			for _, depth := range []int{0, 1, 2} {
				for _, how := range []string{"create", "wrap"} {
					for _, protect := range []bool{false, true} {
						b, depth, how, protect := b, depth, how, protect
						yield(&Prog{Family: "F-yieldacross", Shape: fmt.Sprintf("%s/depth%d/%s/protected=%v", b.name, depth, how, protect), Mk: func() *Block {
							// yielder(a): yields ("in", a) and returns what the resume passes
							var yielder Stat
							if depth == 2 {
								// coroutine.yield itself is what the boundary calls (a Go function as the direct callee)
								yielder = Local1("yielder", Dot(Name("coroutine"), "yield"))
							} else if depth == 0 {
								yielder = LocalFunc("yielder", Func(names("a"), false, Emit(Str("before-yield"), Name("a")), Local(names("r1", "r2"), y(Str("in"), Name("a"))), Emit(Str("after-yield"), Name("r1"), Name("r2")), Return(Name("r1"))))
							} else {
								yielder = LocalFunc("yielder", Func(names("a"), false, LocalFunc("deeper", Func(names("x"), false, Local1("keep", Name("x")), Local(names("r1", "r2"), y(Str("in"), Name("x"))), Return(Name("r1"), Name("keep")))), Local(names("q1", "q2"), CallN("deeper", Name("a"))), Emit(Str("after-yield"), Name("q1"), Name("q2")), Return(Name("q1"))))
							}
							inner := b.mk(Name("yielder"))
							if protect && b.name != "pcall" && b.name != "xpcall" {
								// the whole boundary construct inside a pcall of the body
								inner = []Stat{Emit(Str("prot"), CallN("pcall", Func(nil, false, inner...)))}
							}
							body := []Stat{Emit(Str("start"), Vararg())}
							body = append(body, inner...)
							body = append(body, Emit(Str("base-yield"), y(Str("base"), Num(7))), Return(Str("end")))
							st := []Stat{yielder, Local1("body", Func(nil, true, body...))}
							if how == "create" {
								st = append(st, Local1("co", Call(Dot(Name("coroutine"), "create"), Name("body"))))
								for i := 1; i <= 4; i++ {
									st = append(st, Emit(Str("resume"), Num(float64(i)), Call(Dot(Name("coroutine"), "resume"), Name("co"), Str(fmt.Sprintf("v%d", i)), Num(float64(i)))), Emit(Str("status"), Call(Dot(Name("coroutine"), "status"), Name("co"))))
								}
							} else {
								st = append(st, Local1("w", Call(Dot(Name("coroutine"), "wrap"), Name("body"))))
								for i := 1; i <= 4; i++ {
									st = append(st, Emit(Str("call"), Num(float64(i)), Paren(CallN("pcall", Name("w"), Str(fmt.Sprintf("v%d", i)), Num(float64(i))))))
								}
							}
							// the main thread still works as before
							st = append(st, Emit(Str("main"), Call(Dot(Name("coroutine"), "running")), Paren(CallN("pcall", Dot(Name("coroutine"), "yield"), Num(1)))))
							return Blk(st...)
						}})
					}
				}
			}
		}
	}
}

// genHostBody — coroutines whose body is a host (Go) function: its results are the results of the
// resume, the coroutine is dead afterwards; coroutine.yield itself as the body suspends once and
// then returns the values of the second resume; error as the body kills the coroutine.
func genHostBody() Gen {
	bodies := []struct {
		name string
		mk   func() Expr
	}{
		{"emit", func() Expr { return Name("emit") }}, {"hid", func() Expr { return Name("hid") }}, {"hn", func() Expr { return Name("hn") }},
		{"yield", func() Expr { return Dot(Name("coroutine"), "yield") }}, {"error", func() Expr { return Name("error") }},
		{"select", func() Expr { return Name("select") }}, {"type", func() Expr { return Name("type") }}, {"pcall", func() Expr { return Name("pcall") }},
		{"status", func() Expr { return Dot(Name("coroutine"), "status") }}, {"running", func() Expr { return Dot(Name("coroutine"), "running") }},
	}
	argsets := []struct {
		name string
		mk   func() []Expr
	}{
		{"none", func() []Expr { return nil }},
		{"two", func() []Expr { return []Expr{Num(2), Str("x")} }},
		{"fn", func() []Expr {
			return []Expr{Func(nil, true, Emit(Str("in-fn"), Vararg()), Return(Call(Dot(Name("coroutine"), "yield"), Str("from-fn")))), Str("a")}
		}},
	}
	return func(yield func(*Prog)) {
		for _, b := range bodies {
			for _, as := range argsets {
				for _, how := range []string{"create", "wrap"} {
					b, as, how := b, as, how
					yield(&Prog{Family: "F-hostbody", Shape: b.name + "/" + as.name + "/" + how, Mk: func() *Block {
						var st []Stat
						if how == "create" {
							st = append(st, Local1("co", Call(Dot(Name("coroutine"), "create"), b.mk())))
							for i := 1; i <= 3; i++ {
								args := append([]Expr{Name("co")}, as.mk()...)
								st = append(st, Emit(Str("resume"), Num(float64(i)), Call(Dot(Name("coroutine"), "resume"), args...)), Emit(Str("status"), Call(Dot(Name("coroutine"), "status"), Name("co"))))
							}
						} else {
							st = append(st, Local1("w", Call(Dot(Name("coroutine"), "wrap"), b.mk())))
							for i := 1; i <= 3; i++ {
								args := append([]Expr{Name("w")}, as.mk()...)
								st = append(st, Emit(Str("call"), Num(float64(i)), CallN("pcall", args...)))
							}
						}
						st = append(st, Emit(Str("main"), Call(Dot(Name("coroutine"), "running"))))
						return Blk(st...)
					}})
				}
			}
		}
	}
}

// genCoChain — coroutines created by coroutines, to depth 2-4: level k creates level k+1 when it
// starts (optionally resuming it at once, so that the creation happens below k nested resumes),
// yields, and dies at its second resume; the driver then runs every sequence of up to 4 resumes
// over the levels, so that deeper coroutines are used after the ones that created them (and the
// ones that were resuming those at the time) are dead. Observed: every resume's results, every
// status, the payloads each level sees.
func genCoChain() Gen {
	co := func(f string, args ...Expr) Expr { return Call(Dot(Name("coroutine"), f), args...) }
	return func(yield func(*Prog)) {
		for depth := 2; depth <= 4; depth++ {
			for _, eager := range []bool{false, true} {
				seqLen := 4
				if depth == 4 {
					seqLen = 3
				}
				var seqs [][]int
				var rec func(cur []int)
				rec = func(cur []int) {
					if len(cur) > 0 {
						seqs = append(seqs, append([]int(nil), cur...))
					}
					if len(cur) == seqLen {
						return
					}
					for i := 1; i <= depth; i++ {
						rec(append(cur, i))
					}
				}
				rec(nil)
				for _, sq := range seqs {
					depth, eager, sq := depth, eager, sq
					yield(&Prog{Family: "F-cochain", Shape: fmt.Sprintf("depth%d/eager=%v/%v", depth, eager, sq), Mk: func() *Block {
						body := []Stat{Emit(Str("start"), Name("k"), Vararg())}
						create := []Stat{Assign1(Index(Name("cos"), Bin("+", Name("k"), Num(1))), CallN("mk", Bin("+", Name("k"), Num(1))))}
						if eager {
							create = append(create, Emit(Str("eager"), Name("k"), co("resume", Index(Name("cos"), Bin("+", Name("k"), Num(1))), Str("from"), Name("k"))))
						}
						body = append(body, If(Bin("<", Name("k"), Num(float64(depth))), create...))
						body = append(body, Local(names("v", "w"), co("yield", Bin("..", Str("y"), Name("k")), Name("k"))), Emit(Str("resumed"), Name("k"), Name("v"), Name("w")), Return(Bin("..", Str("ret"), Name("k"))))
						st := []Stat{Local1("cos", TableE()), Local1("mk", Nil()),
							Assign1(Name("mk"), Func(names("k"), false, Return(co("create", Func(nil, true, body...))))),
							Assign1(Index(Name("cos"), Num(1)), CallN("mk", Num(1)))}
						report := func() Stat {
							var a []Expr
							a = append(a, Str("status"))
							for i := 1; i <= depth; i++ {
								a = append(a, Bin("and", Index(Name("cos"), Num(float64(i))), co("status", Index(Name("cos"), Num(float64(i))))))
							}
							return Emit(a...)
						}
						for n, i := range sq {
							st = append(st, If(Index(Name("cos"), Num(float64(i))),
								Emit(Str("resume"), Num(float64(i)), co("resume", Index(Name("cos"), Num(float64(i))), Str(fmt.Sprintf("p%d", n)), Num(float64(n))))), report())
						}
						return Blk(st...)
					}})
				}
			}
		}
	}
}

// genCoOverflow — a coroutine that dies (or recovers) from an error raised while its value stack
// is exhausted: unpack of 10 000 values (beyond Lua 5.1's C-stack limit of 8 000 and beyond
// gopher-lua's default registry). The error must reach the resumer as (false, message) / a raised
// error for wrap, the coroutine must be dead, and resumer, main thread and later coroutines work.
func genCoOverflow() Gen {
	co := func(f string, args ...Expr) Expr { return Call(Dot(Name("coroutine"), f), args...) }
	bodies := []struct {
		name string
		mk   func() []Stat
	}{
		{"return-unpack", func() []Stat { return []Stat{Return(CallN("select", Str("#"), CallN("unpack", Name("big"))))} }},
		{"local-unpack", func() []Stat {
			return []Stat{Local1("n", CallN("select", Str("#"), CallN("unpack", Name("big")))), Return(Name("n"))}
		}},
		{"after-yield", func() []Stat {
			return []Stat{Emit(Str("got"), co("yield", Str("first"))), Return(CallN("select", Str("#"), CallN("unpack", Name("big"))))}
		}},
		{"caught-inside", func() []Stat {
			return []Stat{Emit(Str("inner"), Paren(CallN("pcall", Func(nil, false, Return(CallN("select", Str("#"), CallN("unpack", Name("big")))))))), Emit(Str("got"), co("yield", Str("still-alive"))), Return(Str("end"))}
		}},
		{"string-byte", func() []Stat {
			// (string.byte pushes its results one at a time: the stack is really full when the error is raised)
			return []Stat{Return(CallN("select", Str("#"), Call(Dot(Name("string"), "byte"), Name("bigs"), Num(1), Un("-", Num(1)))))}
		}},
		{"string-byte-after-yield", func() []Stat {
			return []Stat{Emit(Str("got"), co("yield", Str("first"))), Local1("n", CallN("select", Str("#"), Call(Dot(Name("string"), "byte"), Name("bigs"), Num(1), Un("-", Num(1))))), Return(Name("n"))}
		}},
		{"vararg-call", func() []Stat {
			return []Stat{LocalFunc("va", Func(nil, true, Return(CallN("select", Str("#"), Vararg())))), Return(CallN("va", CallN("unpack", Name("big"))))}
		}},
	}
	return func(yield func(*Prog)) {
		for _, b := range bodies {
			for _, how := range []string{"create", "wrap"} {
				for _, nested := range []bool{false, true} {
					b, how, nested := b, how, nested
					yield(&Prog{Family: "F-cooverflow", Shape: fmt.Sprintf("%s/%s/nested=%v", b.name, how, nested), Mk: func() *Block {
						st := []Stat{Local1("big", TableE()), NumFor("i", Num(1), Num(10000), nil, Assign1(Index(Name("big"), Name("i")), Name("i"))),
							Local1("bigs", Call(Dot(Name("string"), "rep"), Str("0123456789"), Num(1000)))}
						var drive []Stat
						if how == "create" {
							drive = append(drive, Local1("co", co("create", Func(nil, true, b.mk()...))))
							for i := 1; i <= 3; i++ {
								drive = append(drive, Emit(Str("resume"), Num(float64(i)), CallN("type", Paren(co("resume", Name("co"), Str("v")))), Paren(co("resume", Name("co"), Str("v")))),
									Emit(Str("status"), co("status", Name("co")), co("running")))
							}
						} else {
							drive = append(drive, Local1("w", co("wrap", Func(nil, true, b.mk()...))))
							for i := 1; i <= 3; i++ {
								drive = append(drive, Emit(Str("call"), Num(float64(i)), Paren(CallN("pcall", Name("w"), Str("v")))), Emit(Str("running"), co("running")))
							}
						}
						// a fresh coroutine afterwards still works
						drive = append(drive, Local1("co2", co("create", Func(names("a"), false, Return(Bin("+", Name("a"), Num(1)))))), Emit(Str("fresh"), co("resume", Name("co2"), Num(41))))
						if nested {
							st = append(st, Local1("outer", co("create", Func(nil, false, append(drive, Return(Str("outer-done")))...))),
								Emit(Str("outer"), co("resume", Name("outer"))), Emit(Str("outer-status"), co("status", Name("outer")), co("running")))
						} else {
							st = append(st, drive...)
						}
						return Blk(st...)
					}})
				}
			}
		}
	}
}
