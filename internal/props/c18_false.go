package props

// C18 supplement: lists that hold `false` (a non-nil element that is falsy). Every history up to a
// depth bound over {insert(t,v), insert(t,pos,v), remove(t), remove(t,pos), t[n+1]=v, t[n]=nil,
// t[i]=v} with v in {1, false} is replayed on a fresh table and compared with a Go slice.

import (
	"fmt"
	"strings"

	lua "github.com/yuin/gopher-lua"

	"verif/internal/harness"
)

type c18fOp struct {
	kind string
	pos  int
	v    int // 0: 1, 1: false
}

func (o c18fOp) String() string {
	vs := []string{"1", "false"}[o.v]
	switch o.kind {
	case "ins":
		return "insert(t," + vs + ")"
	case "insp":
		return fmt.Sprintf("insert(t,%d,%s)", o.pos, vs)
	case "rem":
		return "remove(t)"
	case "remp":
		return fmt.Sprintf("remove(t,%d)", o.pos)
	case "setend":
		return "t[n+1]=" + vs
	case "shrink":
		return "t[n]=nil"
	case "setat":
		return fmt.Sprintf("t[%d]=%s", o.pos, vs)
	}
	return "?"
}

func c18FalseFamily(r *harness.Run) {
	depth := 4
	if r.Thorough() {
		depth = 6
	}
	vals := []lua.LValue{lua.LNumber(1), lua.LFalse}
	code := func(v lua.LValue) byte {
		switch v {
		case lua.LNil:
			return '-'
		case lua.LFalse:
			return 'f'
		}
		if v == lua.LNumber(1) {
			return '1'
		}
		return '?'
	}
	type worker struct {
		L                                          *lua.LState
		ins, insp, rem, remp, set, length, unpack3 *lua.LFunction
	}
	nw := harness.Workers()
	workers := make([]*worker, nw)
	for i := range workers {
		w := &worker{L: lua.NewState()}
		load := func(src string) *lua.LFunction {
			if err := w.L.DoString("return " + src); err != nil {
				harness.Fatal("c18f: %v", err)
			}
			f := w.L.Get(-1).(*lua.LFunction)
			w.L.Pop(1)
			return f
		}
		w.ins = load("function(t,v) table.insert(t,v) end")
		w.insp = load("function(t,p,v) table.insert(t,p,v) end")
		w.rem = load("function(t) return table.remove(t) end")
		w.remp = load("function(t,p) return table.remove(t,p) end")
		w.set = load("function(t,i,v) t[i]=v end")
		w.length = load("function(t) return #t, table.getn(t), table.maxn(t) end")
		w.unpack3 = load("function(t,i,j) return unpack(t,i,j) end")
		workers[i] = w
	}
	defer func() {
		for _, w := range workers {
			w.L.Close()
		}
	}()
	call := func(w *worker, f *lua.LFunction, nret int, args ...lua.LValue) ([]lua.LValue, error) {
		L := w.L
		top := L.GetTop()
		L.Push(f)
		for _, a := range args {
			L.Push(a)
		}
		if err := L.PCall(len(args), nret, nil); err != nil {
			L.SetTop(top)
			return nil, err
		}
		var out []lua.LValue
		for i := top + 1; i <= L.GetTop(); i++ {
			out = append(out, L.Get(i))
		}
		L.SetTop(top)
		return out, nil
	}
	// enumerate first-level prefixes for sharding
	menu := func(n int) []c18fOp {
		var m []c18fOp
		for v := 0; v < 2; v++ {
			m = append(m, c18fOp{"ins", 0, v}, c18fOp{"setend", 0, v})
			for p := 1; p <= n+1; p++ {
				m = append(m, c18fOp{"insp", p, v})
			}
			for p := 1; p <= n; p++ {
				m = append(m, c18fOp{"setat", p, v})
			}
		}
		if n > 0 {
			m = append(m, c18fOp{"rem", 0, 0}, c18fOp{"shrink", 0, 0})
			for p := 1; p <= n; p++ {
				m = append(m, c18fOp{"remp", p, 0})
			}
		}
		return m
	}
	var total int64
	first := menu(0)
	harness.ParallelShards(len(first), func(wi, si int) {
		w := workers[wi]
		var hist []c18fOp
		var cnt int64
		var rec func(model []byte)
		replay := func() (*lua.LTable, string) {
			tb := w.L.NewTable()
			var m []byte
			for _, op := range hist {
				n := len(m)
				var ret []lua.LValue
				var err error
				var wantRet byte = 0
				switch op.kind {
				case "ins":
					_, err = call(w, w.ins, 0, tb, vals[op.v])
					m = append(m, code(vals[op.v]))
				case "setend":
					_, err = call(w, w.set, 0, tb, lua.LNumber(n+1), vals[op.v])
					m = append(m, code(vals[op.v]))
				case "insp":
					_, err = call(w, w.insp, 0, tb, lua.LNumber(op.pos), vals[op.v])
					m = append(m[:op.pos-1], append([]byte{code(vals[op.v])}, m[op.pos-1:]...)...)
				case "setat":
					_, err = call(w, w.set, 0, tb, lua.LNumber(op.pos), vals[op.v])
					m[op.pos-1] = code(vals[op.v])
				case "rem":
					ret, err = call(w, w.rem, 1, tb)
					wantRet = m[n-1]
					m = m[:n-1]
				case "shrink":
					_, err = call(w, w.set, 0, tb, lua.LNumber(n), lua.LNil)
					m = m[:n-1]
				case "remp":
					ret, err = call(w, w.remp, 1, tb, lua.LNumber(op.pos))
					wantRet = m[op.pos-1]
					m = append(m[:op.pos-1], m[op.pos:]...)
				}
				if err != nil {
					return tb, "error: " + err.Error()
				}
				if wantRet != 0 && (len(ret) != 1 || code(ret[0]) != wantRet) {
					return tb, fmt.Sprintf("%s returned %v, expected %c", op, ret, wantRet)
				}
			}
			// observers
			n := len(m)
			ls, err := call(w, w.length, 3, tb)
			if err != nil {
				return tb, "error: " + err.Error()
			}
			for i, name := range []string{"#t", "getn", "maxn"} {
				if ls[i] != lua.LNumber(n) {
					return tb, fmt.Sprintf("%s = %v, the list has %d elements (%s)", name, ls[i], n, m)
				}
			}
			vs, err := call(w, w.unpack3, lua.MultRet, tb, lua.LNumber(1), lua.LNumber(n+2))
			if err != nil {
				return tb, "error: " + err.Error()
			}
			got := make([]byte, len(vs))
			for i, v := range vs {
				got[i] = code(v)
			}
			if want := string(m) + "--"; string(got) != want {
				return tb, fmt.Sprintf("unpack(t,1,n+2) = %q, expected %q", got, want)
			}
			return tb, ""
		}
		rec = func(model []byte) {
			_, bad := replay()
			cnt++
			// recompute the model length from the history
			if bad != "" {
				hs := make([]string, len(hist))
				for i, o := range hist {
					hs[i] = o.String()
				}
				kinds := make([]string, len(hist))
				for i, o := range hist {
					kinds[i] = o.kind
				}
				r.Violation("falselist/"+strings.Join(kinds, ",")+"/"+firstWords(bad, 1), bad+"\nhistory: "+strings.Join(hs, " ; "), map[string]interface{}{"kind": "list-with-false", "history": hs})
				return
			}
			if len(hist) == depth {
				return
			}
			n := len(model)
			for _, op := range menu(n) {
				nm := append([]byte{}, model...)
				switch op.kind {
				case "ins", "setend":
					nm = append(nm, 'x')
				case "insp":
					nm = append(nm, 'x')
				case "rem", "shrink", "remp":
					nm = nm[:n-1]
				}
				hist = append(hist, op)
				rec(nm)
				hist = hist[:len(hist)-1]
			}
		}
		hist = []c18fOp{first[si]}
		rec([]byte{'x'})
		r.EvalN(cnt)
		_ = total
		r.Count("falselist_histories", cnt)
	})
	r.Nontrivial("falselist-family")
	r.AddSample(map[string]interface{}{"family": "lists holding false", "depth": depth, "example_history": []string{"insert(t,1)", "insert(t,false)", "t[n+1]=1", "t[n]=nil", "insert(t,1)"}})
}

// c18LargeLists — the list functions on lists far longer than the value stack is deep (the default
// registry holds 5120 values): concat with and without separator and range, insert/remove at both
// ends, maxn/getn/#, and the *type* of concat's result for one- and many-element lists.
func c18LargeLists(r *harness.Run) {
	L := lua.NewState()
	defer L.Close()
	for _, n := range []int{1, 2, 2559, 2560, 2561, 2700, 5119, 5120, 5121, 20000} {
		for _, kind := range []string{"num", "str", "mixed"} {
			elem := func(i int) (lit string, text string) {
				switch {
				case kind == "num" || kind == "mixed" && i%2 == 0:
					return fmt.Sprint(i % 10), fmt.Sprint(i % 10)
				default:
					return fmt.Sprintf("%q", string(rune('a'+i%26))), string(rune('a' + i%26))
				}
			}
			var all, sep, tail []string
			for i := 1; i <= n; i++ {
				_, t := elem(i)
				all = append(all, t)
				if i >= n-2 {
					tail = append(tail, t)
				}
			}
			_ = sep
			src := fmt.Sprintf(`local n, kind = %d, %q
local t = {}
for i = 1, n do
  if kind == "num" or (kind == "mixed" and i %% 2 == 0) then t[i] = i %% 10 else t[i] = string.char(97 + i %% 26) end
end
local a = table.concat(t)
local b = table.concat(t, ",")
local c = table.concat(t, "--", math.max(n - 2, 1), n)
local d = table.concat(t, ",", n, n)
local l1, l2, l3 = #t, table.getn(t), table.maxn(t)
table.insert(t, "Z")
table.insert(t, 1, "A")
local e = #t .. ":" .. tostring(t[1]) .. tostring(t[2]) .. tostring(t[#t])
local r1 = table.remove(t, 1)
local r2 = table.remove(t)
local f = #t .. ":" .. tostring(r1) .. tostring(r2) .. tostring(t[1]) .. tostring(t[#t])
return a, b, c, d, type(a), type(d), l1, l2, l3, e, f`, n, kind)
			fn, err := L.LoadString(src)
			if err != nil {
				harness.Fatal("c18 large: %v", err)
			}
			L.Push(fn)
			sig := fmt.Sprintf("large/n=%d/%s", n, kind)
			r.Eval(sig, true, func() interface{} { return map[string]interface{}{"case": "large list", "n": n, "elements": kind} })
			if err := L.PCall(0, lua.MultRet, nil); err != nil {
				r.Violation(sig+"/error", fmt.Sprintf("list functions on a list of %d elements raised: %v", n, err), map[string]interface{}{"source": src})
				L.SetTop(0)
				continue
			}
			first, _ := elem(1)
			_ = first
			_, e1 := elem(1)
			_, en := elem(n)
			want := []string{strings.Join(all, ""), strings.Join(all, ","), strings.Join(tail, "--"), en, "string", "string", fmt.Sprint(n), fmt.Sprint(n), fmt.Sprint(n),
				fmt.Sprintf("%d:A%sZ", n+2, e1), fmt.Sprintf("%d:AZ%s%s", n, e1, en)}
			names := []string{"concat(t)", "concat(t,',')", "concat(t,'--',n-2,n)", "concat(t,',',n,n)", "type(concat(t))", "type(concat(t,',',n,n))", "#t", "getn", "maxn", "after-insert", "after-remove"}
			for i, w := range want {
				got := L.Get(i + 1).String()
				if got != w {
					show := func(s string) string {
						if len(s) > 60 {
							return s[:30] + "…" + s[len(s)-30:]
						}
						return s
					}
					r.Violation(sig+"/"+names[i], fmt.Sprintf("%s on a list of %d elements: got %s, expected %s", names[i], n, show(got), show(w)), map[string]interface{}{"source": src})
					break
				}
			}
			L.SetTop(0)
		}
	}
}

// c18NilArgs — an optional argument given as an explicit nil means the same as the omitted
// argument (luaL_opt* / lua_isnoneornil in ltablib.c): every list over {1,2,3} of length <= 3 x
// every optional-argument position of sort, remove, concat, unpack.
func c18NilArgs(r *harness.Run) {
	L := lua.NewState()
	defer L.Close()
	forms := []struct{ name, omitted, withNil string }{
		{"sort(t,nil)", `table.sort(t) return table.concat(t, ",")`, `table.sort(t, nil) return table.concat(t, ",")`},
		{"remove(t,nil)", `local v = table.remove(t) return tostring(v) .. "|" .. table.concat(t, ",")`, `local v = table.remove(t, nil) return tostring(v) .. "|" .. table.concat(t, ",")`},
		{"concat(t,nil)", `return table.concat(t)`, `return table.concat(t, nil)`},
		{"concat(t,s,nil)", `return table.concat(t, ",")`, `return table.concat(t, ",", nil)`},
		{"concat(t,s,nil,nil)", `return table.concat(t, ",")`, `return table.concat(t, ",", nil, nil)`},
		{"concat(t,s,2,nil)", `return table.concat(t, ",", 2)`, `return table.concat(t, ",", 2, nil)`},
		{"concat(t,nil,nil,2)", `return table.concat(t, "", 1, 2)`, `return table.concat(t, nil, nil, 2)`},
		{"unpack(t,nil)", `return select("#", unpack(t)) .. ":" .. table.concat({unpack(t)}, ",")`, `return select("#", unpack(t, nil)) .. ":" .. table.concat({unpack(t, nil)}, ",")`},
		{"unpack(t,nil,nil)", `return select("#", unpack(t)) .. ":" .. table.concat({unpack(t)}, ",")`, `return select("#", unpack(t, nil, nil)) .. ":" .. table.concat({unpack(t, nil, nil)}, ",")`},
		{"unpack(t,nil,2)", `return select("#", unpack(t, 1, 2)) .. ":" .. tostring((unpack(t, 1, 2)))`, `return select("#", unpack(t, nil, 2)) .. ":" .. tostring((unpack(t, nil, 2)))`},
		{"unpack(t,2,nil)", `return select("#", unpack(t, 2)) .. ":" .. tostring((unpack(t, 2)))`, `return select("#", unpack(t, 2, nil)) .. ":" .. tostring((unpack(t, 2, nil)))`},
	}
	var lists []string
	var rec func(cur []string)
	rec = func(cur []string) {
		lists = append(lists, "{"+strings.Join(cur, ",")+"}")
		if len(cur) == 3 {
			return
		}
		for _, v := range []string{"1", "2", "3"} {
			rec(append(append([]string(nil), cur...), v))
		}
	}
	rec(nil)
	run := func(list, body string) string {
		if err := L.DoString("local t = " + list + " " + body); err != nil {
			L.SetTop(0)
			return "error: " + err.Error()
		}
		s := L.Get(1).String()
		L.SetTop(0)
		return s
	}
	for _, f := range forms {
		for _, l := range lists {
			a, b := run(l, f.omitted), run(l, f.withNil)
			sig := "nilarg/" + f.name
			r.Eval(sig+"/"+l, true, func() interface{} {
				return map[string]interface{}{"case": "explicit nil argument", "form": f.name, "list": l}
			})
			if strings.HasPrefix(a, "error: ") && strings.HasPrefix(b, "error: ") {
				continue // both raise (e.g. remove on an empty list is fine, concat of a missing range): same class
			}
			if a != b {
				r.Violation(sig, fmt.Sprintf("%s on %s: with the argument omitted the result is %q, with an explicit nil it is %q", f.name, l, a, b), map[string]interface{}{"list": l, "omitted": f.omitted, "with_nil": f.withNil})
			}
		}
	}
}

// c18NilInsert — table.insert(t, pos, nil) shifts t[pos..n] up and leaves a nil at pos (ltablib.c
// tinsert moves the elements and then sets t[pos] = nil value like any other). Lengths are not
// judged afterwards (the table has a hole); the raw content of positions 1..n+2 is.
func c18NilInsert(r *harness.Run) {
	L := lua.NewState()
	defer L.Close()
	for n := 1; n <= 5; n++ {
		for pos := 1; pos <= n; pos++ {
			for _, via := range []string{"table.insert", "LTable.Insert"} {
				var src string
				if via == "table.insert" {
					src = fmt.Sprintf(`local t = {} for i = 1, %d do t[i] = i * 10 end table.insert(t, %d, nil) local s = "" for i = 1, %d do s = s .. tostring(rawget(t, i)) .. "," end return s`, n, pos, n+2)
				} else {
					src = fmt.Sprintf(`local t = {} for i = 1, %d do t[i] = i * 10 end goinsert(t, %d) local s = "" for i = 1, %d do s = s .. tostring(rawget(t, i)) .. "," end return s`, n, pos, n+2)
				}
				L.SetGlobal("goinsert", L.NewFunction(func(L *lua.LState) int {
					L.CheckTable(1).Insert(L.CheckInt(2), lua.LNil)
					return 0
				}))
				want := ""
				for i := 1; i <= n+2; i++ {
					switch {
					case i < pos:
						want += fmt.Sprint(i*10) + ","
					case i == pos:
						want += "nil,"
					case i <= n+1:
						want += fmt.Sprint((i-1)*10) + ","
					default:
						want += "nil,"
					}
				}
				sig := fmt.Sprintf("nilinsert/%s/n=%d/pos=%d", via, n, pos)
				r.Eval(sig, true, func() interface{} {
					return map[string]interface{}{"case": "insert of nil", "n": n, "pos": pos, "via": via}
				})
				if err := L.DoString(src); err != nil {
					r.Violation("nilinsert/"+via+"/error", fmt.Sprintf("%s of nil at position %d of a %d-element list raised: %v", via, pos, n, err), map[string]interface{}{"source": src})
					L.SetTop(0)
					continue
				}
				got := L.Get(1).String()
				L.SetTop(0)
				if got != want {
					r.Violation("nilinsert/"+via+"/content", fmt.Sprintf("%s of nil at position %d of {10..%d}: positions 1..%d hold %s, expected %s", via, pos, n*10, n+2, got, want), map[string]interface{}{"source": src})
				}
			}
		}
	}
}
