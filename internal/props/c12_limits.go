package props

// C12 part 2 — limits surface as catchable errors, end-to-end on real LStates.

import (
	"context"
	"encoding/json"
	"fmt"
	"sort"
	"strings"
	"sync"
	"sync/atomic"

	lua "github.com/yuin/gopher-lua"
	"github.com/yuin/gopher-lua/parse"

	"verif/internal/harness"
)

// ---- options -------------------------------------------------------------------------------------

type c12Opts struct {
	CSS   int  `json:"CallStackSize"`
	Min   bool `json:"MinimizeStackMemory"`
	RS    int  `json:"RegistrySize"`
	RMax  int  `json:"RegistryMaxSize"`
	RStep int  `json:"RegistryGrowStep"`
	Ctx   bool `json:"context_attached"`
}

func (o c12Opts) lua() lua.Options {
	return lua.Options{CallStackSize: o.CSS, MinimizeStackMemory: o.Min, RegistrySize: o.RS, RegistryMaxSize: o.RMax, RegistryGrowStep: o.RStep}
}

func (o c12Opts) String() string {
	return fmt.Sprintf("css=%d,min=%v,rs=%d,rmax=%d,rstep=%d,ctx=%v", o.CSS, o.Min, o.RS, o.RMax, o.RStep, o.Ctx)
}

func (o c12Opts) stackKind() string {
	if o.Min {
		return "auto"
	}
	return "fixed"
}

func (o c12Opts) regKind() string {
	k := "rfixed"
	if o.RMax > o.RS && o.RMax > 0 {
		k = fmt.Sprintf("rgrow%d", o.RStep)
	}
	if o.Min {
		k += "-auto"
	}
	return k
}

func (o c12Opts) regLimit() int {
	rs := o.RS
	if rs < 128 {
		rs = lua.RegistrySize
	}
	if o.RMax > rs {
		return o.RMax
	}
	return rs
}

// c12NewState creates a state; a Go panic out of NewState (OpenLibs runs Lua calls) is returned as text.
func c12NewState(o c12Opts) (L *lua.LState, cancel context.CancelFunc, failed string) {
	cancel = func() {}
	if p := c12Protect(func() { L = lua.NewState(o.lua()) }); p != "" {
		return nil, cancel, "NewState(" + o.String() + ") panicked: " + p
	}
	if o.Ctx {
		var ctx context.Context
		ctx, cancel = context.WithCancel(context.Background())
		L.SetContext(ctx)
	}
	return L, cancel, ""
}

// ---- Lua sources ---------------------------------------------------------------------------------

const c12Prelude = `
keep = {}
function rec(n)
  local x = n * 10
  keep[#keep+1] = function() return x end
  if n == 0 then probe() return 0 end
  local r = 1 + rec(n-1)
  x = x + 1
  return r
end
function down(b, f)
  if b == 0 then local r1, r2 = f() return r1, r2 end
  local r1, r2 = down(b-1, f)
  return r1, r2
end
function handler(m) HMSG = m return m end
function mk(n) local t = {} for i = 1, n do t[i] = i * 3 + 1 end return t end
function cnt(...) return select('#', ...) end
function pack(...) return {...} end
function prep(n)
  T = mk(n)
  S = string.rep("x", n)
  B = {}
  for i = 1, n do B[i] = 65 + i % 26 end
end
`

type c12Family struct {
	name   string
	body   string // statements computing local r from n, T, S, B
	tail   bool   // body ends in a tail call (no increment of the captured local afterwards)
	expect func(n int) float64
	needLo func(n int) int
	needHi func(n int) int
	minN   int
	maxN   int  // 0 = unbounded
	perN   bool // source depends on n
}

func c12Checksum(n int) float64 {
	s := 0
	for i := 1; i <= n; i++ {
		s += (i*3 + 1) * (i%7 + 1)
	}
	return float64(s + n)
}

const c12Slack = 64

func c12Families() []*c12Family {
	lin := func(a, b int) func(int) int { return func(n int) int { return a*n + b } }
	fn := func(n int) float64 { return float64(n) }
	return []*c12Family{
		{name: "count", body: "local r = cnt(unpack(T))", expect: fn, needLo: lin(1, 0), needHi: lin(3, c12Slack), minN: 1},
		{name: "tailcount", body: "return cnt(unpack(T))", tail: true, expect: fn, needLo: lin(1, 0), needHi: lin(3, c12Slack), minN: 1},
		{name: "pack", body: "local p = pack(unpack(T)) local s = 0 for i = 1, #p do s = s + p[i] * (i % 7 + 1) end local r = s + #p", expect: c12Checksum, needLo: lin(1, 0), needHi: lin(3, c12Slack), minN: 1},
		{name: "select", body: "local r = (select(n, unpack(T)))", expect: func(n int) float64 { return float64(3*n + 1) }, needLo: lin(1, 0), needHi: lin(2, c12Slack), minN: 1},
		{name: "selcount", body: "local r = select('#', unpack(T))", expect: fn, needLo: lin(1, 0), needHi: lin(2, c12Slack), minN: 1},
		{name: "retmany", body: "local function many() return unpack(T) end local r = cnt(many())", expect: fn, needLo: lin(1, 0), needHi: lin(3, c12Slack), minN: 1},
		{name: "tblctor", body: "local p = {unpack(T)} local r = #p + p[#p]", expect: func(n int) float64 { return float64(n + 3*n + 1) }, needLo: lin(1, 0), needHi: lin(2, c12Slack), minN: 1},
		{name: "vafwd", body: "local function fwd(...) local c = cnt(...) return c end local r = fwd(unpack(T))", expect: fn, needLo: lin(1, 0), needHi: lin(5, c12Slack), minN: 1},
		{name: "vatbl", body: "local function va(...) local p = {...} local c = #p + select('#', ...) return c end local r = va(unpack(T))", expect: func(n int) float64 { return float64(2 * n) }, needLo: lin(1, 0), needHi: lin(4, c12Slack), minN: 1},
		{name: "strbyte", body: "local r = cnt(string.byte(S, 1, -1))", expect: fn, needLo: lin(1, 0), needHi: lin(3, c12Slack), minN: 1},
		{name: "strchar", body: "local r = #string.char(unpack(B))", expect: fn, needLo: lin(1, 0), needHi: lin(2, c12Slack), minN: 1},
		{name: "mathmax", body: "local r = math.max(unpack(T))", expect: func(n int) float64 { return float64(3*n + 1) }, needLo: lin(1, 0), needHi: lin(2, c12Slack), minN: 1},
		// (table.concat is not among the vehicles: it need not use the value stack at all — ltablib.c does
		// not, and gopher-lua no longer does since its repair — so nothing can be said about its demand)
		{name: "coargs", body: "local co = coroutine.wrap(function(...) local c = select('#', ...) local c2 = cnt(coroutine.yield(c)) return c2 end) local c = co(unpack(T)) local c2 = co(unpack(T)) local r = c + c2",
			expect: func(n int) float64 { return float64(2 * n) }, needLo: lin(1, 0), needHi: lin(3, c12Slack), minN: 1},
		{name: "coyield", body: "local co = coroutine.wrap(function() coroutine.yield(unpack(T)) return 0 end) local r = cnt(co())", expect: fn, needLo: lin(1, 0), needHi: lin(3, c12Slack), minN: 1},
		{name: "deeplocals", body: "local r = deep40(n)", expect: func(n int) float64 { return float64(39 + n) }, needLo: lin(40, 0), needHi: func(n int) int { return 48*(n+1) + c12Slack }, minN: 1, maxN: 200},
		{name: "litargs", perN: true, body: "", expect: fn, needLo: lin(1, 0), needHi: lin(3, c12Slack), minN: 1, maxN: 190},
	}
}

var c12Deep40 = c12Deep40Src()

func c12Deep40Src() string {
	var names, vals []string
	for i := 1; i <= 40; i++ {
		names = append(names, fmt.Sprintf("a%d", i))
		vals = append(vals, fmt.Sprintf("k+%d", i-1))
	}
	return "function deep40(k)\n  local " + strings.Join(names, ",") + " = " + strings.Join(vals, ",") + "\n" +
		"  if k == 0 then return a1 + a40 end\n  local r = deep40(k - 1)\n  return r + a1 - a2 + 2\nend\n"
}

func (f *c12Family) src(n int) string {
	body := f.body
	if f.name == "litargs" {
		args := make([]string, n)
		for i := range args {
			args[i] = fmt.Sprint(i + 1)
		}
		body = "local r = cnt(" + strings.Join(args, ",") + ")"
	}
	s := "function fam_" + f.name + "(n)\n  local x = n + 0.5\n  keep[#keep+1] = function() return x end\n  " + body + "\n"
	if !f.tail {
		s += "  x = x + 1\n  return r\n"
	}
	return s + "end\n"
}

var c12FollowUp = `
local function f(a, b) return a * b + 1 end
F1 = f(6, 7)
local ok, e = pcall(error, "boom")
F2 = tostring(ok) .. ":" .. tostring(e)
local co = coroutine.wrap(function(a) local b = coroutine.yield(a + 1) return b * 2 end)
F3 = co(1) + co(10)
F4 = select('#', unpack({1, 2, 3, 4, 5}))
local t = {}
for i = 1, 10 do t[i] = function() return i end end
F5 = t[3]() + t[7]()
local function r(n) if n == 0 then return 0 end return 1 + r(n - 1) end
F6 = r(3)
`

var c12FillSrc = func() string {
	var names, vals []string
	for i := 1; i <= 60; i++ {
		names = append(names, fmt.Sprintf("z%d", i))
		vals = append(vals, fmt.Sprint(7000+i))
	}
	return "local " + strings.Join(names, ",") + " = " + strings.Join(vals, ",") + "\nFILL = z1 + z60\n"
}()

// ---- contexts ------------------------------------------------------------------------------------

type c12Context struct {
	name     string
	tmpl     string // FN, P substituted; "" = Go API
	mainNeed int    // frames the main thread needs besides the protected function's own frames
}

func c12Contexts() []*c12Context {
	return []*c12Context{
		{"pcall", "snap(1) RES_OK, RES_V = pcall($FN, $P) snap(2)", 2},
		{"pcall@B", "RES_OK, RES_V = down($B, function() local ok, v snap(1) ok, v = pcall($FN, $P) snap(2) return ok, v end)", 2},
		{"xpcall", "snap(1) RES_OK, RES_V = xpcall(function() local r = $FN($P) return r end, handler) snap(2)", 2},
		{"co", "local co = coroutine.create($FN) snap(1) RES_OK, RES_V = coroutine.resume(co, $P) snap(2)", 2},
		{"wrap", "local w = coroutine.wrap($FN) snap(1) RES_OK, RES_V = pcall(w, $P) snap(2)", 3},
		{"index", "local t = setmetatable({}, {__index = function(t, k) local r = $FN(k) return r end}) local f = function() local r = t[$P] return r end snap(1) RES_OK, RES_V = pcall(f) snap(2)", 2},
		{"call", "local o = setmetatable({}, {__call = function(self, k) local r = $FN(k) return r end}) snap(1) RES_OK, RES_V = pcall(o, $P) snap(2)", 2},
		{"add", "local o = setmetatable({}, {__add = function(a, k) local r = $FN(k) return r end}) local f = function() local r = o + $P return r end snap(1) RES_OK, RES_V = pcall(f) snap(2)", 2},
		{"gsub", "snap(1) RES_OK, RES_V = pcall(function() local s = string.gsub('a', 'a', function() local r = $FN($P) return r end) local v = tonumber(s) return v end) snap(2)", 2},
		{"api", "", 1},
	}
}

func c12ContextByName(name string) *c12Context {
	base := name
	if strings.HasPrefix(name, "pcall@") {
		base = "pcall@B"
	}
	for _, c := range c12Contexts() {
		if c.name == base {
			return c
		}
	}
	return nil
}

// ---- one case ------------------------------------------------------------------------------------

type c12LimitCase struct {
	Kind   string  `json:"kind"` // callstack | registry
	Opts   c12Opts `json:"options"`
	Family string  `json:"family"`
	Ctx    string  `json:"context"`
	Base   int     `json:"base_depth,omitempty"`
	Param  int     `json:"param"`
}

func (cs c12LimitCase) id() string {
	return fmt.Sprintf("%s/%s/%s/%s/%d", cs.Kind, cs.Opts, cs.Family, cs.Ctx, cs.Param)
}

type c12LimitRun struct {
	GoPanic    string
	PreludeErr string
	TopErr     error
	ResOK      lua.LValue
	ResV       lua.LValue
	MaxSp      int
	TopBefore  lua.VerifSnap
	TopAfter   lua.VerifSnap
	Snap       map[int]lua.VerifSnap
	Closures   []string
	ClosureErr string
	Follow     string
	FillErr    string
	Source     string
}

func c12RenderLV(v lua.LValue) string {
	switch x := v.(type) {
	case nil:
		return "<go-nil>"
	case *lua.LNilType:
		return "nil"
	case lua.LBool:
		return x.String()
	case lua.LNumber:
		return fmt.Sprintf("%.14g", float64(x))
	case lua.LString:
		return fmt.Sprintf("%q", string(x))
	}
	return v.Type().String()
}

var c12FamilyList = c12Families()

func c12FamilyByName(name string) *c12Family {
	for _, f := range c12FamilyList {
		if f.name == name {
			return f
		}
	}
	return nil
}

func (cs c12LimitCase) source() (prelude []string, chunk string) {
	prelude = []string{c12Prelude}
	fnName := "rec"
	if cs.Kind == "registry" {
		f := c12FamilyByName(cs.Family)
		prelude = append(prelude, c12Deep40, f.src(cs.Param))
		fnName = "fam_" + cs.Family
	}
	ctx := c12ContextByName(cs.Ctx)
	if ctx == nil {
		harness.Fatal("c12: unknown context %q", cs.Ctx)
	}
	chunk = ctx.tmpl
	chunk = strings.ReplaceAll(chunk, "$FN", fnName)
	chunk = strings.ReplaceAll(chunk, "$B", fmt.Sprint(cs.Base))
	chunk = strings.ReplaceAll(chunk, "$P", fmt.Sprint(cs.Param))
	return prelude, chunk
}

// protect runs f and converts an escaping Go panic into a string.
func c12Protect(f func()) (panicked string) {
	defer func() {
		if r := recover(); r != nil {
			panicked = fmt.Sprint(r)
			if panicked == "" {
				panicked = "(empty panic)"
			}
		}
	}()
	f()
	return ""
}

// c12DoCached is DoString with the compiled prototype shared between states (prototypes are
// immutable after compilation); used for the constant helper chunks only.
var c12ProtoCache sync.Map

func c12DoCached(L *lua.LState, src string) error {
	var proto *lua.FunctionProto
	if v, ok := c12ProtoCache.Load(src); ok {
		proto = v.(*lua.FunctionProto)
	} else {
		chunk, err := parse.Parse(strings.NewReader(src), "<string>")
		if err != nil {
			return err
		}
		proto, err = lua.Compile(chunk, "<string>")
		if err != nil {
			return err
		}
		c12ProtoCache.Store(src, proto)
	}
	L.Push(L.NewFunctionFromProto(proto))
	return L.PCall(0, lua.MultRet, nil)
}

func c12FollowUpOutcome(L *lua.LState) string {
	var sb strings.Builder
	for _, g := range []string{"F1", "F2", "F3", "F4", "F5", "F6"} {
		L.SetGlobal(g, lua.LNil)
	}
	var err error
	if p := c12Protect(func() { err = c12DoCached(L, c12FollowUp) }); p != "" {
		return "GO PANIC: " + p
	}
	if err != nil {
		if ae, ok := err.(*lua.ApiError); ok {
			fmt.Fprintf(&sb, "error=%s;", c12RenderLV(ae.Object))
		} else {
			fmt.Fprintf(&sb, "error=%v;", err)
		}
	}
	for _, g := range []string{"F1", "F2", "F3", "F4", "F5", "F6"} {
		fmt.Fprintf(&sb, "%s=%s;", g, c12RenderLV(L.GetGlobal(g)))
	}
	sp, top := lua.VerifDepth(L)
	fmt.Fprintf(&sb, "sp=%d;top=%d", sp, top)
	return sb.String()
}

var c12FreshFollow sync.Map // opts string -> outcome

func c12FreshFollowUp(o c12Opts) string {
	if v, ok := c12FreshFollow.Load(o.String()); ok {
		return v.(string)
	}
	L, cancel, failed := c12NewState(o)
	out := failed
	if failed == "" {
		out = c12FollowUpOutcome(L)
		cancel()
		L.Close()
	}
	c12FreshFollow.Store(o.String(), out)
	return out
}

func c12RunLimitCase(cs c12LimitCase) *c12LimitRun {
	res := &c12LimitRun{Snap: map[int]lua.VerifSnap{}}
	L, cancel, failed := c12NewState(cs.Opts)
	if failed != "" {
		res.GoPanic = failed
		return res
	}
	defer cancel()
	defer func() { c12Protect(func() { L.Close() }) }()
	L.SetGlobal("probe", L.NewFunction(func(L *lua.LState) int {
		if sp, _ := lua.VerifDepth(L); sp > res.MaxSp {
			res.MaxSp = sp
		}
		return 0
	}))
	L.SetGlobal("snap", L.NewFunction(func(L *lua.LState) int {
		if sp, _ := lua.VerifDepth(L); sp > res.MaxSp {
			res.MaxSp = sp
		}
		res.Snap[L.ToInt(1)] = lua.VerifSnapshot(L)
		return 0
	}))
	preludes, chunk := cs.source()
	res.Source = chunk
	var err error
	if p := c12Protect(func() {
		for _, src := range preludes {
			if err = c12DoCached(L, src); err != nil {
				return
			}
		}
	}); p != "" || err != nil {
		// a registry of 128 slots and a one-frame call stack are enough for the prelude
		res.PreludeErr = fmt.Sprintf("prelude: panic=%q err=%v", p, err)
		return res
	}
	if cs.Kind == "registry" {
		if p := c12Protect(func() { err = c12DoCached(L, fmt.Sprintf("prep(%d)", cs.Param)) }); p != "" || err != nil {
			res.PreludeErr = fmt.Sprintf("prep(%d): panic=%q err=%v", cs.Param, p, err)
			return res
		}
	}
	res.TopBefore = lua.VerifSnapshot(L)
	if chunk != "" {
		res.GoPanic = c12Protect(func() { res.TopErr = L.DoString(chunk) })
		if res.GoPanic == "" && res.TopErr == nil {
			res.ResOK = L.GetGlobal("RES_OK")
			res.ResV = L.GetGlobal("RES_V")
		}
	} else {
		fnName := "rec"
		if cs.Kind == "registry" {
			fnName = "fam_" + cs.Family
		}
		res.GoPanic = c12Protect(func() {
			L.Push(L.GetGlobal(fnName))
			L.Push(lua.LNumber(cs.Param))
			if e := L.PCall(1, 1, nil); e != nil {
				res.ResOK = lua.LFalse
				if ae, ok := e.(*lua.ApiError); ok {
					res.ResV = ae.Object
				} else {
					res.ResV = lua.LNil
				}
			} else {
				res.ResOK = lua.LTrue
				res.ResV = L.Get(-1)
				L.Pop(1)
			}
		})
	}
	if res.GoPanic != "" {
		return res
	}
	res.TopAfter = lua.VerifSnapshot(L)
	// overwrite the registers the failed frames used, then read the closures they created
	var ferr error
	if p := c12Protect(func() { ferr = c12DoCached(L, c12FillSrc) }); p != "" {
		res.FillErr = "GO PANIC: " + p
	} else if ferr != nil {
		res.FillErr = ferr.Error()
	}
	if p := c12Protect(func() {
		keep, ok := L.GetGlobal("keep").(*lua.LTable)
		if !ok {
			res.ClosureErr = "global keep is not a table"
			return
		}
		for i := 1; i <= keep.Len(); i++ {
			fn := keep.RawGetInt(i)
			if e := L.CallByParam(lua.P{Fn: fn, NRet: 1, Protect: true}); e != nil {
				msg := e.Error()
				if ae, ok := e.(*lua.ApiError); ok {
					msg = ae.Object.String()
				}
				res.Closures = append(res.Closures, "ERR: "+msg)
				continue
			}
			res.Closures = append(res.Closures, c12RenderLV(L.Get(-1)))
			L.Pop(1)
		}
	}); p != "" {
		res.ClosureErr = "GO PANIC: " + p
	}
	res.Follow = c12FollowUpOutcome(L)
	return res
}

// ---- reference measurement (frames needed) ---------------------------------------------------------

var c12RefOpts = c12Opts{CSS: 4096, RS: 65536}

var c12NeedCache sync.Map

type c12Need struct {
	need  int
	enter int // frame number of the protected call itself (sp inside snap(1), which is called at the same level); 0 = unknown
	ok    bool
	why   string
}

func c12FramesNeeded(ctx string, base, d int) c12Need {
	k := fmt.Sprintf("%s/%d/%d", ctx, base, d)
	if v, ok := c12NeedCache.Load(k); ok {
		return v.(c12Need)
	}
	run := c12RunLimitCase(c12LimitCase{Kind: "callstack", Opts: c12RefOpts, Family: "rec", Ctx: ctx, Base: base, Param: d})
	n := c12Need{need: run.MaxSp, ok: true}
	if s1, has := run.Snap[1]; has {
		n.enter = s1.Sp
	}
	if run.GoPanic != "" || run.TopErr != nil || run.ResOK != lua.LTrue || c12RenderLV(run.ResV) != fmt.Sprint(d) {
		n.ok = false
		n.why = fmt.Sprintf("panic=%q err=%v ok=%s v=%s", run.GoPanic, run.TopErr, c12RenderLV(run.ResOK), c12RenderLV(run.ResV))
	}
	if mn := c12ContextByName(ctx).mainNeed; n.need < mn {
		n.need = mn
	}
	c12NeedCache.Store(k, n)
	return n
}

// ---- judging -------------------------------------------------------------------------------------

func c12SnapCore(s lua.VerifSnap) string {
	var fr []string
	for _, f := range s.Frames {
		fr = append(fr, fmt.Sprintf("%d:%d/%d/%d/%d/%d/%v", f.Idx, f.Base, f.LocalBase, f.ReturnBase, f.NArgs, f.NRet, f.IsG))
	}
	return fmt.Sprintf("sp=%d top=%d frame=%v errfunc=%v frames=[%s]", s.Sp, s.Top, s.HasFrame, s.HasErrorFunc, strings.Join(fr, " "))
}

// zone: -1 must succeed, +1 must fail, 0 either.
func (cs c12LimitCase) zone() (zone int, detail string, ok bool) {
	if cs.Kind == "callstack" {
		n := c12FramesNeeded(cs.Ctx, cs.Base, cs.Param)
		if !n.ok {
			return 0, "reference run failed: " + n.why, false
		}
		N := cs.Opts.CSS
		hard := N
		if cs.Opts.Min {
			hard = (N + c12Seg - 1) / c12Seg * c12Seg
		}
		detail = fmt.Sprintf("frames needed %d, CallStackSize %d, capacity %d", n.need, N, hard)
		switch {
		case n.need <= N:
			return -1, detail, true
		case n.need > hard:
			return 1, detail, true
		}
		return 0, detail, true
	}
	f := c12FamilyByName(cs.Family)
	M := cs.Opts.regLimit()
	lo, hi := f.needLo(cs.Param), f.needHi(cs.Param)
	detail = fmt.Sprintf("register demand between %d and %d, registry limit %d", lo, hi, M)
	switch {
	case hi <= M:
		return -1, detail, true
	case lo > M+8:
		return 1, detail, true
	}
	return 0, detail, true
}

func (cs c12LimitCase) sigPrefix() string {
	if cs.Kind == "callstack" {
		return "p2/callstack/" + cs.Family + "/" + cs.Ctx + "/" + cs.Opts.stackKind()
	}
	return "p2/registry/" + cs.Family + "/" + cs.Ctx + "/" + cs.Opts.regKind()
}

// judge evaluates one run; succeeded reports the observed outcome (for the monotonicity check).
func (cs c12LimitCase) judge(run *c12LimitRun) (vs []c12Viol, succeeded bool, clean bool) {
	pfx := cs.sigPrefix()
	zone, zdetail, zok := cs.zone()
	desc := fmt.Sprintf("%s | %s=%d | %s | chunk: %s", cs.Opts, map[string]string{"callstack": "depth", "registry": "n"}[cs.Kind], cs.Param, zdetail, run.Source)
	add := func(sym, what string) {
		vs = append(vs, c12Viol{pfx + "/" + sym, what + "\n" + desc, false})
	}
	if run.PreludeErr != "" {
		add("prelude-failed", "a helper chunk that defines functions only (or builds the argument table) failed: "+run.PreludeErr)
		return vs, false, false
	}
	if !zok {
		add("reference-run-failed", "the same case fails with CallStackSize 4096 / RegistrySize 65536: "+zdetail)
		return vs, false, false
	}
	if run.GoPanic != "" {
		add("go-panic", "a Go panic escaped from DoString/PCall to the host: "+run.GoPanic)
		return vs, false, false
	}
	outcome := ""
	switch {
	case run.TopErr != nil:
		outcome = "err"
		ae, ok := run.TopErr.(*lua.ApiError)
		if !ok {
			add("err/msg-not-string", fmt.Sprintf("DoString returned a non-ApiError: %v", run.TopErr))
		} else if _, isStr := ae.Object.(lua.LString); !isStr {
			add("err/msg-not-string", fmt.Sprintf("the error object that reached DoString is %s, not a string", c12RenderLV(ae.Object)))
		}
		// The error must be reported by the pcall/xpcall of the chunk, not escape to DoString, whenever
		// that call itself can be entered: always with a 256-frame stack (registry cases); for call-stack
		// cases when the frame of pcall/xpcall fits into CallStackSize. coroutine.resume is not judged
		// (the statement names pcall/PCall; resume sets up the first frame outside its protected region).
		escaped := cs.Kind == "registry" && cs.Ctx != "co"
		if cs.Kind == "callstack" && cs.Ctx != "co" {
			if n := c12FramesNeeded(cs.Ctx, cs.Base, cs.Param); n.ok && n.enter > 0 && n.enter <= cs.Opts.CSS {
				escaped = true
			}
		}
		if escaped {
			add("err/escaped-protected-call", "the error was not caught by the protected call of the chunk, it reached DoString: "+run.TopErr.Error())
		}
	case run.ResOK == lua.LTrue:
		outcome = "ok"
	case run.ResOK == lua.LFalse:
		outcome = "err"
		if _, isStr := run.ResV.(lua.LString); !isStr {
			add("err/msg-not-string", fmt.Sprintf("the protected call returned false with %s instead of a message", c12RenderLV(run.ResV)))
		}
	default:
		add("no-result", fmt.Sprintf("the protected call returned %s, %s (neither true nor false)", c12RenderLV(run.ResOK), c12RenderLV(run.ResV)))
		return vs, false, false
	}
	succeeded = outcome == "ok"
	clean = true
	pfx += "/" + outcome
	if succeeded && zone == 1 {
		add("success-above-limit", "the case succeeded although it exceeds the configured limit")
	}
	if !succeeded && zone == -1 {
		msg := c12RenderLV(run.ResV)
		if run.TopErr != nil {
			msg = run.TopErr.Error()
		}
		add("error-below-limit", "the case stays within the configured limits but failed: "+msg)
	}
	// values
	var wantClosures []string
	if cs.Kind == "callstack" {
		if succeeded {
			if got := c12RenderLV(run.ResV); got != fmt.Sprint(cs.Param) {
				add("wrong-value", fmt.Sprintf("rec(%d) returned %s", cs.Param, got))
			}
			for i := 0; i <= cs.Param; i++ {
				n := cs.Param - i
				v := n*10 + 1
				if n == 0 {
					v = 0
				}
				wantClosures = append(wantClosures, fmt.Sprint(v))
			}
			if len(run.Closures) != len(wantClosures) {
				add("closure-count", fmt.Sprintf("%d closures were created, expected %d", len(run.Closures), len(wantClosures)))
			}
		} else {
			for i := range run.Closures {
				wantClosures = append(wantClosures, fmt.Sprint((cs.Param-i)*10))
			}
		}
	} else {
		f := c12FamilyByName(cs.Family)
		if succeeded {
			if got, want := c12RenderLV(run.ResV), fmt.Sprintf("%.14g", f.expect(cs.Param)); got != want {
				add("wrong-value", fmt.Sprintf("fam_%s(%d) returned %s, expected %s", cs.Family, cs.Param, got, want))
			}
			if f.tail {
				wantClosures = []string{fmt.Sprintf("%.14g", float64(cs.Param)+0.5)}
			} else {
				wantClosures = []string{fmt.Sprintf("%.14g", float64(cs.Param)+1.5)}
			}
			if len(run.Closures) != 1 {
				add("closure-count", fmt.Sprintf("%d closures were created, expected 1", len(run.Closures)))
			}
		} else {
			if len(run.Closures) > 1 {
				add("closure-count", fmt.Sprintf("%d closures were created, expected at most 1", len(run.Closures)))
			}
			for range run.Closures {
				wantClosures = append(wantClosures, fmt.Sprintf("%.14g", float64(cs.Param)+0.5))
			}
		}
	}
	if run.ClosureErr != "" {
		add("closure-check-failed", "reading the closures created by the protected function: "+run.ClosureErr)
	}
	for i := range run.Closures {
		if i < len(wantClosures) && run.Closures[i] != wantClosures[i] {
			add("closure-values", fmt.Sprintf("closure #%d created inside the protected call returns %s afterwards, expected %s (all: %v)", i+1, run.Closures[i], wantClosures[i], run.Closures))
			break
		}
	}
	// snapshots
	if a, b := run.TopBefore, run.TopAfter; a.Sp != b.Sp || a.Top != b.Top || a.HasFrame != b.HasFrame || a.HasErrorFunc != b.HasErrorFunc {
		add("snapshot-top", fmt.Sprintf("state after the chunk differs from the state before it: before %s, after %s", c12SnapCore(a), c12SnapCore(b)))
	}
	for _, idx := range run.TopAfter.OpenUpvalues {
		if idx >= run.TopAfter.Top {
			add("open-upvalues", fmt.Sprintf("after the chunk returned the open-upvalue list still holds registers %v (top=%d)", run.TopAfter.OpenUpvalues, run.TopAfter.Top))
			break
		}
	}
	if s1, ok1 := run.Snap[1]; ok1 {
		if s2, ok2 := run.Snap[2]; ok2 {
			if c12SnapCore(s1) != c12SnapCore(s2) {
				add("snapshot-inner", fmt.Sprintf("snapshot after the protected call differs from the one before it:\nbefore %s\nafter  %s", c12SnapCore(s1), c12SnapCore(s2)))
			}
			// no open upvalue may point at or above the registers the protected call used (they start at
			// the function slot of the call, which is where the snap call's own frame starts); whether
			// upvalues of live enclosing locals stay open is C03's business and is not judged here
			if nf := len(s2.Frames); nf > 0 {
				floor := s2.Frames[nf-1].Base
				for _, idx := range s2.OpenUpvalues {
					if idx >= floor {
						add("open-upvalues", fmt.Sprintf("after the protected call returned the open-upvalue list still holds registers %v although registers >= %d are free (open before the call: %v)", s2.OpenUpvalues, floor, s1.OpenUpvalues))
						break
					}
				}
			}
		}
	}
	if fresh := c12FreshFollowUp(cs.Opts); run.Follow != fresh {
		add("followup-differs", fmt.Sprintf("the follow-up chunk on the used state gives\n  %s\non a fresh state with the same options\n  %s", run.Follow, fresh))
	}
	return vs, succeeded, clean
}

func c12ReplayLimit(raw json.RawMessage) (bool, string) {
	var cases []c12LimitCase
	if err := json.Unmarshal(raw, &cases); err != nil {
		return true, "cannot decode limit replay: " + err.Error()
	}
	var sb strings.Builder
	bad := false
	var outcomes []bool
	for _, cs := range cases {
		run := c12RunLimitCase(cs)
		vs, ok, _ := cs.judge(run)
		outcomes = append(outcomes, ok)
		fmt.Fprintf(&sb, "%s: succeeded=%v result=%s,%s err=%v panic=%q closures=%v\n", cs.id(), ok, c12RenderLV(run.ResOK), c12RenderLV(run.ResV), run.TopErr, run.GoPanic, run.Closures)
		for _, v := range vs {
			bad = true
			fmt.Fprintf(&sb, "  %s: %s\n", v.sig, v.what)
		}
	}
	if len(outcomes) == 2 && !outcomes[0] && outcomes[1] {
		bad = true
		sb.WriteString("  non-monotone: the smaller case failed, the larger one succeeded\n")
	}
	return !bad, sb.String()
}

// ---- enumeration ---------------------------------------------------------------------------------

func (c *c12Ctx) limitCase(cs c12LimitCase) (succeeded, clean bool) {
	run := c12RunLimitCase(cs)
	vs, ok, cl := cs.judge(run)
	for _, v := range vs {
		c.viol(v.sig, v.what, c12MkReplay("limit", []c12LimitCase{cs}))
	}
	z, _, _ := cs.zone()
	atomic.AddInt64(&c.validated, 1)
	c.r.Eval("p2/"+cs.id(), true, func() interface{} {
		return map[string]interface{}{"part": 2, "case": cs, "zone": z, "succeeded": ok, "result": c12RenderLV(run.ResV), "closures_created": len(run.Closures)}
	})
	c.r.Count(fmt.Sprintf("p2_%s_zone%+d_ok=%v", cs.Kind, z, ok), 1)
	return ok, cl
}

func c12Limits(c *c12Ctx) {
	thorough := c.r.Thorough()
	// ---- call-stack limits
	sizes := []int{}
	for n := 1; n <= 18; n++ {
		sizes = append(sizes, n)
	}
	sizes = append(sizes, 256)
	if thorough {
		for n := 19; n <= 42; n++ {
			sizes = append(sizes, n)
		}
		sizes = append(sizes, 63, 64, 65, 255, 257)
	}
	type ctxB struct {
		name string
		base int
	}
	var ctxs []ctxB
	for _, cx := range c12Contexts() {
		if cx.name == "pcall@B" {
			// the protected call's own Go frame is frame number base+4: 7, 8, 9 straddle the segment size
			bases := []int{3, 4, 5}
			if thorough {
				bases = []int{1, 2, 3, 4, 5, 6, 7, 8, 11, 12, 13}
			}
			for _, b := range bases {
				ctxs = append(ctxs, ctxB{fmt.Sprintf("pcall@%d", b), b})
			}
			continue
		}
		ctxs = append(ctxs, ctxB{cx.name, 0})
	}
	var csCases []c12LimitCase
	for _, cx := range ctxs {
		c0 := c12FramesNeeded(cx.name, cx.base, 0)
		if !c0.ok {
			c.viol("p2/callstack/rec/"+cx.name+"/reference-run-failed", "rec(0) in context "+cx.name+" fails with CallStackSize 4096: "+c0.why, nil)
			continue
		}
		probe0 := c12RunLimitCase(c12LimitCase{Kind: "callstack", Opts: c12RefOpts, Family: "rec", Ctx: cx.name, Base: cx.base, Param: 0}).MaxSp
		for _, N := range sizes {
			for _, min := range []bool{false, true} {
				lims := []int{N}
				if min {
					if up := (N + c12Seg - 1) / c12Seg * c12Seg; up != N {
						lims = append(lims, up)
					}
				}
				ds := map[int]bool{}
				for _, lim := range lims {
					for delta := -2; delta <= 2; delta++ {
						if d := lim + delta - probe0; d >= 0 {
							ds[d] = true
						}
					}
				}
				if len(ds) == 0 {
					ds[0], ds[1], ds[2] = true, true, true
				}
				var dl []int
				for d := range ds {
					dl = append(dl, d)
				}
				sort.Ints(dl)
				for _, d := range dl {
					csCases = append(csCases, c12LimitCase{Kind: "callstack", Opts: c12Opts{CSS: N, Min: min}, Family: "rec", Ctx: cx.name, Base: cx.base, Param: d})
				}
			}
		}
	}
	if thorough {
		// the same limits with a context attached and a small growing registry
		n := len(csCases)
		for i := 0; i < n; i++ {
			cs := csCases[i]
			if cs.Opts.CSS <= 18 {
				cs.Opts.Ctx = true
				cs.Opts.RS, cs.Opts.RMax, cs.Opts.RStep = 128, 4096, 1
				csCases = append(csCases, cs)
			}
		}
	}
	const chunk = 16
	harness.ParallelShards((len(csCases)+chunk-1)/chunk, func(worker, shard int) {
		for i := shard * chunk; i < (shard+1)*chunk && i < len(csCases); i++ {
			if c.r.Expired() {
				c.r.NotExhaustive("deadline during part 2 (call-stack limits)")
				return
			}
			c.limitCase(csCases[i])
		}
	})
	c.r.Extra["p2_callstack_cases"] = len(csCases)
	c.r.Extra["p2_callstack_sizes"] = sizes

	// ---- registry limits
	// A registry that grows one slot at a time re-allocates on every push (quadratic), so in the quick
	// tier the 128->4096 step-1 configuration is swept for a few families only and a 128->600 step-1
	// configuration takes the full product.
	type regCfg struct {
		opts     c12Opts
		families map[string]bool // nil = all
		ctxs     []string
		growth   []string // contexts in which the growth window is swept too
		full     []string // contexts in which every n of the window is run
		multi    []string // contexts in which every n around limit/k (k=1..5) is run
	}
	quickCtx := []string{"pcall", "xpcall", "co", "index", "api"}
	allCtx := append(append([]string{}, quickCtx...), "wrap", "call", "add", "gsub", "pcall@6")
	few := map[string]bool{"count": true, "pack": true}
	var regCfgs []regCfg
	if !thorough {
		regCfgs = []regCfg{
			{c12Opts{CSS: 256, RS: 128}, nil, quickCtx, nil, quickCtx, nil},
			{c12Opts{CSS: 256, RS: 128, RMax: 4096, RStep: 32}, nil, quickCtx, []string{"pcall"}, nil, []string{"pcall"}},
			{c12Opts{CSS: 256, RS: 128, RMax: 600, RStep: 1}, nil, quickCtx, []string{"pcall"}, []string{"pcall"}, quickCtx},
			{c12Opts{CSS: 256, RS: 128, RMax: 4096, RStep: 1}, few, []string{"pcall", "co"}, nil, nil, nil},
		}
	} else {
		regCfgs = []regCfg{
			{c12Opts{CSS: 256, RS: 128}, nil, allCtx, nil, allCtx, nil},
			{c12Opts{CSS: 256, RS: 128, RMax: 4096, RStep: 32}, nil, allCtx, quickCtx, nil, quickCtx},
			{c12Opts{CSS: 256, RS: 128, RMax: 600, RStep: 1}, nil, allCtx, allCtx, allCtx, nil},
			{c12Opts{CSS: 256, RS: 128, RMax: 4096, RStep: 1}, nil, quickCtx, nil, nil, nil},
			{c12Opts{CSS: 256, RS: 128, RMax: 4096, RStep: 1, Ctx: true}, few, []string{"pcall"}, nil, nil, []string{"pcall"}},
			{c12Opts{CSS: 256, RS: 128, Min: true}, nil, quickCtx, nil, quickCtx, nil},
			{c12Opts{CSS: 256, RS: 128, RMax: 4096, RStep: 32, Min: true, Ctx: true}, nil, quickCtx, quickCtx, nil, quickCtx},
			{c12Opts{CSS: 256, RS: 128, RMax: 1000, RStep: 3}, nil, quickCtx, quickCtx, nil, quickCtx},
			{c12Opts{CSS: 256, RS: 128, RMax: 1000, RStep: 32, Min: true}, nil, quickCtx, quickCtx, quickCtx, nil},
			{c12Opts{CSS: 256, RS: 200, RMax: 0, Ctx: true}, nil, quickCtx, nil, quickCtx, nil},
		}
	}
	type sweep struct {
		opts   c12Opts
		fam    *c12Family
		ctx    string
		lo, hi int // window that straddles the limit (from the demand bounds of the family)
		g1, g2 int // window that straddles the initial capacity and the first growth steps (0,0 = none)
		full   bool
		multi  bool
	}
	has := func(l []string, x string) bool {
		for _, y := range l {
			if y == x {
				return true
			}
		}
		return false
	}
	clampN := func(f *c12Family, n int) int {
		if n < f.minN {
			n = f.minN
		}
		if f.maxN > 0 && n > f.maxN {
			n = f.maxN
		}
		return n
	}
	var sweeps []sweep
	for _, rc := range regCfgs {
		o := rc.opts
		M := o.regLimit()
		for _, f := range c12FamilyList {
			if rc.families != nil && !rc.families[f.name] {
				continue
			}
			nStart, nEnd := f.minN, f.minN
			for n := f.minN; f.needHi(n) <= M; n++ {
				nStart = n
			}
			for nEnd = nStart; f.needLo(nEnd) <= M+8; nEnd++ {
			}
			if f.maxN > 0 && nStart > f.maxN {
				continue // the family cannot reach this limit
			}
			for _, cx := range rc.ctxs {
				sw := sweep{opts: o, fam: f, ctx: cx, lo: clampN(f, nStart-6), hi: clampN(f, nEnd+2), full: has(rc.full, cx), multi: has(rc.multi, cx)}
				for _, g := range rc.growth {
					if g == cx && o.RMax > o.RS {
						// demand between n and k*n+64 registers: sweep every n whose demand may cross the
						// initial capacity or one of the first growth steps
						sw.g1, sw.g2 = clampN(f, 40), clampN(f, o.RS+40)
					}
				}
				sweeps = append(sweeps, sw)
			}
		}
	}
	var nsweepCases int64
	harness.ParallelShards(len(sweeps), func(worker, shard int) {
		sw := sweeps[shard]
		base := 0
		if strings.HasPrefix(sw.ctx, "pcall@") {
			fmt.Sscanf(sw.ctx, "pcall@%d", &base)
		}
		type outc struct{ ok, clean bool }
		done := map[int]outc{}
		expired := false
		run := func(n int) outc {
			if o, ok := done[n]; ok {
				return o
			}
			if expired || c.r.Expired() {
				expired = true
				return outc{}
			}
			cs := c12LimitCase{Kind: "registry", Opts: sw.opts, Family: sw.fam.name, Ctx: sw.ctx, Base: base, Param: n}
			ok, clean := c.limitCase(cs)
			done[n] = outc{ok, clean}
			return done[n]
		}
		// locate the first failing size by repeated 16-way subdivision of the window, then run every n
		// around it; the oracle (zones from the demand bounds, monotonicity) does not depend on where
		// the threshold is found
		lo, hi := sw.lo, sw.hi
		firstFail := -1
		for !expired {
			step := (hi - lo + 15) / 16
			if step < 1 {
				step = 1
			}
			prev, ff := lo, -1
			for n := lo; ; n += step {
				if n > hi {
					n = hi
				}
				if o := run(n); o.clean && !o.ok {
					ff = n
					break
				}
				prev = n
				if n == hi {
					break
				}
			}
			if ff < 0 {
				break // nothing fails inside the window (the zone check reports it if it should)
			}
			firstFail = ff
			if step == 1 {
				break
			}
			lo, hi = prev, ff
		}
		if firstFail >= 0 {
			for n := firstFail - 12; n <= firstFail+8; n++ {
				if n >= sw.lo && n <= sw.hi {
					run(n)
				}
			}
			for k := 1; k <= 4; k++ { // failures must persist up to the end of the window
				run(firstFail + (sw.hi-firstFail)*k/4)
			}
		}
		for n := sw.g1; n <= sw.g2 && sw.g2 > 0; n++ {
			run(n)
		}
		if sw.full {
			for n := sw.lo; n <= sw.hi; n++ {
				run(n)
			}
		} else if sw.multi {
			// which instruction overflows changes where the demand k*n+c crosses the limit
			M := sw.opts.regLimit()
			for k := 1; k <= 5; k++ {
				for n := (M-24)/k - 10; n <= M/k+6; n++ {
					if n >= sw.lo && n <= sw.hi {
						run(n)
					}
				}
			}
		}
		if expired {
			c.r.NotExhaustive("deadline during part 2 (registry limits)")
		}
		var ns []int
		for n := range done {
			ns = append(ns, n)
		}
		sort.Ints(ns)
		atomic.AddInt64(&nsweepCases, int64(len(ns)))
		ff := -1
		for _, n := range ns {
			o := done[n]
			if !o.clean {
				continue
			}
			if !o.ok && ff < 0 {
				ff = n
			}
			if o.ok && ff >= 0 {
				cs := c12LimitCase{Kind: "registry", Opts: sw.opts, Family: sw.fam.name, Ctx: sw.ctx, Base: base, Param: n}
				small := cs
				small.Param = ff
				c.viol(cs.sigPrefix()+"/non-monotone", fmt.Sprintf("%s: fam_%s in context %s fails with n=%d but succeeds with the larger n=%d", sw.opts, sw.fam.name, sw.ctx, ff, n),
					c12MkReplay("limit", []c12LimitCase{small, cs}))
				break
			}
		}
	})
	c.r.Extra["p2_registry_cases"] = atomic.LoadInt64(&nsweepCases)
	c.r.Extra["p2_registry_sweeps"] = len(sweeps)
}
