package props

// C15 — string and math functions match their definitions for all arguments.
//
// Bounded exhaustive enumeration of argument tuples, every case executed on the real library
// through precompiled Lua functions (one reused LState per worker) and compared with small
// reference definitions that share nothing with stringlib.go / mathlib.go:
//
//   c15.go         driver, worker, value rendering, replay; string family (sub byte find(plain) len
//                  rep reverse upper lower char) against the manual's definitions written directly
//   c15_format.go  string.format: generated directives x arguments against libc snprintf (ref/cref.c)
//   c15_math.go    math: exact oracles (rational / big.Float arithmetic) and high-precision series
//
// A case is a (family, function, argument list) triple; it is self-contained and can be replayed
// on a fresh state (./run.sh replay replays/C15-….json).

import (
	"encoding/hex"
	"encoding/json"
	"fmt"
	"math"
	"os"
	"sort"
	"strconv"
	"strings"
	"sync"

	lua "github.com/yuin/gopher-lua"

	"verif/internal/harness"
)

func init() {
	harness.Register("C15", "exploration", runC15)
	harness.RegisterReplay("C15", replayC15)
}

// ---- values ------------------------------------------------------------------------------------

// c15Val is an argument or a result: string, number, nil or boolean.
type c15Val struct {
	K byte // 's' string, 'n' number, 'z' nil, 't' true, 'f' false, '?' anything else (results only)
	S string
	N float64
}

func c15S(s string) c15Val  { return c15Val{K: 's', S: s} }
func c15N(f float64) c15Val { return c15Val{K: 'n', N: f} }
func c15I(i int) c15Val     { return c15Val{K: 'n', N: float64(i)} }
func c15Nil() c15Val        { return c15Val{K: 'z'} }
func c15Bool(b bool) c15Val {
	if b {
		return c15Val{K: 't'}
	}
	return c15Val{K: 'f'}
}

func (v c15Val) lv() lua.LValue {
	switch v.K {
	case 's':
		// a fresh backing array per use: a callee that wrote through the string's memory would
		// not touch the copy the check keeps for comparison
		return lua.LString(string([]byte(v.S)))
	case 'n':
		return lua.LNumber(v.N)
	case 't':
		return lua.LTrue
	case 'f':
		return lua.LFalse
	}
	return lua.LNil
}

func c15FromLV(v lua.LValue) c15Val {
	switch x := v.(type) {
	case lua.LString:
		return c15S(string(x))
	case lua.LNumber:
		return c15N(float64(x))
	case lua.LBool:
		return c15Bool(bool(x))
	case *lua.LNilType:
		return c15Nil()
	}
	return c15Val{K: '?', S: v.Type().String()}
}

func c15Num(f float64) string {
	switch {
	case math.IsNaN(f):
		return "nan"
	case f == 0 && math.Signbit(f):
		return "-0"
	}
	return strconv.FormatFloat(f, 'g', -1, 64)
}

func (v c15Val) String() string {
	switch v.K {
	case 's':
		if len(v.S) > 80 {
			return fmt.Sprintf("%q…(%d bytes)", v.S[:40], len(v.S))
		}
		return strconv.Quote(v.S)
	case 'n':
		return c15Num(v.N)
	case 'z':
		return "nil"
	case 't':
		return "true"
	case 'f':
		return "false"
	}
	return "<" + v.S + ">"
}

func (v c15Val) equal(o c15Val) bool {
	if v.K != o.K {
		return false
	}
	switch v.K {
	case 's', '?':
		return v.S == o.S
	case 'n':
		return math.Float64bits(v.N) == math.Float64bits(o.N) || (math.IsNaN(v.N) && math.IsNaN(o.N))
	}
	return true
}

func c15List(vs []c15Val) string {
	p := make([]string, len(vs))
	for i, v := range vs {
		p[i] = v.String()
	}
	if len(p) > 12 {
		return "(" + strings.Join(p[:6], ", ") + fmt.Sprintf(", … %d values … , ", len(p)-8) + strings.Join(p[len(p)-2:], ", ") + ")"
	}
	return "(" + strings.Join(p, ", ") + ")"
}

func c15EqualLists(a, b []c15Val) bool {
	if len(a) != len(b) {
		return false
	}
	for i := range a {
		if !a[i].equal(b[i]) {
			return false
		}
	}
	return true
}

// JSON form of a value (replay files): strings hex-encoded, numbers as IEEE bit patterns.
type c15JVal struct {
	K    string `json:"k"`
	Hex  string `json:"hex,omitempty"`
	Bits string `json:"bits,omitempty"`
	Text string `json:"text,omitempty"` // human-readable, not used by the replayer
}

func (v c15Val) j() c15JVal {
	switch v.K {
	case 's':
		return c15JVal{K: "s", Hex: hex.EncodeToString([]byte(v.S)), Text: v.String()}
	case 'n':
		return c15JVal{K: "n", Bits: fmt.Sprintf("%016x", math.Float64bits(v.N)), Text: v.String()}
	}
	return c15JVal{K: string(v.K)}
}

func (j c15JVal) val() (c15Val, error) {
	switch j.K {
	case "s":
		b, err := hex.DecodeString(j.Hex)
		return c15S(string(b)), err
	case "n":
		u, err := strconv.ParseUint(j.Bits, 16, 64)
		return c15N(math.Float64frombits(u)), err
	case "z", "t", "f":
		return c15Val{K: j.K[0]}, nil
	}
	return c15Val{}, fmt.Errorf("bad value kind %q", j.K)
}

// ---- case --------------------------------------------------------------------------------------

// c15Case is one call: lib.fn(args...). Omitted arguments are simply not in the list; an explicit
// nil is a 'z' value.
type c15Case struct {
	Lib  string
	Fn   string
	Args []c15Val
}

func (c c15Case) String() string {
	p := make([]string, len(c.Args))
	for i, a := range c.Args {
		p[i] = a.String()
	}
	if len(p) > 10 {
		p = append(append(p[:4:4], fmt.Sprintf("… %d arguments …", len(c.Args)-6)), p[len(p)-2:]...)
	}
	return c.Lib + "." + c.Fn + "(" + strings.Join(p, ", ") + ")"
}

// key identifies the case exactly (String abbreviates long strings).
func (c c15Case) key() string {
	var b strings.Builder
	b.WriteString(c.Lib)
	b.WriteByte('.')
	b.WriteString(c.Fn)
	for _, a := range c.Args {
		b.WriteByte('|')
		b.WriteString(a.keyString())
	}
	return b.String()
}

func (v c15Val) keyString() string {
	switch v.K {
	case 's':
		return "s" + strconv.Itoa(len(v.S)) + ":" + v.S
	case 'n':
		return "n" + strconv.FormatUint(math.Float64bits(v.N), 16)
	}
	return string(v.K)
}

type c15JCase struct {
	Lib  string    `json:"lib"`
	Fn   string    `json:"fn"`
	Args []c15JVal `json:"args"`
	Call string    `json:"call_text"`
	Seed *int      `json:"randomseed,omitempty"`
}

func (c c15Case) j() c15JCase {
	a := make([]c15JVal, len(c.Args))
	for i, v := range c.Args {
		a[i] = v.j()
	}
	return c15JCase{Lib: c.Lib, Fn: c.Fn, Args: a, Call: c.String()}
}

// ---- worker ------------------------------------------------------------------------------------

type c15Worker struct {
	L   *lua.LState
	fns map[string]*lua.LFunction
}

func newC15Worker() *c15Worker {
	return &c15Worker{L: lua.NewState(), fns: map[string]*lua.LFunction{}}
}

// fn returns a precompiled Lua function of exactly `arity` parameters that calls lib.name with
// them (so that the callee sees exactly that many arguments).
func (w *c15Worker) fn(lib, name string, arity int) *lua.LFunction {
	key := lib + "." + name + "/" + strconv.Itoa(arity)
	if f := w.fns[key]; f != nil {
		return f
	}
	var src string
	if arity > 6 {
		src = fmt.Sprintf("return function(...) return %s.%s(...) end", lib, name)
		key = lib + "." + name + "/..."
		if f := w.fns[key]; f != nil {
			return f
		}
	} else {
		ps := make([]string, arity)
		for i := range ps {
			ps[i] = "a" + strconv.Itoa(i+1)
		}
		p := strings.Join(ps, ",")
		src = fmt.Sprintf("return function(%s) return %s.%s(%s) end", p, lib, name, p)
	}
	if err := w.L.DoString(src); err != nil {
		harness.Fatal("c15 load %q: %v", src, err)
	}
	f, ok := w.L.Get(-1).(*lua.LFunction)
	if !ok {
		harness.Fatal("c15 load %q: not a function", src)
	}
	w.L.Pop(1)
	w.fns[key] = f
	return f
}

// exec runs the case on the implementation. mutated reports that a string argument's bytes were
// different after the call.
func (w *c15Worker) exec(c c15Case) (res []c15Val, err error, mutated bool) {
	L := w.L
	f := w.fn(c.Lib, c.Fn, len(c.Args))
	top := L.GetTop()
	lvs := make([]lua.LValue, len(c.Args))
	for i, a := range c.Args {
		lvs[i] = a.lv()
	}
	func() {
		defer func() {
			if r := recover(); r != nil {
				err = fmt.Errorf("GO PANIC: %v", r)
			}
		}()
		L.Push(f)
		for _, a := range lvs {
			L.Push(a)
		}
		err = L.PCall(len(lvs), lua.MultRet, nil)
	}()
	if err == nil {
		for i := top + 1; i <= L.GetTop(); i++ {
			res = append(res, c15FromLV(L.Get(i)))
		}
	}
	L.SetTop(top)
	for i, a := range c.Args {
		if a.K == 's' && string(lvs[i].(lua.LString)) != a.S {
			mutated = true
		}
	}
	return
}

// ---- context, violation reporting ---------------------------------------------------------------

type c15Ctx struct {
	r       *harness.Run
	workers []*c15Worker

	sigMu  sync.Mutex
	sigCnt map[string]int    // signature -> number of deviating cases (known findings included)
	sigEx  map[string]string // signature -> first example
}

func (x *c15Ctx) noteSig(sig, example string) {
	x.sigMu.Lock()
	if x.sigCnt == nil {
		x.sigCnt, x.sigEx = map[string]int{}, map[string]string{}
	}
	x.sigCnt[sig]++
	if _, ok := x.sigEx[sig]; !ok {
		x.sigEx[sig] = example
	}
	x.sigMu.Unlock()
}

func (x *c15Ctx) viol(sig string, c c15Case, expected, got string, note string) {
	x.noteSig(sig, fmt.Sprintf("%s: expected %s, got %s", c.String(), expected, got))
	what := fmt.Sprintf("%s\n  expected %s\n  got      %s", c.String(), expected, got)
	if note != "" {
		what += "\n  " + note
	}
	x.r.Violation(sig, what, c.j())
}

// gotClass characterises how a result list deviates (part of the signature so that a known
// finding never covers a different kind of wrong answer for the same argument shape).
func c15GotClass(exp, got []c15Val, err error) string {
	switch {
	case err != nil && strings.HasPrefix(err.Error(), "GO PANIC"):
		return "go-panic"
	case err != nil:
		return "error"
	case len(got) == 0 && len(exp) > 0:
		return "no-values"
	case len(got) > len(exp):
		return "more-values"
	case len(got) < len(exp):
		return "fewer-values"
	}
	return "wrong-value"
}

// judge compares an exact expectation; returns true when the case passed.
func (x *c15Ctx) judge(w *c15Worker, sig string, c c15Case, exp []c15Val) bool {
	got, err, mutated := w.exec(c)
	ok := true
	if mutated {
		x.viol(sig+"/argument-modified", c, "argument strings unchanged by the call", "a string argument has different bytes after the call", "")
		ok = false
	}
	if err != nil || !c15EqualLists(exp, got) {
		g := c15List(got)
		if err != nil {
			g = "error: " + err.Error()
		}
		x.viol(sig+"/"+c15GotClass(exp, got, err), c, c15List(exp), g, "")
		ok = false
	}
	return ok
}

// ---- reference definitions for the string family (Lua 5.1 manual §5.4) ---------------------------
// Positions are 1-based; a negative position counts from the end (-1 is the last byte); the range
// [i, j] is then intersected with [1, #s].

func c15Rel(i, n int) int {
	if i < 0 {
		return n + i + 1
	}
	return i
}

func c15RefSub(s string, i int, j *int) string {
	n := len(s)
	a, b := c15Rel(i, n), n // j defaults to -1, the last byte
	if j != nil {
		b = c15Rel(*j, n)
	}
	if a < 1 {
		a = 1
	}
	if b > n {
		b = n
	}
	if a > b {
		return ""
	}
	return s[a-1 : b]
}

func c15RefByte(s string, i, j *int) []c15Val {
	n := len(s)
	ii := 1 // i defaults to 1
	if i != nil {
		ii = *i
	}
	jj := ii // j defaults to i
	if j != nil {
		jj = *j
	}
	a, b := c15Rel(ii, n), c15Rel(jj, n)
	if a < 1 {
		a = 1
	}
	if b > n {
		b = n
	}
	out := []c15Val{}
	for p := a; p <= b; p++ {
		out = append(out, c15I(int(s[p-1])))
	}
	return out
}

// c15RefFind: first occurrence of pat in s at or after init (default 1, negative from the end,
// values below 1 mean 1). judged=false for the one combination the 5.1 manual leaves open (empty
// pattern with init beyond #s+1: 5.1.4 clamps init and answers #s+1, later versions answer nil).
func c15RefFind(s, pat string, init *int) (res []c15Val, judged bool) {
	n := len(s)
	a := 1
	if init != nil {
		a = c15Rel(*init, n)
	}
	if a < 1 {
		a = 1
	}
	if a > n+1 {
		return []c15Val{c15Nil()}, pat != ""
	}
	for p := a; p+len(pat)-1 <= n; p++ {
		if s[p-1:p-1+len(pat)] == pat {
			return []c15Val{c15I(p), c15I(p + len(pat) - 1)}, true
		}
	}
	return []c15Val{c15Nil()}, true
}

func c15RefRep(s string, n int) string {
	out := []byte{}
	for k := 0; k < n; k++ {
		out = append(out, s...)
	}
	return string(out)
}

func c15RefReverse(s string) string {
	out := make([]byte, 0, len(s))
	for k := len(s) - 1; k >= 0; k-- {
		out = append(out, s[k])
	}
	return string(out)
}

// C-locale toupper / tolower, byte by byte: only 'a'..'z' / 'A'..'Z' change.
func c15RefCase(s string, upper bool) string {
	out := []byte(s)
	for k, b := range out {
		if upper && b >= 'a' && b <= 'z' {
			out[k] = b - 32
		} else if !upper && b >= 'A' && b <= 'Z' {
			out[k] = b + 32
		}
	}
	return string(out)
}

// ---- signatures for the string family ------------------------------------------------------------

func c15IdxClass(i *int, explicitNil bool, n int) string {
	if i == nil {
		if explicitNil {
			return "nil"
		}
		return "omitted"
	}
	v := *i
	switch {
	case v == 0:
		return "0"
	case v == 1:
		return "1"
	case v > 1 && v <= n:
		return "in"
	case v == n+1:
		return "len+1"
	case v > n+1:
		return ">len+1"
	case v >= -n:
		return "-in"
	case v == -n-1:
		return "-len-1"
	}
	return "<-len-1"
}

func c15HighBytes(s string) bool {
	for i := 0; i < len(s); i++ {
		if s[i] >= 0x80 {
			return true
		}
	}
	return false
}

// ---- enumeration of the string family -------------------------------------------------------------

type c15StrBounds struct {
	alphabet  []byte
	maxLen    int      // all strings over the alphabet up to this length are subjects
	extra     []string // further subjects (the 5-byte string)
	maxPatLen int      // find patterns: all strings over the alphabet up to this length
	repLo     int
	repHi     int
}

func c15AllStrings(alpha []byte, maxLen int) []string {
	out := []string{""}
	prev := []string{""}
	for l := 1; l <= maxLen; l++ {
		var cur []string
		for _, p := range prev {
			for _, b := range alpha {
				cur = append(cur, p+string([]byte{b}))
			}
		}
		out = append(out, cur...)
		prev = cur
	}
	return out
}

// index arguments: every value in the window plus omitted / explicit nil
type c15Idx struct {
	v   *int
	nil bool // explicit nil argument (only meaningful when v == nil)
}

func c15Window(n, slack int) []int {
	var w []int
	for i := -n - slack; i <= n+slack; i++ {
		w = append(w, i)
	}
	return w
}

// c15BigWindow: for long strings, the windows around -len, 0 and len.
func c15BigWindow(n, slack int) []int {
	var w []int
	for _, c := range []int{-n, 0, n} {
		for d := -slack; d <= slack; d++ {
			w = append(w, c+d)
		}
	}
	return w
}

func c15IdxArg(i *int) c15Val {
	if i == nil {
		return c15Nil()
	}
	return c15I(*i)
}

// strSubject runs every string-family case on one subject s with index window win.
func (x *c15Ctx) strSubject(w *c15Worker, s string, win []int, pats []string, repLo, repHi int, small bool) {
	r := x.r
	n := len(s)
	S := c15S(s)
	ptr := func(i int) *int { return &i }
	// Accounting. Short subjects: one harness record per case (distinctness measured per case).
	// Long subjects (bulk): cases are counted in aggregate and distinct non-trivial cases are
	// measured per group (function, subject, second argument), to keep the set of keys in memory small.
	bulk := !small && n >= 5 && n < 200
	var bulkN int64
	groups := map[string]struct{}{}
	var lastExp []c15Val
	jd := func(sig string, c c15Case, exp []c15Val) {
		lastExp = exp
		x.judge(w, sig, c, exp)
	}
	jdCase := func(fn, hb string, c c15Case, s, exp string) {
		lastExp = []c15Val{c15S(exp)}
		x.judgeCase(w, fn, hb, c, s, exp)
	}
	record := func(c c15Case, nontrivial bool) {
		if !bulk {
			e := lastExp
			r.Eval(c.key(), nontrivial, func() interface{} { return c.String() + " = " + c15List(e) })
			return
		}
		bulkN++
		if nontrivial {
			g := c.Fn + "|" + s
			if len(c.Args) > 1 {
				g += "|" + c.Args[1].keyString()
			}
			groups[g] = struct{}{}
		}
	}
	defer func() {
		if bulk {
			r.EvalN(bulkN)
			for g := range groups {
				r.Nontrivial(g)
			}
			r.Count("string_cases_accounted_per_group", bulkN)
		}
	}()
	clamps := func(i *int) bool { return i != nil && (*i <= 0 || *i > n) }

	// --- sub(s, i [, j])
	for _, i := range win {
		js := []c15Idx{{nil, false}, {nil, true}}
		for _, j := range win {
			js = append(js, c15Idx{ptr(j), false})
		}
		for _, j := range js {
			c := c15Case{Lib: "string", Fn: "sub", Args: []c15Val{S, c15I(i)}}
			if j.v != nil || j.nil {
				c.Args = append(c.Args, c15IdxArg(j.v))
			}
			exp := c15RefSub(s, i, j.v)
			sig := "str/sub/i=" + c15IdxClass(&i, false, n) + "/j=" + c15IdxClass(j.v, j.nil, n)
			jd(sig, c, []c15Val{c15S(exp)})
			record(c, exp != "" || clamps(&i) || clamps(j.v))
		}
	}

	// --- byte(s [, i [, j]])
	{
		c := c15Case{Lib: "string", Fn: "byte", Args: []c15Val{S}}
		exp := c15RefByte(s, nil, nil)
		jd("str/byte/(s)", c, exp)
		record(c, len(exp) > 0)
		is := []c15Idx{{nil, true}}
		for _, i := range win {
			is = append(is, c15Idx{ptr(i), false})
		}
		for _, i := range is {
			js := []c15Idx{{nil, false}, {nil, true}}
			for _, j := range win {
				js = append(js, c15Idx{ptr(j), false})
			}
			for _, j := range js {
				c := c15Case{Lib: "string", Fn: "byte", Args: []c15Val{S, c15IdxArg(i.v)}}
				if j.v != nil || j.nil {
					c.Args = append(c.Args, c15IdxArg(j.v))
				}
				exp := c15RefByte(s, i.v, j.v)
				sig := "str/byte/i=" + c15IdxClass(i.v, i.nil, n) + "/j=" + c15IdxClass(j.v, j.nil, n)
				jd(sig, c, exp)
				record(c, len(exp) > 0 || clamps(i.v) || clamps(j.v))
			}
		}
	}

	// --- find(s, pat [, init [, plain]])
	for _, pat := range pats {
		patClass := "nonempty"
		if pat == "" {
			patClass = "empty"
		}
		P := c15S(pat)
		inits := []c15Idx{{nil, false}, {nil, true}}
		for _, i := range win {
			inits = append(inits, c15Idx{ptr(i), false})
		}
		hasZero := strings.IndexByte(pat, 0) >= 0 || strings.ContainsAny(pat, "^$*+?.()[]%-") // \0 or a magic character: plain searches only
		for _, in := range inits {
			exp, judged := c15RefFind(s, pat, in.v)
			if !judged {
				r.Count("find_empty_pattern_init_beyond_len+1_not_judged", 1)
				continue
			}
			nontrivial := exp[0].K == 'n' || clamps(in.v)
			ic := c15IdxClass(in.v, in.nil, n)
			// effective start position class for the empty pattern (the answer is the start itself)
			if pat == "" && exp[0].K == 'n' && exp[0].N > 1 {
				ic += "/start>1"
			}
			// plain = true (needs an init argument, nil when omitted)
			if in.v != nil || in.nil {
				c := c15Case{Lib: "string", Fn: "find", Args: []c15Val{S, P, c15IdxArg(in.v), c15Bool(true)}}
				jd("str/find/plain/pat="+patClass+"/init="+ic, c, exp)
				record(c, nontrivial)
			}
			// pattern without magic characters and without \0: the pattern matcher must answer as
			// a plain search (no byte of the alphabet is magic)
			if !hasZero {
				c := c15Case{Lib: "string", Fn: "find", Args: []c15Val{S, P}}
				if in.v != nil || in.nil {
					c.Args = append(c.Args, c15IdxArg(in.v))
				}
				jd("str/find/nomagic/pat="+patClass+"/init="+ic, c, exp)
				record(c, nontrivial)
				if in.v != nil && small {
					c2 := c15Case{Lib: "string", Fn: "find", Args: []c15Val{S, P, c15IdxArg(in.v), c15Bool(false)}}
					jd("str/find/nomagic-plain=false/pat="+patClass+"/init="+ic, c2, exp)
					record(c2, nontrivial)
				}
			}
		}
	}

	// --- len, rep, reverse, upper, lower
	hb := "ascii"
	if c15HighBytes(s) {
		hb = "bytes>=0x80"
	}
	{
		c := c15Case{Lib: "string", Fn: "len", Args: []c15Val{S}}
		jd("str/len", c, []c15Val{c15I(n)})
		record(c, n > 0)
		for k := repLo; k <= repHi; k++ {
			c := c15Case{Lib: "string", Fn: "rep", Args: []c15Val{S, c15I(k)}}
			jd("str/rep/n="+strconv.Itoa(k), c, []c15Val{c15S(c15RefRep(s, k))})
			record(c, n > 0 && k > 0)
		}
		c = c15Case{Lib: "string", Fn: "reverse", Args: []c15Val{S}}
		jd("str/reverse", c, []c15Val{c15S(c15RefReverse(s))})
		record(c, c15RefReverse(s) != s)
		c = c15Case{Lib: "string", Fn: "upper", Args: []c15Val{S}}
		jdCase("upper", hb, c, s, c15RefCase(s, true))
		record(c, c15RefCase(s, true) != s || hb != "ascii")
		c = c15Case{Lib: "string", Fn: "lower", Args: []c15Val{S}}
		jdCase("lower", hb, c, s, c15RefCase(s, false))
		record(c, c15RefCase(s, false) != s || hb != "ascii")
	}

	// --- char(b1, …, bn) == s
	{
		c := c15Case{Lib: "string", Fn: "char"}
		for k := 0; k < n; k++ {
			c.Args = append(c.Args, c15I(int(s[k])))
		}
		jd("str/char/"+hb, c, []c15Val{S})
		record(c, n > 0)
	}
}

// judgeCase is judge for upper/lower with a signature that says what kind of bytes were damaged.
func (x *c15Ctx) judgeCase(w *c15Worker, fn, hb string, c c15Case, s, exp string) {
	got, err, mutated := w.exec(c)
	sig := "str/" + fn + "/" + hb
	if mutated {
		x.viol(sig+"/argument-modified", c, "argument strings unchanged by the call", "a string argument has different bytes after the call", "")
	}
	if err != nil {
		x.viol(sig+"/"+c15GotClass(nil, nil, err), c, strconv.Quote(exp), "error: "+err.Error(), "")
		return
	}
	if len(got) == 1 && got[0].K == 's' && got[0].S == exp {
		return
	}
	class := "wrong-result"
	if len(got) == 1 && got[0].K == 's' {
		g := got[0].S
		model := strings.ToUpper(s)
		if fn == "lower" {
			model = strings.ToLower(s)
		}
		if g == model {
			// exactly what Go's strings.ToUpper/ToLower yield (UTF-8 aware, U+FFFD for invalid bytes);
			// only names the deviation, the oracle is c15RefCase
			sig += "/go-unicode-case-mapping"
		}
		switch {
		case len(g) != len(s):
			class = "length-changed"
		default:
			asciiWrong, highWrong := false, false
			for k := 0; k < len(g); k++ {
				if g[k] != exp[k] {
					if s[k] < 0x80 {
						asciiWrong = true
					} else {
						highWrong = true
					}
				}
			}
			switch {
			case asciiWrong:
				class = "ascii-byte-wrong"
			case highWrong:
				class = "byte>=0x80-changed"
			}
		}
	}
	x.viol(sig+"/"+class, c, c15List([]c15Val{c15S(exp)}), c15List(got), "")
}

// strBytes: every function on each of the 256 single-byte strings and on the string of all 256 bytes.
func (x *c15Ctx) strBytes(w *c15Worker, part int) {
	r := x.r
	all := make([]byte, 256)
	for i := range all {
		all[i] = byte(i)
	}
	ALL := string(all)
	if part < 256 {
		b := byte(part)
		s := string([]byte{b})
		x.strSubject(w, s, c15Window(1, 2), []string{"", s, "a"}, -1, 3, false)
		// position of the byte inside the 256-byte string
		c := c15Case{Lib: "string", Fn: "find", Args: []c15Val{c15S(ALL), c15S(s), c15I(1), c15Bool(true)}}
		x.judge(w, "str/find/plain/all256/byte", c, []c15Val{c15I(part + 1), c15I(part + 1)})
		r.Eval(c.key(), true, nil)
		c = c15Case{Lib: "string", Fn: "byte", Args: []c15Val{c15S(ALL), c15I(part + 1)}}
		x.judge(w, "str/byte/all256/i", c, []c15Val{c15I(part)})
		r.Eval(c.key(), true, nil)
		c = c15Case{Lib: "string", Fn: "byte", Args: []c15Val{c15S(ALL), c15I(part - 256)}}
		x.judge(w, "str/byte/all256/-i", c, []c15Val{c15I(part)})
		r.Eval(c.key(), true, nil)
		c = c15Case{Lib: "string", Fn: "sub", Args: []c15Val{c15S(ALL), c15I(part + 1), c15I(part - 256)}}
		x.judge(w, "str/sub/all256/i,-j", c, []c15Val{c15S(s)})
		r.Eval(c.key(), true, nil)
		return
	}
	// the 256-byte string with windows around -len, 0, len
	x.strSubject(w, ALL, c15BigWindow(256, 2), []string{"", "\x00", "\xfe\xff", "\xff", "\xff\x00", "ab", "AB", ALL}, -1, 3, false)
}

// ---- run -----------------------------------------------------------------------------------------

func runC15(r *harness.Run) {
	runPinned(r, "C15")
	x := &c15Ctx{r: r}
	nw := harness.Workers()
	for i := 0; i < nw; i++ {
		x.workers = append(x.workers, newC15Worker())
	}
	defer func() {
		for _, w := range x.workers {
			w.L.Close()
		}
	}()

	sb := c15StrBounds{alphabet: []byte{'a', 'B', 0, 0xE9, 0xFF}, maxLen: 4, extra: []string{"aB\x00\xe9\xff", "h\xc3\xa9Z"}, maxPatLen: 2, repLo: -1, repHi: 3}
	if r.Thorough() {
		sb.maxLen, sb.maxPatLen, sb.repLo, sb.repHi = 6, 3, -2, 5
		sb.extra = append(sb.extra, "aB\x00\xe9\xffaB\x00", "\xc3\xa9\xc3\x89\xce\xb1\xce\x91")
	}

	r.Rule = fmt.Sprintf("every case is one call lib.fn(args) executed through a precompiled Lua function on a reused LState and compared with a reference written from the manual. "+
		"STRING: all strings of length <= %d over {a,B,\\0,\\xE9,\\xFF} plus %d longer strings, the 256 single-byte strings and the 256-byte string x sub/byte with every i,j in [-len-2,len+2] incl. omitted and explicit nil, "+
		"find (plain=true, and magic-free patterns without plain) with every pattern of length <= %d over the alphabet x every init in the window, len, rep n in [%d,%d], reverse, upper, lower, char on the byte tuple; "+
		"after every call the argument strings are compared with private copies. FORMAT: directives flags x width x precision x conversion (d i c x X o e E f s %%%%) x arguments, byte-exact against libc snprintf (ref/cref.c) on arguments converted as lstrlib.c converts them. "+
		"MATH: all tuples over a fixed float64 argument set (signed zeros, subnormals, 2^52+-1, 2^53, 1e300, MaxFloat64, +-Inf); exact oracles in rational/big.Float arithmetic for floor ceil abs max min fmod modf frexp ldexp sqrt and exact pow cases, "+
		"high-precision series within a stated ulp tolerance for the transcendental functions, random()/random(n)/random(m,n) ranges after math.randomseed(s) for s = 0..63 (0..255 thorough). "+
		"non-trivial = the reference result is non-empty / a match / not the identity, or an index needs translation or clamping (string); the directive has a flag, width or precision or the argument needs conversion (format); the result differs from the first argument (math). "+
		"distinct_nontrivial counts distinct cases, except for subjects of 5..199 bytes, whose cases are counted in aggregate (counter string_cases_accounted_per_group) and contribute one distinct key per (function, subject, second argument) group that contains a non-trivial case",
		sb.maxLen, len(sb.extra), sb.maxPatLen, sb.repLo, sb.repHi)
	r.Assumptions = []string{
		"string.upper/lower: the locale is the C locale (gopher-lua has no os.setlocale): only a-z / A-Z change, every byte >= 0x80 is left as it is",
		"string.find with an empty pattern and init beyond #s+1 is not judged (Lua 5.1.4 clamps init and answers #s+1, the 5.1 manual does not say; later versions answer nil)",
		"string.char with arguments outside 0..255, non-integral indices and numeric strings as indices are outside the domain",
		"string.format: 'as C printf does' = glibc snprintf in the C locale on (long long)x for %d %i, (unsigned long long)(long long)x for %o %x %X (64-bit two's complement for negatives, what lstrlib's (unsigned long) cast yields on LP64), (int)x for %c, double for %e %E %f",
		"string.format: only flag/conversion combinations whose behaviour ISO C defines (no '#' or '0' with c/s, no '#' with d/i, no precision with c); arguments outside the long long range for integer conversions and %c arguments whose byte is 0 are excluded (C: undefined / lstrlib 5.1 drops the NUL byte via strlen); %s arguments with embedded zeros are excluded (the 5.1 manual says format does not accept them)",
		"transcendental functions (and deg, rad, pow outside its exact cases): the reference is a big.Float series evaluated with 320 bits (argument reduction with a 1600-bit pi); a result must lie within 2 ulp of the true value (no libm is correctly rounded everywhere); the sign of a zero result is judged for the exactly defined functions only",
		"a result outside the tolerance that is bit-identical to what the Go toolchain's math function of the same name returns carries the signature suffix same-as-go-math: the wrapper in mathlib.go is then intact and the inaccuracy is the toolchain's (known findings C15-M3..M7); any other result outside the tolerance is a plain violation",
		"math.pow is demanded exactly only for the IEEE special cases and for integral exponents |y| <= 64 whose true value is a float64; representable results of non-integral exponents (100^2.5) are judged within the tolerance",
		"math.max/min are compared numerically (max(0,-0) may be either zero); NaN arguments are outside the domain; frexp of +-inf: only the mantissa is judged",
		"math.random: math/rand is process-global, so the random family runs on one goroutine while no other family is running",
	}

	// ---- string family
	subjects := c15AllStrings(sb.alphabet, sb.maxLen)
	subjects = append(subjects, sb.extra...)
	pats := c15AllStrings(sb.alphabet, sb.maxPatLen)
	pats = append(pats, "aB\x00", "\xe9\xff", "aB\x00\xe9\xff")
	var expired sync.Once
	harness.ParallelShards(len(subjects), func(wi, shard int) {
		if r.Expired() {
			expired.Do(func() { r.NotExhaustive("deadline reached inside the string family") })
			return
		}
		s := subjects[shard]
		x.strSubject(x.workers[wi], s, c15Window(len(s), 2), pats, sb.repLo, sb.repHi, len(s) <= 3)
	})
	harness.ParallelShards(257, func(wi, shard int) { x.strBytes(x.workers[wi], shard) })
	r.Extra["string_subjects"] = len(subjects) + 257
	r.Extra["find_patterns"] = len(pats)

	// ---- format family
	x.runFormat()

	// ---- math family
	x.runMath()

	r.Extra["deviating_signatures"] = len(x.sigCnt)
	if os.Getenv("VERIF_C15_SIGS") != "" { // development aid: every deviating signature with a count and an example
		var sigs []string
		for s := range x.sigCnt {
			sigs = append(sigs, s)
		}
		sort.Strings(sigs)
		for _, s := range sigs {
			fmt.Fprintf(os.Stderr, "SIG %6d  %s\n              %s\n", x.sigCnt[s], s, strings.ReplaceAll(x.sigEx[s], "\n", " "))
		}
	}
}

// ---- replay ----------------------------------------------------------------------------------------

func replayC15(raw json.RawMessage) (bool, string) {
	var jc c15JCase
	if err := json.Unmarshal(raw, &jc); err != nil {
		return false, "bad replay object: " + err.Error()
	}
	c := c15Case{Lib: jc.Lib, Fn: jc.Fn}
	for _, a := range jc.Args {
		v, err := a.val()
		if err != nil {
			return false, "bad replay argument: " + err.Error()
		}
		c.Args = append(c.Args, v)
	}
	w := newC15Worker()
	defer w.L.Close()
	if jc.Seed != nil {
		// a random case: re-seed and check the first 1000 draws of this call shape
		w.exec(c15Case{Lib: "math", Fn: "randomseed", Args: []c15Val{c15I(*jc.Seed)}})
		for d := 0; d < 1000; d++ {
			got, err, _ := w.exec(c)
			exp, _, ok := c15ReplayExpect(c, got, err)
			if !ok {
				return false, fmt.Sprintf("math.randomseed(%d); draw %d: %s\n  got      %s\n  expected %s", *jc.Seed, d, c.String(), c15ListErr(got, err), exp)
			}
		}
		return true, fmt.Sprintf("math.randomseed(%d); 1000 draws of %s all in range", *jc.Seed, c.String())
	}
	got, err, mutated := w.exec(c)
	g := c15List(got)
	if err != nil {
		g = "error: " + err.Error()
	}
	exp, judged, ok := c15ReplayExpect(c, got, err)
	rep := fmt.Sprintf("%s\n  got      %s\n  expected %s", c.String(), g, exp)
	if mutated {
		return false, rep + "\n  a string argument was modified in place"
	}
	if !judged {
		return true, rep + "\n  (case is outside the judged domain)"
	}
	return ok, rep
}

// c15ReplayExpect recomputes the expectation for a stored case and compares.
func c15ReplayExpect(c c15Case, got []c15Val, err error) (exp string, judged, ok bool) {
	intArg := func(k int) (*int, bool) {
		if k >= len(c.Args) || c.Args[k].K == 'z' {
			return nil, true
		}
		if c.Args[k].K != 'n' {
			return nil, false
		}
		i := int(c.Args[k].N)
		return &i, true
	}
	exact := func(e []c15Val) (string, bool, bool) {
		return c15List(e), true, err == nil && c15EqualLists(e, got)
	}
	if c.Lib == "string" && len(c.Args) > 0 && (c.Args[0].K == 's' || c.Fn == "char") {
		s := c.Args[0].S
		switch c.Fn {
		case "sub":
			i, _ := intArg(1)
			j, _ := intArg(2)
			if i == nil {
				return "", false, true
			}
			return exact([]c15Val{c15S(c15RefSub(s, *i, j))})
		case "byte":
			i, _ := intArg(1)
			j, _ := intArg(2)
			return exact(c15RefByte(s, i, j))
		case "find":
			if len(c.Args) < 2 || c.Args[1].K != 's' {
				return "", false, true
			}
			init, _ := intArg(2)
			e, judged := c15RefFind(s, c.Args[1].S, init)
			if !judged {
				return "", false, true
			}
			return exact(e)
		case "len":
			return exact([]c15Val{c15I(len(s))})
		case "rep":
			n, _ := intArg(1)
			if n == nil {
				return "", false, true
			}
			return exact([]c15Val{c15S(c15RefRep(s, *n))})
		case "reverse":
			return exact([]c15Val{c15S(c15RefReverse(s))})
		case "upper":
			return exact([]c15Val{c15S(c15RefCase(s, true))})
		case "lower":
			return exact([]c15Val{c15S(c15RefCase(s, false))})
		case "char":
			b := []byte{}
			for _, a := range c.Args {
				b = append(b, byte(int(a.N)))
			}
			return exact([]c15Val{c15S(string(b))})
		case "format":
			return c15ReplayFormat(c, got, err)
		}
	}
	if c.Lib == "string" && c.Fn == "char" {
		return exact([]c15Val{c15S("")})
	}
	if c.Lib == "math" {
		return c15ReplayMath(c, got, err)
	}
	return "", false, true
}
