package props

import (
	"encoding/json"
	"fmt"
	"os"
	"runtime/debug"
	"strconv"
	"strings"
	"sync/atomic"
	"time"

	lua "github.com/yuin/gopher-lua"

	"verif/internal/harness"
	"verif/internal/refs/lstrlib"
)

// c14PatSrc is an indexed family of patterns (simplest first). at may return skip=true for an index
// whose pattern is covered elsewhere.
type c14PatSrc struct {
	desc string
	n    int
	at   func(i int) (p string, skip bool)
}

// every string over alpha with minLen <= length <= maxLen
func c14CharPats(alpha string, minLen, maxLen int) c14PatSrc {
	lo := 0
	if minLen > 0 {
		lo = c14CountUpTo(len(alpha), minLen-1)
	}
	hi := c14CountUpTo(len(alpha), maxLen)
	return c14PatSrc{desc: fmt.Sprintf("every string of length %d..%d over {%s}", minLen, maxLen, alpha), n: hi - lo,
		at: func(i int) (string, bool) { return c14NthString(alpha, lo+i), false }}
}

// Pattern items as tokens: lets the enumeration reach patterns such as (()%1) or [a-b]*%d? that are
// longer than the character bound.
var c14Tokens = []string{"a", "b", ".", "%d", "%s", "[ab]", "[^a]", "[a-b]", "(", ")", "()", "%1", "%2", "%bab", "*", "+", "-", "?", "^", "$"}

// every sequence of minTok..maxTok tokens whose text is longer than coveredLen characters (shorter
// ones are in the character enumeration); "(" directly followed by ")" is skipped (same text as "()")
func c14TokenPats(minTok, maxTok, coveredLen int) c14PatSrc {
	k := len(c14Tokens)
	lo := 0
	if minTok > 0 {
		lo = c14CountUpTo(k, minTok-1)
	}
	hi := c14CountUpTo(k, maxTok)
	return c14PatSrc{desc: fmt.Sprintf("every sequence of %d..%d pattern tokens %q with more than %d characters", minTok, maxTok, c14Tokens, coveredLen), n: hi - lo,
		at: func(i int) (string, bool) {
			idx := lo + i
			l, p := 0, 1
			for idx >= p {
				idx -= p
				p *= k
				l++
			}
			toks := make([]int, l)
			for j := l - 1; j >= 0; j-- {
				toks[j] = idx % k
				idx /= k
			}
			var sb strings.Builder
			for j, t := range toks {
				if j > 0 && c14Tokens[toks[j-1]] == "(" && c14Tokens[t] == ")" {
					return "", true
				}
				sb.WriteString(c14Tokens[t])
			}
			if sb.Len() <= coveredLen {
				return "", true
			}
			return sb.String(), false
		}}
}

// One enumeration block: a pattern family x subjects with subMin <= length <= subMax; the plan (what
// is called) is chosen per pattern; nil = the pattern is not part of this block.
type c14Block struct {
	name           string
	src            c14PatSrc
	subMin, subMax int
	plan           func(pt *c14Pat) *c14Plan
	subAlpha       string // subject alphabet ("" = c14SubAlpha)
}

func runC14(r *harness.Run) {
	if os.Getenv("VERIF_C14_CHILD") != "" {
		c14GrowthChild() // never returns
	}
	runPinned(r, "C14")
	reentrantFamily(r, "C14")
	c := &c14Ctx{r: r}
	r.Assumptions = []string{
		"reference = Go port of Lua 5.1.4 lstrlib.c (internal/refs/lstrlib), validated against a hand-transcribed conformance table (go test) and, at run time, against its own static well-formedness classifier",
		"C locale character classes; pattern and subject bytes < 0x80 except in block QU (the two bytes of a UTF-8 sequence), no embedded NUL",
		"not judged (only 'no crash'): %f, sets mixing classes and ranges ([%a-z], [a-%d]), back-reference to a position capture, more than 32 captures, replacement escapes other than %0-%9 and %%, find/match init > len+1 (5.1.4 clamps, 5.2+ fails: both accepted), string.match returning no value instead of nil",
		"hangs are decided by a watchdog (30 s on a microsecond-sized case; growth families: timeout reproduced in isolation with a 20x larger limit)",
	}

	nw := harness.Workers()
	workers := make([]*c14Worker, nw)
	for i := range workers {
		workers[i] = newC14Worker()
	}
	stop := make(chan struct{})
	hung := make(chan string, 1)
	go c14Watch(workers, 30*time.Second, stop, hung)
	done := make(chan struct{})

	quickS := 55
	if v, err := strconv.Atoi(os.Getenv("VERIF_C14_QUICK_S")); err == nil && v > 0 {
		quickS = v
	}
	quickDeadline := time.Now().Add(time.Duration(quickS) * time.Second)
	thoroughDeadline := time.Now().Add(990 * time.Second)
	defer debug.SetGCPercent(debug.SetGCPercent(1600)) // tiny live heap, very high allocation rate inside pm.Find
	expired := func() bool {
		if r.Expired() {
			return true
		}
		if r.Thorough() {
			return time.Now().After(thoroughDeadline)
		}
		return time.Now().After(quickDeadline)
	}

	allRepls := c14Strings(c14ReplAlpha, 3)
	shortRepls := c14Strings(c14ReplAlpha, 2)
	wfOnly := func(pl c14Plan) func(pt *c14Pat) *c14Plan {
		return func(pt *c14Pat) *c14Plan {
			if pt.info.Malformed == "" {
				return &pl
			}
			return nil
		}
	}
	malOnly := func(pl c14Plan) func(pt *c14Pat) *c14Plan {
		return func(pt *c14Pat) *c14Plan {
			if pt.info.Malformed != "" {
				return &pl
			}
			return nil
		}
	}
	withCaps := func(pl c14Plan) func(pt *c14Pat) *c14Plan {
		return func(pt *c14Pat) *c14Plan {
			if pt.info.Malformed == "" && (pt.info.NCaptures > 0 || len(pt.p) <= 2) {
				return &pl
			}
			return nil
		}
	}
	// patterns with a back-reference to a real (non-position) capture: the shortest is 5 characters
	withBackref := func(pl c14Plan) func(pt *c14Pat) *c14Plan {
		return func(pt *c14Pat) *c14Plan {
			if pt.info.Malformed == "" && pt.info.Backrefs > 0 && !pt.info.BackrefToPos {
				return &pl
			}
			return nil
		}
	}
	brefOpen := func(pl c14Plan) func(pt *c14Pat) *c14Plan {
		return func(pt *c14Pat) *c14Plan {
			if pt.info.BackrefToOpen {
				return &pl
			}
			return nil
		}
	}
	const S = "[]^-ab1%d" // sub-alphabet for the set blocks
	const R = "ab.*-()%1" // sub-alphabet for the back-reference blocks
	any := func(pl c14Plan) func(pt *c14Pat) *c14Plan { return func(pt *c14Pat) *c14Plan { return &pl } }
	full := c14Plan{pmFind: true, luaFind: 2, gmatch: true, gsub: c14GsubFull()}
	mid := c14Plan{pmFind: true, luaFind: 2, gmatch: true, gsub: c14GsubLite()}
	lite := c14Plan{pmFind: true, luaFind: 1, gmatch: true, gsub: c14GsubLite()}
	lite2 := c14Plan{pmFind: true, luaFind: 1, gmatch: true, gsub: []c14GsubCall{{1, c14NoLimit}, {4, c14NoLimit}}}
	malPlan := c14Plan{pmFind: true, luaFind: 1, gmatch: true, gsub: []c14GsubCall{{0, c14NoLimit}}}
	pmOnly := c14Plan{pmFind: true}
	pmGmatch := c14Plan{pmFind: true, gmatch: true}
	noGsub := c14Plan{pmFind: true, luaFind: 1, gmatch: true}
	luaOnly := c14Plan{luaFind: 1, gsub: c14GsubLite()}
	inits := c14Plan{luaFind: 3}
	A := c14PatAlpha
	var blocks []c14Block
	if !r.Thorough() {
		blocks = []c14Block{
			{"Q1 well-formed, every API", c14CharPats(A, 0, 3), 0, 2, wfOnly(full), ""},
			// bytes, not code points: subjects and patterns over the two bytes of a well-formed UTF-8
			// sequence (in and out of order) and an ASCII letter
			{"QU bytes of a multi-byte sequence in subject and pattern, every API", c14CharPats("\xc3\xa9a.*", 0, 2), 0, 4, wfOnly(full), "\xc3\xa9a"},
			{"Q2 well-formed, every API (reduced gsub)", c14CharPats(A, 0, 3), 3, 3, wfOnly(lite), ""},
			{"Q3 malformed, every API", c14CharPats(A, 0, 3), 0, 2, malOnly(malPlan), ""},
			{"Q4 find/match at every init in [-len-1, len+2]", c14CharPats(A, 0, 2), 0, 3, any(inits), ""},
			{"Q5 well-formed, every API (gsub: one string, one function)", c14CharPats(A, 4, 4), 0, 2, wfOnly(lite2), ""},
			{"Q6 well-formed, pm.Find", c14CharPats(A, 4, 4), 3, 3, wfOnly(pmOnly), ""},
			{"Q7 malformed, pm.Find + find/match + gmatch", c14CharPats(A, 4, 4), 0, 1, malOnly(noGsub), ""},
			{"Q8 gsub with every replacement string of length <= 3 (patterns with captures, or of length <= 2)", c14CharPats(A, 0, 4), 0, 1, withCaps(c14Plan{gsubRepls: allRepls}), ""},
			{"Q9 token patterns, well-formed, every API (reduced gsub)", c14TokenPats(0, 3, 4), 0, 2, wfOnly(lite), ""},
			{"Q10 token patterns, well-formed, pm.Find", c14TokenPats(0, 3, 4), 3, 3, wfOnly(pmOnly), ""},
			{"Q11 token patterns, malformed, pm.Find", c14TokenPats(0, 3, 4), 0, 1, malOnly(pmOnly), ""},
			{"Q13 malformed: back-reference to a capture that is still open, every API", c14TokenPats(4, 4, 4), 0, 2, brefOpen(malPlan), ""},
			{"Q14 sets: well-formed, pm.Find + find/match + gmatch", c14CharPats(S, 5, 5), 0, 2, wfOnly(noGsub), ""},
			{"Q12 well-formed with a back-reference to a substring capture, every API (reduced gsub)", c14CharPats(R, 5, 6), 0, 3, withBackref(lite), ""},
		}
	} else {
		B := "ab.%*-()1" // 9-symbol sub-alphabet without sets (DESIGN §4 C14)
		blocks = []c14Block{
			{"T1 well-formed, every API", c14CharPats(A, 0, 3), 0, 3, wfOnly(full), ""},
			{"T2 well-formed, every API (reduced gsub)", c14CharPats(A, 4, 4), 0, 3, wfOnly(mid), ""},
			{"T3 malformed, every API", c14CharPats(A, 0, 4), 0, 2, malOnly(malPlan), ""},
			{"T4 find/match at every init in [-len-1, len+2], well-formed", c14CharPats(A, 0, 3), 0, 3, wfOnly(inits), ""},
			{"T5 find/match at every init in [-len-1, len+2], malformed", c14CharPats(A, 0, 2), 0, 3, malOnly(inits), ""},
			{"T6 gsub with every replacement string of length <= 3 (patterns with captures, or of length <= 2)", c14CharPats(A, 0, 4), 0, 2, withCaps(c14Plan{gsubRepls: allRepls}), ""},
			{"T7 token patterns, well-formed, every API (reduced gsub)", c14TokenPats(0, 3, 4), 0, 4, wfOnly(lite), ""},
			{"T8 well-formed, pm.Find", c14CharPats(A, 0, 4), 4, 4, wfOnly(pmOnly), ""},
			{"T9 well-formed, pm.Find + gmatch", c14CharPats(A, 5, 5), 0, 2, wfOnly(pmGmatch), ""},
			{"T10 well-formed with captures, find/match + gsub", c14CharPats(A, 5, 5), 0, 1, withCaps(luaOnly), ""},
			{"T11 malformed, pm.Find", c14CharPats(A, 5, 5), 0, 1, malOnly(pmOnly), ""},
			{"T12 gsub with every replacement string of length <= 2 (patterns with captures)", c14CharPats(A, 5, 5), 0, 1, withCaps(c14Plan{gsubRepls: shortRepls}), ""},
			{"T13 token patterns, well-formed, every API (reduced gsub)", c14TokenPats(4, 4, 5), 0, 2, wfOnly(lite), ""},
			{"T14 token patterns, malformed, pm.Find", c14TokenPats(0, 4, 5), 0, 1, malOnly(pmOnly), ""},
			{"T15 well-formed, pm.Find", c14CharPats(B, 6, 6), 0, 2, wfOnly(pmOnly), ""},
			{"T18 malformed: back-reference to a capture that is still open, every API", c14TokenPats(4, 4, 4), 0, 2, brefOpen(malPlan), ""},
			{"T20 sets: well-formed, pm.Find + find/match + gmatch", c14CharPats(S, 6, 6), 0, 2, wfOnly(noGsub), ""},
			{"T16 well-formed with a back-reference to a substring capture, every API (reduced gsub)", c14CharPats(R, 5, 7), 0, 3, withBackref(lite), ""},
			{"T17 well-formed with a back-reference to a substring capture, pm.Find", c14CharPats(R, 5, 6), 4, 4, withBackref(pmOnly), ""},
			{"T19 well-formed, pm.Find", c14CharPats(A, 5, 5), 3, 3, wfOnly(pmOnly), ""},
		}
	}

	var tuples, pairs int64
	var blockReports []map[string]interface{}
	go func() {
		defer close(done)
		for bi := range blocks {
			b := &blocks[bi]
			if sel := os.Getenv("VERIF_C14_BLOCKS"); sel != "" && !strings.Contains(","+sel+",", ","+strings.SplitN(b.name, " ", 2)[0]+",") {
				continue
			}
			salpha := c14SubAlpha
			if b.subAlpha != "" {
				salpha = b.subAlpha
			}
			subjects := c14Strings(salpha, b.subMax)
			if b.subMin > 0 {
				subjects = subjects[c14CountUpTo(len(salpha), b.subMin-1):]
			}
			const chunk = 64
			nsh := (b.src.n + chunk - 1) / chunk
			var bt, bp, bpat int64
			t0 := time.Now()
			cut := int64(0)
			harness.ParallelShards(nsh, func(wi, shard int) {
				w := workers[wi]
				if expired() {
					atomic.AddInt64(&cut, 1)
					return
				}
				var lt, lp, lpat int64
				for idx := shard * chunk; idx < (shard+1)*chunk && idx < b.src.n; idx++ {
					ps, skip := b.src.at(idx)
					if skip {
						continue
					}
					pt := c14MkPat(ps)
					plan := b.plan(pt)
					if plan == nil {
						continue
					}
					lpat++
					for _, s := range subjects {
						lt += c.runPair(w, pt, s, plan)
						lp++
					}
					if idx == 0 || idx == b.src.n-1 || (idx >= 100 && isPow10C14(idx)) {
						// verbatim sample: the pattern, one of the subjects, and what the reference says
						sj := subjects[(idx*7+3)%len(subjects)]
						rv, rerr := lstrlib.Find(sj, ps, 1, false, true)
						ref := c14RenderRVs(rv)
						if rerr != nil {
							ref = "error: " + rerr.Msg
						}
						r.AddSample(map[string]interface{}{"block": strings.SplitN(b.name, " ", 2)[0], "pattern_index": idx, "pattern": ps, "subject": sj,
							"malformed": pt.info.Malformed, "reference_find": ref})
					}
					c.account(pt)
				}
				w.cur.Store("")
				atomic.AddInt64(&bt, lt)
				atomic.AddInt64(&bp, lp)
				atomic.AddInt64(&bpat, lpat)
				r.EvalN(lt)
			})
			tuples += bt
			pairs += bp
			rep := map[string]interface{}{"block": b.name, "pattern_family": b.src.desc, "patterns": bpat, "subject_lengths": fmt.Sprintf("%d..%d", b.subMin, b.subMax), "subjects": len(subjects),
				"pairs": bp, "tuples": bt, "complete": cut == 0, "wall_s": float64(int(time.Since(t0).Seconds()*10)) / 10}
			blockReports = append(blockReports, rep)
			if cut > 0 {
				r.NotExhaustive(fmt.Sprintf("deadline reached in block %q (%d of %d shards not run)", b.name, cut, nsh))
			}
		}
		if !expired() {
			c.classTable(workers[0])
			c.gmatchDirect(workers[0])
			c.growth(workers[0])
		} else {
			r.NotExhaustive("growth families skipped at the deadline")
		}
	}()

	select {
	case <-done:
	case cur := <-hung:
		p, s := cur, ""
		for i := 0; i < len(cur); i++ {
			if cur[i] == 0 {
				p, s = cur[:i], cur[i+1:]
			}
		}
		in := lstrlib.Classify(p, true)
		c.report("hang/enumeration/"+c14Feat(&in), fmt.Sprintf("a worker made no progress for 30 s on pattern=%q subject=%q", p, s),
			c14Case{API: "hang", Pattern: p, Subject: s})
		r.NotExhaustive("stopped after a hang")
	}
	close(stop)
	c14DebugDump()
	r.Rule = "blocks (coverage.blocks): every pattern of a family (all strings over the 17-symbol alphabet {" + c14PatAlpha + "} up to the block's length bound, shortest first; all sequences of up to 3 (quick) / 4 (thorough) pattern tokens; " +
		"all strings over the sub-alphabets for sets, back-references and the 9-symbol set-free alphabet) x every subject over {" + c14SubAlpha + "} within the block's length bounds x " +
		"every start offset (pm.Find, limit 1 and limit -1) / init in [-len-1, len+2] (string.find, string.match) / replacement (strings over {" + c14ReplAlpha + "} up to length 3, a table, five functions) / limit (none, 0, 1, 2); " +
		"plus a class table (every class letter, escaped character, '.', ranges x every single-byte subject 0..127), direct calls of the gmatch iterator, and growth families run in a child process; " +
		"each tuple is one call of pm.Find or of string.find/match/gmatch/gsub through a precompiled Lua function on a reused LState, compared with the lstrlib port; " +
		"non-trivial = distinct pattern on which the reference matches or raises for at least one probe subject (plus each class-table pattern and growth case)"
	r.Extra["blocks"] = blockReports
	for _, w := range workers {
		r.Count("calls_pm.Find", w.nPm)
		r.Count("calls_string.find", w.nFind)
		r.Count("calls_string.match", w.nMatch)
		r.Count("calls_string.gmatch", w.nGmatch)
		r.Count("calls_string.gsub", w.nGsub)
	}
	r.Extra["pairs"] = pairs
	r.Extra["tuples"] = tuples
	r.Extra["distinct_reference_outcomes_pmFind_all"] = atomic.LoadInt64(&c.nOutcome)
	r.AddSample(map[string]interface{}{"first_pattern": c14NthString(c14PatAlpha, 0), "last_pattern_len4": c14NthString(c14PatAlpha, c14CountUpTo(17, 4)-1)})
}

func isPow10C14(n int) bool {
	for n >= 10 && n%10 == 0 {
		n /= 10
	}
	return n == 1
}

// account records distinctness evidence for one pattern (after all its subjects were run).
func (c *c14Ctx) account(pt *c14Pat) {
	// a pattern is non-trivial if the reference does something with it on a probe subject set:
	// matches somewhere, or raises. Cheap: probe on a fixed handful of subjects.
	for _, s := range []string{"", "a", "ab", "a1 (", "ba a", "((a"} {
		m, err := lstrlib.Scan(s, pt.p, 0)
		if err != nil || m != nil {
			c.r.Nontrivial(pt.p)
			return
		}
	}
}

// gmatchDirect: the iterator returned by string.gmatch must work when called directly (O20).
func (c *c14Ctx) gmatchDirect(w *c14Worker) {
	subjects := c14Strings(c14SubAlpha, 2)
	n := c14CountUpTo(len(c14PatAlpha), 2)
	var t int64
	for idx := 0; idx < n; idx++ {
		pt := c14MkPat(c14NthString(c14PatAlpha, idx))
		for _, s := range subjects {
			atomic.AddUint64(&w.seq, 1)
			w.cur.Store(pt.p + "\x00" + s)
			out, _, refErr := lstrlib.Gmatch(s, pt.p, -1)
			var b []byte
			for _, vs := range out {
				for _, v := range vs {
					b = c14AppendRV(b, v)
				}
				b = append(b, '/')
			}
			got := w.call(w.fGmatchDirect, lua.LString(s), lua.LString(pt.p))
			variant := "direct"
			if got.err != nil && !got.panicked && strings.Contains(got.err.Error(), "userdata expected") {
				// O20: the iterator only works when handed the hidden state value the generic for passes
				variant = "direct-call-needs-hidden-state"
			}
			p, s := pt.p, s
			c.judge("gmatch", variant, &pt.infoG, false, string(b), refErr, got, "", "", func() c14Case {
				return c14Case{API: "gmatch-direct", Pattern: p, Subject: s}
			})
			t++
		}
	}
	w.cur.Store("")
	c.r.EvalN(t)
	c.r.Count("gmatch_direct_calls", t)
}

// ---- replay -----------------------------------------------------------------------------------

func replayC14(raw json.RawMessage) (bool, string) {
	var cs c14Case
	if err := json.Unmarshal(raw, &cs); err != nil {
		return false, "bad replay object: " + err.Error()
	}
	if cs.API == "growth" {
		return c14ReplayGrowth(cs)
	}
	var found []string
	c := &c14Ctx{sink: func(sig, what string, _ c14Case) { found = append(found, "  signature: "+sig+"\n  "+what) }}
	w := newC14Worker()
	defer w.L.Close()
	pt := c14MkPat(cs.Pattern)
	plan := c14Plan{}
	switch cs.API {
	case "pm.Find":
		plan.pmFind = true
	case "find", "match":
		plan.luaFind = 3
	case "gmatch":
		plan.gmatch = true
	case "gmatch-direct":
		out, _, refErr := lstrlib.Gmatch(cs.Subject, cs.Pattern, -1)
		var b []byte
		for _, vs := range out {
			for _, v := range vs {
				b = c14AppendRV(b, v)
			}
			b = append(b, '/')
		}
		got := w.call(w.fGmatchDirect, lua.LString(cs.Subject), lua.LString(cs.Pattern))
		c.judge("gmatch", "direct", &pt.infoG, false, string(b), refErr, got, "", "", func() c14Case { return cs })
	case "gsub":
		rp, ok := c14ParseRepl(cs.Repl)
		if !ok {
			return false, "unknown replacement " + cs.Repl
		}
		lim := c14NoLimit
		if cs.Limit != nil {
			lim = *cs.Limit
		}
		c.gsubOne(w, pt, cs.Subject, lua.LString(cs.Subject), lua.LString(cs.Pattern), &rp, lim)
	case "hang":
		plan = c14Plan{pmFind: true, luaFind: 3, gmatch: true, gsub: c14GsubFull()}
	default:
		return false, "unknown api " + cs.API
	}
	c.runPair(w, pt, cs.Subject, &plan)
	rep := "replay of " + cs.API + " pattern=" + strconv.Quote(cs.Pattern) + " subject=" + strconv.Quote(cs.Subject) + ": "
	if len(found) == 0 {
		return true, rep + "no violation"
	}
	return false, rep + fmt.Sprintf("%d violation(s)\n%s", len(found), strings.Join(found, "\n"))
}
