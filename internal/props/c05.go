package props

// C05 — errors at any point are contained by protected calls and leave the state intact.
// Deviation-bounded fault enumeration: every base program is run once fault-free under the step
// hook (N instruction boundaries, T host-function calls), then re-run with exactly one fault at
// every boundary k (and, thorough tier, a second fault after the first recovery). The expected
// trace of a faulted run is derived from the validated run it deviates from.

import (
	"fmt"
	"sort"
	"strings"

	lua "github.com/yuin/gopher-lua"

	"verif/internal/glrun"
	"verif/internal/harness"
	. "verif/internal/luaref"
)

func init() { harness.Register("C05", "fault_enumeration", runC05) }

// ---- base programs (text templates) --------------------------------------------------------------------

type c05Body struct {
	name string
	src  string // uses ID for the region id
}

var c05Bodies = []c05Body{
	{"arith", `local acc = 0 for i = 1, 3 do acc = acc + i * 2 emit("b", ID, i) end tick(ID)`},
	{"calls3", `local function l3(x) emit("b", ID, "l3") tick(ID) return x + 1 end local function l2(x) return l3(x) * 2 end local function l1(x) local r = l2(x) emit("b", ID, "l1") return r end l1(1)`},
	{"meta", `local mo = setmetatable({}, {__index = function(t, k) emit("b", ID, "idx") tick(ID) return k end, __add = function(a, b) emit("b", ID, "add") return 1 end, __call = function(self, x) emit("b", ID, "call") return x end, __lt = function(a, b) emit("b", ID, "lt") return true end}) local a = mo.foo local b = mo + 1 local c = mo(3) local d = mo < mo`},
	{"iter", `for i in (function(s, c) if c < 2 then emit("b", ID, "it") tick(ID) return c + 1 end end), nil, 0 do emit("b", ID, i) end`},
	{"sort", `local st = {3, 1, 2} table.sort(st, function(a, b) emit("b", ID, "cmp") tick(ID) return a < b end) emit("b", ID, st[1])`},
	{"gsub", `local r = ("ab"):gsub(".", function(ch) emit("b", ID, ch) tick(ID) return ch:upper() end) emit("b", ID, r)`},
	{"hostcb", `local r = hcall(function(x) emit("b", ID, "cb") tick(ID) return x end, 5) emit("b", ID, r)`},
	{"closures", `local fs = {} for i = 1, 3 do local v = i * 10 fs[i] = function() v = v + 1 return v end end emit("b", ID, fs[2]()) keep[#keep + 1] = fs[3] tick(ID)`},
	{"vararg", `local function va(...) local n = select("#", ...) local t = {...} return n, t[n] end emit("b", ID, va(unpack(bigt))) tick(ID)`},
	{"deeprec", `local function rec(n) if n == 0 then tick(ID) return 0 end return 1 + rec(n - 1) end emit("b", ID, rec(20))`},
	{"strings", `local s = "" for i = 1, 3 do s = s .. i end emit("b", ID, s, #s, s:sub(2), tostring(12)) tick(ID)`},
	{"tables", `local tt = {} for i = 1, 4 do tt[i] = i table.insert(tt, 1, -i) end emit("b", ID, #tt, tt[1], table.concat({1, 2, 3}, ",")) tick(ID)`},
}

type c05Region struct {
	name string
	// wrap returns source for a region with id, whose body is bodySrc; defines ok<id>, v<id>
	wrap func(id int, body string) string
}

var c05Regions = []c05Region{
	{"pcall", func(id int, body string) string {
		return fmt.Sprintf(`local ok%[1]d, v%[1]d snap("b%[1]d") emit("enter", %[1]d) ok%[1]d, v%[1]d = pcall(function() emit("in", %[1]d) %[2]s emit("out", %[1]d) return "ret%[1]d" end) emit("exit", %[1]d, ok%[1]d, v%[1]d) snap("a%[1]d")`, id, body)
	}},
	{"xpcall", func(id int, body string) string {
		return fmt.Sprintf(`local ok%[1]d, v%[1]d snap("b%[1]d") emit("enter", %[1]d) ok%[1]d, v%[1]d = xpcall(function() emit("in", %[1]d) %[2]s emit("out", %[1]d) return "ret%[1]d" end, function(e) emit("hstart", %[1]d) hdepth(%[1]d) emit("hend", %[1]d) return "handled%[1]d" end) emit("exit", %[1]d, ok%[1]d, v%[1]d) snap("a%[1]d")`, id, body)
	}},
	{"xpcall-herr", func(id int, body string) string {
		return fmt.Sprintf(`local ok%[1]d, v%[1]d snap("b%[1]d") emit("enter", %[1]d) ok%[1]d, v%[1]d = xpcall(function() emit("in", %[1]d) %[2]s emit("out", %[1]d) return "ret%[1]d" end, function(e) emit("hstart", %[1]d) hdepth(%[1]d) local hbad = nilv + 1 emit("hend", %[1]d) return "handled%[1]d" end) emit("exit", %[1]d, ok%[1]d, v%[1]d) snap("a%[1]d")`, id, body)
	}},
	{"gopcall", func(id int, body string) string {
		return fmt.Sprintf(`local ok%[1]d, v%[1]d snap("b%[1]d") emit("enter", %[1]d) ok%[1]d, v%[1]d = gopcall(function() emit("in", %[1]d) %[2]s emit("out", %[1]d) return "ret%[1]d" end) emit("exit", %[1]d, ok%[1]d, v%[1]d) snap("a%[1]d")`, id, body)
	}},
	{"gocbp", func(id int, body string) string {
		return fmt.Sprintf(`local ok%[1]d, v%[1]d snap("b%[1]d") emit("enter", %[1]d) ok%[1]d, v%[1]d = gocbp(function() emit("in", %[1]d) %[2]s emit("out", %[1]d) return "ret%[1]d" end) emit("exit", %[1]d, ok%[1]d, v%[1]d) snap("a%[1]d")`, id, body)
	}},
	{"resume", func(id int, body string) string {
		return fmt.Sprintf(`local ok%[1]d, v%[1]d local co%[1]d = coroutine.create(function() emit("in", %[1]d) %[2]s emit("out", %[1]d) return "ret%[1]d" end) snap("b%[1]d") emit("enter", %[1]d) ok%[1]d, v%[1]d = coroutine.resume(co%[1]d) emit("exit", %[1]d, ok%[1]d, v%[1]d) emit("costatus", %[1]d, coroutine.status(co%[1]d)) snap("a%[1]d")`, id, body)
	}},
	{"wrap-in-pcall", func(id int, body string) string {
		return fmt.Sprintf(`local ok%[1]d, v%[1]d local w%[1]d = coroutine.wrap(function() emit("in", %[1]d) %[2]s emit("out", %[1]d) return "ret%[1]d" end) snap("b%[1]d") emit("enter", %[1]d) ok%[1]d, v%[1]d = pcall(w%[1]d) emit("exit", %[1]d, ok%[1]d, v%[1]d) snap("a%[1]d")`, id, body)
	}},
}

const c05Prelude = `local nilv = nil
local s1, s2, keep = "s1", {}, {}
local up = "u"
local bigt = {} for i = 1, 120 do bigt[i] = i end
emit("ids", s2, keep, bigt)
local function after() local t = {} for i = 1, 5 do t[#t + 1] = i * i end local function c() return up .. #t end return c(), t[5], ("x"):rep(3), #bigt end
`

const c05Epilogue = `
emit("locals", s1, s2, up, #keep)
emit("after", after())
for i = 1, #keep do emit("kept", i, keep[i]()) end
for i = 1, #keep do local a = keep[i]() local churn = after() local b = keep[i]() emit("keptdiff", i, b - a) end
`

type c05Prog struct {
	name string
	src  string
}

func c05Programs(thorough bool) []c05Prog {
	var out []c05Prog
	sub := func(b c05Body, id int) string { return strings.ReplaceAll(b.src, "ID", fmt.Sprint(id)) }
	// single regions
	for _, rg := range c05Regions {
		for _, b := range c05Bodies {
			out = append(out, c05Prog{"single/" + rg.name + "/" + b.name, c05Prelude + rg.wrap(1, sub(b, 1)) + c05Epilogue})
		}
	}
	// region inside a loop of the caller (two instances)
	for _, rg := range c05Regions[:3] {
		for _, b := range []c05Body{c05Bodies[0], c05Bodies[7]} {
			src := c05Prelude + "for rep = 1, 2 do local idl = rep " + rg.wrap(1, sub(b, 1)) + " end" + c05Epilogue
			out = append(out, c05Prog{"loop/" + rg.name + "/" + b.name, src})
		}
	}
	// nested: inner region inside the body of an outer region
	pairs := [][2]int{{0, 1}, {2, 3}, {4, 5}, {6, 7}, {8, 9}, {10, 11}}
	for oi, outer := range c05Regions {
		for ii, inner := range c05Regions {
			ps := pairs
			if !thorough {
				ps = [][2]int{pairs[(oi+ii)%len(pairs)], pairs[(oi*2+ii+1)%len(pairs)]}
			}
			for _, p := range ps {
				body := sub(c05Bodies[p[0]], 1) + " " + inner.wrap(2, sub(c05Bodies[p[1]], 2)) + ` emit("b", 1, "after-inner", ok2)`
				out = append(out, c05Prog{fmt.Sprintf("nested2/%s/%s/%s+%s", outer.name, inner.name, c05Bodies[p[0]].name, c05Bodies[p[1]].name), c05Prelude + outer.wrap(1, body) + c05Epilogue})
			}
		}
	}
	// three levels
	for i, a := range c05Regions {
		b := c05Regions[(i+1)%len(c05Regions)]
		c := c05Regions[(i+2)%len(c05Regions)]
		inner := c.wrap(3, sub(c05Bodies[(i+2)%len(c05Bodies)], 3))
		mid := b.wrap(2, sub(c05Bodies[(i+5)%len(c05Bodies)], 2)+" "+inner+` emit("b", 2, "after-inner", ok3)`)
		outer := a.wrap(1, sub(c05Bodies[(i+8)%len(c05Bodies)], 1)+" "+mid+` emit("b", 1, "after-mid", ok2)`)
		out = append(out, c05Prog{fmt.Sprintf("nested3/%s/%s/%s", a.name, b.name, c.name), c05Prelude + outer + c05Epilogue})
	}
	// region entered from inside a metamethod / sort comparator / gsub callback (re-entry nesting)
	reentries := []struct{ name, pre, post string }{
		{"in-metamethod", `local mm = setmetatable({}, {__index = function(t, k) `, ` return ok1 end}) emit("outer", mm.key)`},
		{"in-comparator", `local stt = {2, 1} table.sort(stt, function(a, b) `, ` return a < b end) emit("outer", stt[1])`},
		{"in-gsub", `emit("outer", (("z"):gsub("z", function(ch) `, ` return "Z" end)))`},
		{"in-iterator", `for x in (function(s, c) if c == 0 then `, ` return 1 end end), nil, 0 do emit("outer", x) end`},
		{"in-hostcb", `emit("outer", hcall(function() `, ` return ok1 end))`},
	}
	for _, re := range reentries {
		for _, rg := range c05Regions[:3] {
			out = append(out, c05Prog{"reentry/" + re.name + "/" + rg.name, c05Prelude + re.pre + rg.wrap(1, sub(c05Bodies[0], 1)) + re.post + c05Epilogue})
		}
	}
	return out
}

// ---- region bookkeeping on a trace ----------------------------------------------------------------------

type c05Ev = glrun.Event

func evIs(e c05Ev, tag string) (int, bool) {
	if e.Kind != "emit" || len(e.Args) < 2 || e.Args[0] != "s:"+tag {
		return 0, false
	}
	var id int
	if _, err := fmt.Sscanf(e.Args[1], "n:%d", &id); err != nil {
		return 0, false
	}
	return id, true
}

// c05Expected derives the expected trace of a run that deviates from base (a validated run) by a
// fault raised when `cut` events of base have happened. It returns the expected events (with
// wildcard markers) or ok=false when the fault hits outside every region (the chunk must fail).
type c05Want struct {
	ev       c05Ev
	wildFrom int // arguments from this index on are not compared (-1: all compared)
	optional bool
}

type c05Cand struct {
	want       []c05Want
	chunkFails bool
	region     int
}

// c05Expected returns the admissible expectations for a fault raised when `cut` events of base
// have happened. A region is surely active between its inner "in" and "out" events; between the
// outer "enter" and "in" (prologue of the protected call) and between "out" and "exit" (its
// epilogue) the fault may hit on either side of the protection boundary, so both are admissible.
func c05Expected(base []c05Ev, cut int, regionKind map[int]string) (cands []c05Cand, unusable bool) {
	type ent struct {
		id    int
		state string // entered | inside | leaving
	}
	var stack []ent
	inHandler := map[int]bool{}
	for _, e := range base[:cut] {
		if id, ok := evIs(e, "enter"); ok {
			stack = append(stack, ent{id, "entered"})
		} else if id, ok := evIs(e, "in"); ok {
			if n := len(stack); n > 0 && stack[n-1].id == id {
				stack[n-1].state = "inside"
			}
		} else if id, ok := evIs(e, "out"); ok {
			if n := len(stack); n > 0 && stack[n-1].id == id {
				stack[n-1].state = "leaving"
			}
		} else if id, ok := evIs(e, "exit"); ok {
			for len(stack) > 0 && stack[len(stack)-1].id != id {
				stack = stack[:len(stack)-1]
			}
			if len(stack) > 0 {
				stack = stack[:len(stack)-1]
			}
		} else if id, ok := evIs(e, "hstart"); ok {
			inHandler[id] = true
		} else if id, ok := evIs(e, "hend"); ok {
			inHandler[id] = false
		}
	}
	prefix := func() []c05Want {
		var w []c05Want
		for _, e := range base[:cut] {
			w = append(w, c05Want{ev: e, wildFrom: -1})
		}
		return w
	}
	failAt := func(depth int) (c05Cand, bool) { // depth: index into stack of the region that fails; -1: chunk
		if depth < 0 {
			return c05Cand{want: prefix(), chunkFails: true}, true
		}
		r := stack[depth].id
		exitIdx := -1
		for i := cut; i < len(base); i++ {
			if id, ok := evIs(base[i], "exit"); ok && id == r {
				exitIdx = i
				break
			}
		}
		if exitIdx < 0 {
			return c05Cand{}, false
		}
		want := prefix()
		if regionKind[r] == "xpcall" && !inHandler[r] {
			want = append(want, c05Want{ev: c05Ev{Kind: "emit", Args: []string{"s:hstart", fmt.Sprintf("n:%d", r)}}, wildFrom: -1})
			want = append(want, c05Want{ev: c05Ev{Kind: "emit", Args: []string{"s:hend", fmt.Sprintf("n:%d", r)}}, wildFrom: -1})
		}
		if regionKind[r] == "xpcall-herr" && !inHandler[r] {
			// the handler starts and fails itself: no "hend"
			want = append(want, c05Want{ev: c05Ev{Kind: "emit", Args: []string{"s:hstart", fmt.Sprintf("n:%d", r)}}, wildFrom: -1})
		}
		ex := base[exitIdx]
		ne := c05Ev{Kind: "emit", Args: append([]string{}, ex.Args...)}
		if len(ne.Args) >= 3 {
			ne.Args[2] = "false"
		}
		want = append(want, c05Want{ev: ne, wildFrom: 3})
		for _, e := range base[exitIdx+1:] {
			w := c05Want{ev: e, wildFrom: -1}
			if id, ok := evIs(e, "costatus"); ok && id == r {
				w.ev = c05Ev{Kind: "emit", Args: []string{"s:costatus", fmt.Sprintf("n:%d", r), "s:dead"}}
			}
			if id, ok := evIs(e, "b"); ok && len(e.Args) >= 4 && (e.Args[2] == "s:after-inner" || e.Args[2] == "s:after-mid") && id+1 == r {
				// emit("b", outer, "after-inner", ok<inner>): the inner region's flag is now false
				w.ev = c05Ev{Kind: "emit", Args: append([]string{}, e.Args...)}
				w.ev.Args[3] = "false"
			}
			if e.Kind == "emit" && len(e.Args) >= 2 && e.Args[0] == "s:outer" {
				w.wildFrom = 1 // computed from the region's flag inside a re-entered callback
			}
			if e.Kind == "emit" && len(e.Args) >= 1 && e.Args[0] == "s:locals" {
				w.wildFrom = 4 // #keep depends on how far the body got
			}
			if e.Kind == "emit" && len(e.Args) >= 1 && (e.Args[0] == "s:kept" || e.Args[0] == "s:keptdiff") {
				w.optional = true
			}
			if e.Kind == "emit" && len(e.Args) >= 1 && e.Args[0] == "s:kept" {
				w.wildFrom = 2 // the value depends on how far the body got
			}
			want = append(want, w)
		}
		return c05Cand{want: want, region: r}, true
	}
	top := len(stack) - 1
	if top < 0 {
		c, _ := failAt(-1)
		return []c05Cand{c}, false
	}
	c, ok := failAt(top)
	if !ok {
		return nil, true
	}
	cands = append(cands, c)
	if stack[top].state != "inside" {
		if c2, ok := failAt(top - 1); ok {
			cands = append(cands, c2)
		}
	}
	return cands, false
}

func c05Match(want []c05Want, got []c05Ev) string {
	gi := 0
	for wi, w := range want {
		if gi >= len(got) {
			if w.optional {
				continue
			}
			return fmt.Sprintf("trace ends after %d host calls; expected next: %s(%s)", len(got), w.ev.Kind, strings.Join(w.ev.Args, ", "))
		}
		g := got[gi]
		ok := g.Kind == w.ev.Kind
		if ok {
			n := len(w.ev.Args)
			if w.wildFrom >= 0 && w.wildFrom < n {
				n = w.wildFrom
			}
			if len(g.Args) < n || (w.wildFrom < 0 && len(g.Args) != len(w.ev.Args)) {
				ok = false
			}
			for i := 0; ok && i < n; i++ {
				if g.Args[i] != w.ev.Args[i] {
					ok = false
				}
			}
		}
		if !ok {
			if w.optional {
				continue
			}
			return fmt.Sprintf("host call #%d is %s(%s); expected %s(%s) [expectation %d]", gi+1, g.Kind, strings.Join(g.Args, ", "), w.ev.Kind, strings.Join(w.ev.Args, ", "), wi)
		}
		gi++
	}
	if gi < len(got) {
		// trailing "kept" events are optional on both sides
		for ; gi < len(got); gi++ {
			if len(got[gi].Args) == 0 || (got[gi].Args[0] != "s:kept" && !(got[gi].Args[0] == "s:keptdiff" && len(got[gi].Args) == 3 && got[gi].Args[2] == "n:1")) {
				return fmt.Sprintf("unexpected extra host call #%d: %s(%s)", gi+1, got[gi].Kind, strings.Join(got[gi].Args, ", "))
			}
		}
	}
	return ""
}

// ---- worker -------------------------------------------------------------------------------------------------

type c05Worker struct {
	impl     *glrun.Impl
	tickArm  int    // fail at the tickArm-th tick() call (0: never)
	tickKind string // "goerr" | "raise" | "errtable"
	ticks    int
	depths   map[int]int // handler depth per region
}

const c05Canary = `local t = {} for i = 1, 3 do t[i] = i * 2 end local function f(...) return select("#", ...) end local co = coroutine.wrap(function(a) local b = coroutine.yield(a + 1) return b * 2 end) emit("canary", #t, f(1, 2, 3), co(1), co(5), pcall(error, "x"), ("a"):rep(2)) return "canary-done"`

func newC05Worker(opts lua.Options) *c05Worker {
	w := &c05Worker{}
	w.impl = glrun.NewImpl(opts, func(m *glrun.Impl) {
		L := m.L
		L.SetGlobal("tick", L.NewFunction(func(L *lua.LState) int {
			m.RecordEvent("tick", L)
			w.ticks++
			if w.tickArm > 0 && w.ticks == w.tickArm {
				switch w.tickKind {
				case "goerr":
					panic(fmt.Errorf("injected go panic"))
				case "raise":
					L.RaiseError("injected fault (host)")
				case "errtable":
					tb := L.NewTable()
					tb.RawSetString("injected", lua.LTrue)
					L.Error(tb, 1)
				case "gonil":
					var p *lua.LTable
					_ = p.Metatable // nil dereference inside a host function
				}
			}
			return 0
		}))
		L.SetGlobal("snap", L.NewFunction(func(L *lua.LState) int {
			s := lua.VerifSnapshot(L)
			uv := append([]int(nil), s.OpenUpvalues...)
			sort.Ints(uv)
			fr, _ := lua.VerifCurrentFrame(L)
			dangling := ""
			for _, i := range uv {
				if i >= fr.LocalBase {
					dangling = fmt.Sprintf(" DANGLING-UPVALUE@%d", i)
				}
			}
			m.Notes = append(m.Notes, fmt.Sprintf("%s sp=%d top=%d panic=%v%s", L.ToString(1), s.Sp, s.Top, s.PanicSet, dangling))
			return 0
		}))
		L.SetGlobal("hdepth", L.NewFunction(func(L *lua.LState) int {
			sp, _ := lua.VerifDepth(L)
			if w.depths != nil {
				w.depths[L.ToInt(1)] = sp
			}
			return 0
		}))
		L.SetGlobal("gopcall", L.NewFunction(func(L *lua.LState) int {
			fn := L.CheckFunction(1)
			L.SetTop(0)
			L.Push(fn)
			if err := L.PCall(0, 1, nil); err != nil {
				if n := L.GetTop(); n != 0 {
					m.Notes = append(m.Notes, fmt.Sprintf("DANGLING-STACK: failed PCall left %d values on the caller's stack", n))
				}
				L.SetTop(0)
				L.Push(lua.LFalse)
				L.Push(lua.LString("goerr:" + firstLine(err.Error())))
				return 2
			}
			v := L.Get(-1)
			L.SetTop(0)
			L.Push(lua.LTrue)
			L.Push(v)
			return 2
		}))
		L.SetGlobal("gocbp", L.NewFunction(func(L *lua.LState) int {
			fn := L.CheckFunction(1)
			L.SetTop(0)
			if err := L.CallByParam(lua.P{Fn: fn, NRet: 1, Protect: true}); err != nil {
				if n := L.GetTop(); n != 0 {
					m.Notes = append(m.Notes, fmt.Sprintf("DANGLING-STACK: failed protected CallByParam left %d values on the caller's stack", n))
				}
				L.SetTop(0)
				L.Push(lua.LFalse)
				L.Push(lua.LString("goerr:" + firstLine(err.Error())))
				return 2
			}
			v := L.Get(-1)
			L.SetTop(0)
			L.Push(lua.LTrue)
			L.Push(v)
			return 2
		}))
	})
	return w
}

func firstLine(s string) string {
	if i := strings.IndexByte(s, '\n'); i >= 0 {
		return s[:i]
	}
	return s
}

type c05Run struct {
	out   glrun.Outcome
	notes []string
	depth map[int]int
}

// run executes src with an optional instruction-boundary fault at step k (0: none) and an optional
// host-call fault.
func (w *c05Worker) run(src string, k int64, tickArm int, tickKind string) c05Run {
	w.ticks = 0
	w.tickArm = tickArm
	w.tickKind = tickKind
	w.depths = map[int]int{}
	fired := false
	if k > 0 {
		w.impl.B.Fault = func(L *lua.LState, n int64) {
			if n == k && !fired {
				fired = true
				L.RaiseError("injected fault")
			}
		}
	} else {
		w.impl.B.Fault = nil
	}
	o := w.impl.Run(src, 2_000_000)
	w.impl.B.Fault = nil
	r := c05Run{out: o, notes: append([]string(nil), w.impl.Notes...), depth: w.depths}
	w.tickArm = 0
	return r
}

func runC05(r *harness.Run) {
	th := r.Thorough()
	progs := c05Programs(th)
	r.Rule = fmt.Sprintf("%d base programs, each under the default options and again with Options.IncludeGoStackTrace (host-call faults and every third instruction boundary) (protected region kind pcall/xpcall/Go PCall/protected CallByParam/coroutine.resume/wrap-in-pcall, nested up to 3 deep, inside caller loops, and entered from metamethods, sort comparators, gsub callbacks, iterators and host callbacks) x 12 body kinds; each is run fault-free under the step hook, then once per instruction boundary k with RaiseError injected at k (every k of the fault-free run), and once per host-function call with a Go panic / nil dereference / RaiseError / error(table) raised inside the host function. "+
		"Oracle per run: no Go panic escapes; the innermost active region reports failure exactly once; the trace is prefix(fault-free) ++ [handler once, for xpcall] ++ failure ++ fault-free continuation; white-box snapshot (call depth, registry top, error-handler flag, open upvalues) after the region equals the one before; the xpcall handler saw a deeper call stack; a canary program afterwards behaves as on a fresh state. "+
		"non-trivial = distinct (program, fault point) with a non-empty trace. error(v) with values of every type is compared with the reference interpreter (family F-errval)", len(progs))
	r.Assumptions = []string{"RaiseError at an instruction boundary is a fault gopher-lua itself produces there (context cancellation does exactly this)", "the step hook perturbs nothing: the hooked fault-free run is compared with an unhooked run of the same program"}
	nw := harness.Workers()
	var totalPoints int64
	// every base program twice: under the default options and with Options.IncludeGoStackTrace, which
	// changes what the recover handler of PCall does with a Go panic (second pass: host-call faults,
	// the only ones that reach that code, and every third instruction boundary)
	harness.ParallelShards(2*len(progs), func(wi, pi int) {
		if r.Expired() {
			r.NotExhaustive("deadline reached; some base programs not enumerated")
			return
		}
		gostack := pi >= len(progs)
		p := progs[pi%len(progs)]
		opts := lua.Options{}
		if gostack {
			opts.IncludeGoStackTrace = true
			p.name += "+gostacktrace"
		}
		w := newC05Worker(opts)
		defer w.impl.Close()
		// region kinds by id from the program name is not enough for nested programs: parse from text
		kinds := map[int]string{}
		for id := 1; id <= 3; id++ {
			switch {
			case strings.Contains(p.src, fmt.Sprintf("ok%[1]d, v%[1]d = xpcall(", id)) && strings.Contains(p.src, fmt.Sprintf(`hdepth(%d) local hbad`, id)):
				kinds[id] = "xpcall-herr"
			case strings.Contains(p.src, fmt.Sprintf("ok%[1]d, v%[1]d = xpcall(", id)):
				kinds[id] = "xpcall"
			case strings.Contains(p.src, fmt.Sprintf("ok%[1]d, v%[1]d = coroutine.resume(", id)):
				kinds[id] = "resume"
			default:
				kinds[id] = "other"
			}
		}
		viol := func(class, what string, k int64, tick int, tk string) {
			r.Violation("faultenum/"+p.name+"/"+class, fmt.Sprintf("%s\nfault: instruction boundary %d, host-call #%d kind %q\nprogram:\n%s", what, k, tick, tk, p.src),
				map[string]interface{}{"program_name": p.name, "program": p.src, "fault_instruction": k, "fault_tick": tick, "tick_kind": tk})
		}
		base := w.run(p.src, 0, 0, "")
		if base.out.Failed {
			viol("base-failed", "the fault-free run failed: "+base.out.ErrText, 0, 0, "")
			return
		}
		// hook neutrality: same program on a state without budget/hook counting differences
		canaryBase := w.run(c05Canary, 0, 0, "")
		nsteps := base.out.Steps
		nticks := 0
		for _, e := range base.out.Events {
			if e.Kind == "tick" {
				nticks++
			}
		}
		// evalCand judges one admissible expectation; it returns "" or (class, message)
		evalCand := func(fr c05Run, c c05Cand, tk string, marker string) (string, string) {
			region := c.region
			if c.chunkFails {
				if !fr.out.Failed {
					return "fault-outside-region-ignored", "fault outside every protected region did not fail the chunk"
				}
				if d := c05Match(c.want, fr.out.Events); d != "" {
					return "prefix", "trace of the failed chunk is not the fault-free prefix: " + d
				}
				return "", ""
			}
			if fr.out.Failed {
				return "not-contained", fmt.Sprintf("the error was not contained by region %d: chunk failed with %s: %s", region, fr.out.ErrKind, firstLine(fr.out.ErrText))
			}
			if d := c05Match(c.want, fr.out.Events); d != "" {
				return "trace", fmt.Sprintf("fault inside region %d: %s", region, d)
			}
			for _, e := range fr.out.Events {
				if id, ok := evIs(e, "exit"); ok && id == region && len(e.Args) >= 4 && e.Args[2] == "false" {
					v := e.Args[3]
					switch {
					case kinds[region] == "xpcall-herr":
						// an error in the error handler: the value is not fixed by the property
					case kinds[region] == "xpcall":
						if v != fmt.Sprintf("s:handled%d", region) {
							return "xpcall-result", fmt.Sprintf("xpcall returned %s instead of its handler's result", v)
						}
					case tk == "errtable":
						if !strings.HasPrefix(v, "T") && !strings.HasPrefix(v, "s:goerr:") {
							return "error-value", fmt.Sprintf("error(table) delivered as %s", v)
						}
					default:
						if !strings.Contains(v, marker) {
							return "error-value", fmt.Sprintf("region %d received %s, which does not carry the raised value (%q)", region, v, marker)
						}
					}
					break
				}
			}
			before := map[string]string{}
			for _, n := range fr.notes {
				if strings.Contains(n, "DANGLING") {
					if strings.Contains(n, "DANGLING-STACK") {
						return "stack-not-restored", n
					}
					return "dangling-upvalue", "open upvalue above the live frames after recovery: " + n
				}
				f := strings.SplitN(n, " ", 2)
				if len(f) != 2 {
					continue
				}
				tag := f[0]
				if strings.HasPrefix(tag, "b") {
					before[tag[1:]] = f[1]
				} else if strings.HasPrefix(tag, "a") {
					if bf, ok := before[tag[1:]]; ok && bf != f[1] {
						return "state-not-restored", fmt.Sprintf("white-box state after region %s differs from before: before {%s} after {%s}", tag[1:], bf, f[1])
					}
				}
			}
			if kinds[region] == "xpcall" || kinds[region] == "xpcall-herr" {
				var entrySp int
				for _, n := range fr.notes {
					if strings.HasPrefix(n, fmt.Sprintf("b%d ", region)) {
						fmt.Sscanf(n[strings.Index(n, "sp=")+3:], "%d", &entrySp)
					}
				}
				if d, ok := fr.depth[region]; !ok || d <= entrySp {
					return "handler-after-unwind", fmt.Sprintf("xpcall handler of region %d saw call depth %d, the xpcall caller's depth is %d", region, d, entrySp)
				}
			}
			return "", ""
		}
		check := func(fr c05Run, b c05Run, cut int, k int64, tick int, tk string, marker string) bool {
			cands, unusable := c05Expected(b.out.Events, cut, kinds)
			if unusable {
				return true
			}
			if fr.out.ErrKind == "panic" && !strings.Contains(fr.out.ErrText, "injected") && !strings.Contains(fr.out.ErrText, "nil pointer") {
				viol("go-panic-escaped", "a Go panic escaped the protected call: "+fr.out.ErrText, k, tick, tk)
				return false
			}
			if fr.out.ErrKind == "panic" && strings.Contains(fr.out.ErrText, "escaped Load/PCall") {
				viol("go-panic-escaped", "a Go panic escaped the protected call: "+fr.out.ErrText, k, tick, tk)
				return false
			}
			firstClass, firstMsg := "", ""
			for i, c := range cands {
				class, msg := evalCand(fr, c, tk, marker)
				if class == "" {
					return true
				}
				if i == 0 {
					firstClass, firstMsg = class, msg
				}
			}
			viol(firstClass, firstMsg, k, tick, tk)
			return false
		}
		canary := func(k int64, tick int, tk string) bool {
			c := w.run(c05Canary, 0, 0, "")
			if c.out.Failed != canaryBase.out.Failed || fmt.Sprint(c.out.Events) != fmt.Sprint(stripAt(canaryBase.out.Events, c.out.Events)) || fmt.Sprint(c.out.Results) != fmt.Sprint(canaryBase.out.Results) {
				viol("later-behaviour", fmt.Sprintf("a canary program run afterwards on the same state differs from its run on a fresh state: %v %v vs %v %v", c.out.Events, c.out.Results, canaryBase.out.Events, canaryBase.out.Results), k, tick, tk)
				w.impl.Fresh()
				return false
			}
			return true
		}
		cutAt := func(evs []c05Ev, k int64) int {
			n := 0
			for _, e := range evs {
				if e.At < k {
					n++
				}
			}
			return n
		}
		points := int64(0)
		// (a) instruction-boundary faults
		for k := int64(1); k <= nsteps; k++ {
			if gostack && k%3 != 1 {
				continue
			}
			fr := w.run(p.src, k, 0, "")
			points++
			ok := check(fr, base, cutAt(base.out.Events, k), k, 0, "", "injected fault")
			if ok {
				ok = canary(k, 0, "")
			}
			r.Eval(fmt.Sprintf("%s@%d", p.name, k), len(fr.out.Events) > 0, func() interface{} {
				return map[string]interface{}{"program": p.name, "fault_at_instruction": k, "of": nsteps, "source": p.src}
			})
			if !ok {
				w.impl.Fresh()
				if r.ViolationCount() > 200 {
					return
				}
				continue
			}
			// (e) thorough: second fault after the first one, in the handler or the continuation
			if th && k%3 == 1 {
				n2 := fr.out.Steps
				for k2 := k + 1; k2 <= n2; k2 += 2 {
					first := true
					fired2 := false
					w.impl.B.Fault = nil
					w.ticks, w.tickArm = 0, 0
					w.depths = map[int]int{}
					kk := k
					w.impl.B.Fault = func(L *lua.LState, n int64) {
						if n == kk && first {
							first = false
							L.RaiseError("injected fault")
						}
						if n == k2 && !fired2 {
							fired2 = true
							L.RaiseError("injected fault")
						}
					}
					o2 := w.impl.Run(p.src, 2_000_000)
					w.impl.B.Fault = nil
					fr2 := c05Run{out: o2, notes: append([]string(nil), w.impl.Notes...), depth: w.depths}
					points++
					// two-fault oracle: containment and state restoration only (a fault inside a
					// handler is an error in error handling, whose value the property does not fix)
					bad := ""
					if fr2.out.ErrKind == "panic" {
						bad = "a Go panic escaped: " + fr2.out.ErrText
					}
					for _, n := range fr2.notes {
						if strings.Contains(n, "DANGLING") {
							bad = "open upvalue above the live frames: " + n
						}
					}
					r.EvalN(1)
					if bad != "" {
						viol("two-faults", fmt.Sprintf("%s (second fault at %d)", bad, k2), k, 0, "")
						w.impl.Fresh()
						break
					}
					if !canary(k, int(k2), "second-fault") {
						break
					}
				}
			}
		}
		// (c) faults raised inside a host function on its j-th call
		for _, tk := range []string{"goerr", "gonil", "raise", "errtable"} {
			for j := 1; j <= nticks; j++ {
				fr := w.run(p.src, 0, j, tk)
				points++
				// cut: events before the j-th tick, plus the tick event itself (recorded before failing)
				cut, seen := 0, 0
				for i, e := range base.out.Events {
					if e.Kind == "tick" {
						seen++
						if seen == j {
							cut = i + 1
							break
						}
					}
				}
				marker := map[string]string{"goerr": "injected go panic", "gonil": "nil pointer", "raise": "injected fault (host)", "errtable": "T"}[tk]
				ok := check(fr, base, cut, 0, j, tk, marker)
				if ok {
					ok = canary(0, j, tk)
				}
				r.Eval(fmt.Sprintf("%s@tick%d/%s", p.name, j, tk), true, func() interface{} {
					return map[string]interface{}{"program": p.name, "fault_in_host_call": j, "kind": tk}
				})
				if !ok {
					w.impl.Fresh()
				}
			}
		}
		r.Count("fault_points", points)
		r.Count("base_programs", 1)
		_ = totalPoints
	})
	_ = nw
	// F-errval: error values of every type through the reference interpreter
	// ... and errors raised while a coroutine's value stack is exhausted, errors below call
	// boundaries inside coroutines, and Go functions as coroutine bodies (incl. error itself)
	pr := c03Runner(r)
	pr.prop = "C05"
	pr.runGens(map[string]Gen{"F-errval": genErrVal(th), "F-cooverflow": genCoOverflow(), "F-yieldacross": genYieldAcross(), "F-hostbody": genHostBody(), "F-closure": genClosure(false)}, []string{"F-errval", "F-cooverflow", "F-yieldacross", "F-hostbody", "F-closure"})
	c05GoResume(r)
	runPinned(r, "C05")
	reentrantFamily(r, "C05")
	overflowHistory(r)
	overflowHandlerWork(r)
}

// c05GoResume — the Go-side Resume as a protected entry point: a coroutine that fails (error value
// of several types, fault, stack exhaustion) under LState.Resume reports (ResumeError, err) and
// leaves the resumer's value stack exactly as it was, inside a host function as well as at top level.
func c05GoResume(r *harness.Run) {
	bodies := []struct{ name, src string }{
		{"error-string", `return function() error("boom") end`},
		{"error-table", `return function() error({code = 7}) end`},
		{"error-nil", `return function() error() end`},
		{"fault", `return function() local x = nil + 1 end`},
		{"after-yield", `return function() coroutine.yield(1) error("later") end`},
		{"registry-overflow", `local big = {} for i = 1, 10000 do big[i] = i end return function() return select("#", unpack(big)) end`},
		{"stack-overflow", `local function r() return 1 + r() end return r`},
		{"ok", `return function(a) coroutine.yield(a) return "done" end`},
	}
	for _, b := range bodies {
		for _, where := range []string{"top-level", "in-host-function"} {
			L := lua.NewState()
			if err := L.DoString(b.src); err != nil {
				harness.Fatal("c05GoResume: %v", err)
			}
			fn := L.Get(-1).(*lua.LFunction)
			L.SetTop(0)
			var problems []string
			drive := func(L *lua.LState) {
				co, _ := L.NewThread()
				L.Push(lua.LString("sentinel-1"))
				L.Push(lua.LNumber(2))
				for i := 0; i < 3; i++ {
					before := L.GetTop()
					st, err, vals := L.Resume(co, fn, lua.LNumber(5))
					if after := L.GetTop(); after != before {
						problems = append(problems, fmt.Sprintf("resume #%d (state %v, err %v, %d values): the resumer's stack height went from %d to %d", i+1, st, err != nil, len(vals), before, after))
						L.SetTop(before)
					}
					if L.Get(-2) != lua.LString("sentinel-1") || L.Get(-1) != lua.LNumber(2) {
						problems = append(problems, fmt.Sprintf("resume #%d: the values below the call were disturbed", i+1))
					}
					if st == lua.ResumeError && err == nil {
						problems = append(problems, "ResumeError without an error")
					}
					if st != lua.ResumeYield {
						break
					}
				}
				L.Pop(2)
			}
			func() {
				defer func() {
					if rec := recover(); rec != nil {
						problems = append(problems, fmt.Sprintf("Go panic escaped LState.Resume: %v", rec))
					}
				}()
				if where == "top-level" {
					drive(L)
				} else {
					L.Push(L.NewFunction(func(L *lua.LState) int { drive(L); return 0 }))
					if err := L.PCall(0, 0, nil); err != nil {
						problems = append(problems, "host function failed: "+err.Error())
					}
				}
			}()
			sig := "goresume/" + b.name + "/" + where
			r.Eval(sig, true, func() interface{} {
				return map[string]interface{}{"case": "Go-side Resume", "body": b.name, "where": where}
			})
			if len(problems) > 0 {
				r.Violation(sig, strings.Join(problems, "; "), map[string]interface{}{"body": b.src, "where": where})
			}
			L.Close()
		}
	}
}

func stripAt(base, like []c05Ev) []c05Ev {
	// Events carry instruction counts that legitimately differ between runs: copy them over
	out := make([]c05Ev, len(base))
	copy(out, base)
	for i := range out {
		if i < len(like) {
			out[i].At = like[i].At
		}
	}
	return out
}

// ---- F-errval -------------------------------------------------------------------------------------------

func genErrVal(thorough bool) Gen {
	return func(yield func(*Prog)) {
		vals := []struct {
			name string
			mk   func() []Expr
		}{
			{"string", func() []Expr { return []Expr{Str("msg")} }},
			{"string-percent", func() []Expr { return []Expr{Str("100%d of %s, 50%")} }},
			{"string-percent-l0", func() []Expr { return []Expr{Str("%d%%"), Num(0)} }},
			{"string-percent-l2", func() []Expr { return []Expr{Str("rate %5.2f%"), Num(2)} }},
			{"string-l0", func() []Expr { return []Expr{Str("msg"), Num(0)} }},
			{"string-l1", func() []Expr { return []Expr{Str("msg"), Num(1)} }},
			{"string-l2", func() []Expr { return []Expr{Str("msg"), Num(2)} }},
			{"number-l0", func() []Expr { return []Expr{Num(42), Num(0)} }},
			{"table", func() []Expr { return []Expr{Name("etab")} }},
			{"table-l2", func() []Expr { return []Expr{Name("etab"), Num(2)} }},
			{"false", func() []Expr { return []Expr{False()} }},
			{"nil", func() []Expr { return []Expr{Nil()} }},
			{"no-argument", func() []Expr { return nil }},
			{"nil-l2", func() []Expr { return []Expr{Nil(), Num(2)} }},
			{"true", func() []Expr { return []Expr{True()} }},
			{"function", func() []Expr { return []Expr{Name("efn")} }},
			{"userdata", func() []Expr { return []Expr{Name("eud")} }},
			{"thread", func() []Expr { return []Expr{Name("eco")} }},
		}
		sites := []struct {
			name string
			mk   func(raise Stat) []Stat // defines function body() that raises
		}{
			{"direct", func(raise Stat) []Stat {
				return []Stat{LocalFunc("body", Func(nil, false, Emit(Str("in")), raise, Emit(Str("not-reached"))))}
			}},
			{"nested", func(raise Stat) []Stat {
				return []Stat{LocalFunc("thrower", Func(nil, false, raise)), LocalFunc("body", Func(nil, false, Local1("x", Num(1)), CallS(Name("thrower")), Emit(Str("not-reached"))))}
			}},
			{"metamethod", func(raise Stat) []Stat {
				return []Stat{Local1("mo", CallN("setmetatable", TableE(), TableE(NamedField("__index", Func(names("t", "k"), false, raise))))), LocalFunc("body", Func(nil, false, Return(Dot(Name("mo"), "zz"))))}
			}},
			{"hostcb", func(raise Stat) []Stat {
				return []Stat{LocalFunc("thrower", Func(nil, false, raise)), LocalFunc("body", Func(nil, false, Return(CallN("hcall", Name("thrower")))))}
			}},
			{"iterator", func(raise Stat) []Stat {
				return []Stat{LocalFunc("body", Func(nil, false, GenFor(names("x"), []Expr{Func(nil, false, raise), Nil(), Nil()}, Emit(Name("x")))))}
			}},
		}
		catchers := []struct {
			name string
			mk   func() []Stat
		}{
			{"pcall", func() []Stat { return []Stat{Emit(Str("caught"), CallN("pcall", Name("body")))} }},
			{"xpcall-id", func() []Stat {
				return []Stat{Emit(Str("caught"), CallN("xpcall", Name("body"), Func(names("e"), false, Emit(Str("h"), Name("e")), Return(Name("e"), Str("extra")))))}
			}},
			{"xpcall-replace", func() []Stat {
				return []Stat{Emit(Str("caught"), CallN("xpcall", Name("body"), Func(names("e"), false, Return(Str("replaced")))))}
			}},
			{"resume", func() []Stat {
				return []Stat{Local1("co", CallN("coroutine.create", Name("body"))), Emit(Str("caught"), CallN("coroutine.resume", Name("co"))), Emit(CallN("coroutine.status", Name("co")))}
			}},
			{"wrap", func() []Stat {
				return []Stat{Local1("wf", CallN("coroutine.wrap", Name("body"))), Emit(Str("caught"), CallN("pcall", Name("wf")))}
			}},
			{"nested-pcall", func() []Stat {
				return []Stat{Emit(Str("caught"), CallN("pcall", Func(nil, false, Local(names("ok", "e"), CallN("pcall", Name("body"))), Emit(Str("inner"), Name("ok"), Name("e")), CallS(Name("error"), Name("e"), Num(0)))))}
			}},
			{"uncaught", func() []Stat { return []Stat{CallS(Name("body")), Emit(Str("not-reached"))} }},
		}
		for _, v := range vals {
			for _, s := range sites {
				for _, c := range catchers {
					v, s, c := v, s, c
					yield(&Prog{Family: "F-errval", Shape: v.name + "/" + s.name + "/" + c.name, Mk: func() *Block {
						st := []Stat{Local1("etab", TableE(NamedField("code", Num(7)))), Local1("efn", Func(nil, false, Return(Num(1)))), Local1("eud", CallN("newud", Num(1))), Local1("eco", CallN("coroutine.create", Func(nil, false))),
							Emit(Str("ids"), Name("etab"), Name("efn"), Name("eud"), Name("eco"))}
						st = append(st, s.mk(CallS(Name("error"), v.mk()...))...)
						st = append(st, c.mk()...)
						st = append(st, Emit(Str("after"), Num(1)))
						fixCoroutineNames(st)
						return Blk(st...)
					}})
				}
			}
		}
	}
}
