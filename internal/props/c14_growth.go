package props

// C14 growth families: a handful of (pattern, subject) shapes that grow backtracking work, nesting
// depth or recursion depth. They run in a child process (the same binary, VERIF_C14_CHILD set) so
// that a hang can be killed and a fatal Go error (stack exhaustion) is attributed to its case.
// A timeout is only reported after the single case timed out again, alone, with a 20x larger limit.

import (
	"bufio"
	"crypto/sha1"
	"encoding/hex"
	"encoding/json"
	"fmt"
	"os"
	"os/exec"
	"strconv"
	"strings"
	"time"

	lua "github.com/yuin/gopher-lua"

	"verif/internal/harness"
	"verif/internal/refs/lstrlib"
)

type c14Growth struct {
	Family  string `json:"family"`
	API     string `json:"call"` // find | match | gmatch | gsub
	Pattern string `json:"pattern"`
	SubSpec string `json:"subject_spec"` // "a*1000+b*1": concatenation of repeated pieces
	Repl    string `json:"repl,omitempty"`
	// overCap: the subject is longer than gopher-lua's recursion cap allows for this pattern; a Lua
	// error is then an acceptable outcome (the property only demands that it is not a crash)
	OverCap  bool `json:"over_recursion_cap,omitempty"`
	Thorough bool `json:"thorough_only,omitempty"`
}

func c14ExpandSpec(spec string) string {
	var sb strings.Builder
	if spec == "" {
		return ""
	}
	for _, part := range strings.Split(spec, "+") {
		i := strings.LastIndex(part, "*")
		n, _ := strconv.Atoi(part[i+1:])
		sb.WriteString(strings.Repeat(part[:i], n))
	}
	return sb.String()
}

func c14GrowthCases() []c14Growth {
	var cs []c14Growth
	add := func(c c14Growth) { cs = append(cs, c) }
	// polynomial backtracking: a*a*...b on a^n (no b)
	for _, k := range []int{2, 3, 4} {
		for _, n := range []int{8, 16, 24} {
			add(c14Growth{Family: "stars-then-miss", API: "find", Pattern: strings.Repeat("a*", k) + "b", SubSpec: fmt.Sprintf("a*%d", n)})
			add(c14Growth{Family: "lazies-then-miss", API: "find", Pattern: strings.Repeat(".-", k) + "b", SubSpec: fmt.Sprintf("a*%d", n)})
			add(c14Growth{Family: "opts-then-miss", API: "match", Pattern: strings.Repeat("a?", k*3) + strings.Repeat("a", k*3) + "b", SubSpec: fmt.Sprintf("a*%d", n)})
		}
	}
	// capture nesting and count up to LUA_MAXCAPTURES
	for _, d := range []int{1, 4, 16, 32} {
		add(c14Growth{Family: "nested-captures", API: "match", Pattern: strings.Repeat("(", d) + "a" + strings.Repeat(")", d), SubSpec: "b*3+a*1"})
		add(c14Growth{Family: "position-captures", API: "find", Pattern: strings.Repeat("()", d), SubSpec: "a*2"})
		add(c14Growth{Family: "sibling-captures", API: "gsub", Pattern: strings.Repeat("(a)", d), SubSpec: fmt.Sprintf("a*%d", 2*d+1), Repl: "fn:num"})
	}
	add(c14Growth{Family: "backref-growth", API: "find", Pattern: "(a*)%1$", SubSpec: "a*301"})
	add(c14Growth{Family: "backref-growth", API: "find", Pattern: "(a*)%1b", SubSpec: "a*300+b*1"})
	add(c14Growth{Family: "backref-growth", API: "match", Pattern: "^(a-)(a-)%2%1$", SubSpec: "a*40"})
	// %b on long subjects
	add(c14Growth{Family: "balance-long", API: "find", Pattern: "%b()", SubSpec: "(*50000+)*50000"})
	add(c14Growth{Family: "balance-long", API: "find", Pattern: "%b()$", SubSpec: "a*10+(*50000+x*3+)*50000"})
	add(c14Growth{Family: "balance-unbalanced", API: "find", Pattern: "%b()", SubSpec: "(*2000"})
	add(c14Growth{Family: "balance-unbalanced", API: "gsub", Pattern: "%b()", SubSpec: "(*1000+)*400", Repl: "s:x"})
	// long subjects, linear work, deep recursion in a recursive matcher
	for _, n := range []int{1000, 100000} {
		sn := strconv.Itoa(n)
		add(c14Growth{Family: "long-greedy", API: "find", Pattern: "a*", SubSpec: "a*" + sn})
		add(c14Growth{Family: "long-greedy", API: "find", Pattern: "^(a+)(b?)$", SubSpec: "a*" + sn + "+b*1"})
		add(c14Growth{Family: "long-greedy", API: "find", Pattern: "^[ab]+c", SubSpec: "a*" + sn + "+b*7"})
		add(c14Growth{Family: "long-lazy", API: "find", Pattern: "a-b", SubSpec: "a*" + sn + "+b*1"})
		add(c14Growth{Family: "long-lazy", API: "match", Pattern: "^(.-)()$", SubSpec: "a*" + sn})
		add(c14Growth{Family: "long-opt", API: "find", Pattern: "b?$", SubSpec: "a*" + sn})
		add(c14Growth{Family: "long-gmatch", API: "gmatch", Pattern: "a", SubSpec: "a*" + strconv.Itoa(n/10) + "+b*3"})
		add(c14Growth{Family: "long-gsub", API: "gsub", Pattern: "a", SubSpec: "a*" + strconv.Itoa(n/10) + "+b*3", Repl: "s:%0%0"})
		add(c14Growth{Family: "long-gsub-empty", API: "gsub", Pattern: "b*", SubSpec: "a*" + strconv.Itoa(n/10), Repl: "s:-"})
	}
	// past gopher-lua's recursion cap (maxRecursionLevel = 1e6): an error is fine, a crash is not
	add(c14Growth{Family: "over-recursion-cap", API: "find", Pattern: "a*", SubSpec: "a*1200000", OverCap: true, Thorough: true})
	add(c14Growth{Family: "over-recursion-cap", API: "find", Pattern: "^.+$", SubSpec: "ab*700000", OverCap: true, Thorough: true})
	return cs
}

func c14Compress(s string) string {
	if len(s) <= 160 {
		return s
	}
	h := sha1.Sum([]byte(s))
	return fmt.Sprintf("sha1:%s:len=%d:head=%s", hex.EncodeToString(h[:8]), len(s), s[:40])
}

// c14GrowthImpl runs one growth case on gopher-lua.
func c14GrowthImpl(w *c14Worker, g *c14Growth) c14Got {
	s := lua.LString(c14ExpandSpec(g.SubSpec))
	p := lua.LString(g.Pattern)
	var got c14Got
	switch g.API {
	case "find":
		got = w.call(w.fFind2, s, p)
	case "match":
		got = w.call(w.fMatch2, s, p)
	case "gmatch":
		got = w.call(w.fGmatchFor, s, p)
	case "gsub":
		rp, _ := c14ParseRepl(g.Repl)
		got = w.call(w.fGsub3, s, p, w.replValue(&rp))
	}
	if got.err == nil && got.out == "" && g.API == "match" {
		got.out = "z|"
	}
	got.out = c14Compress(got.out)
	return got
}

func c14GrowthRef(g *c14Growth) (string, *lstrlib.Error) {
	s := c14ExpandSpec(g.SubSpec)
	switch g.API {
	case "find", "match":
		rv, err := lstrlib.Find(s, g.Pattern, 1, false, g.API == "find")
		return c14Compress(c14RenderRVs(rv)), err
	case "gmatch":
		out, _, err := lstrlib.Gmatch(s, g.Pattern, -1)
		var b []byte
		for _, vs := range out {
			for _, v := range vs {
				b = c14AppendRV(b, v)
			}
			b = append(b, '/')
		}
		return c14Compress(string(b)), err
	}
	rp, _ := c14ParseRepl(g.Repl)
	res, n, _, err := lstrlib.Gsub(s, g.Pattern, c14RefRepl(&rp), 0, false)
	return c14Compress(string(c14AppendNum(c14AppendStr(nil, res), float64(n)))), err
}

type c14ChildLine struct {
	Idx      int    `json:"i"`
	Out      string `json:"out"`
	Err      string `json:"err,omitempty"`
	Panicked bool   `json:"panicked,omitempty"`
}

// c14GrowthChild is the body of the child process: VERIF_C14_CHILD = "<from>" or "<from>:only".
func c14GrowthChild() {
	spec := os.Getenv("VERIF_C14_CHILD")
	only := strings.HasSuffix(spec, ":only")
	from, _ := strconv.Atoi(strings.TrimSuffix(spec, ":only"))
	thorough := os.Getenv("VERIF_C14_CHILD_TIER") == "thorough"
	cases := c14GrowthCases()
	w := newC14Worker()
	out := bufio.NewWriter(os.Stdout)
	for i := from; i < len(cases); i++ {
		g := &cases[i]
		if g.Thorough && !thorough {
			continue
		}
		fmt.Fprintf(out, "BEGIN %d\n", i)
		out.Flush()
		got := c14GrowthImpl(w, g)
		line := c14ChildLine{Idx: i, Out: got.out, Panicked: got.panicked}
		if got.err != nil {
			line.Err = got.err.Error()
			if len(line.Err) > 300 {
				line.Err = line.Err[:300]
			}
		}
		b, _ := json.Marshal(line)
		fmt.Fprintf(out, "RESULT %s\n", b)
		out.Flush()
		if only {
			break
		}
	}
	fmt.Fprintln(out, "END")
	out.Flush()
	os.Exit(0)
}

type c14ChildRun struct {
	cmd   *exec.Cmd
	lines chan string
	errb  *strings.Builder
}

func c14StartChild(spec string, thorough bool) (*c14ChildRun, error) {
	cmd := exec.Command(os.Args[0], "C14", "quick")
	tier := "quick"
	if thorough {
		tier = "thorough"
	}
	cmd.Env = append(os.Environ(), "VERIF_C14_CHILD="+spec, "VERIF_C14_CHILD_TIER="+tier)
	stdout, err := cmd.StdoutPipe()
	if err != nil {
		return nil, err
	}
	errb := &strings.Builder{}
	cmd.Stderr = &c14TailWriter{sb: errb}
	if err := cmd.Start(); err != nil {
		return nil, err
	}
	ch := make(chan string, 16)
	go func() {
		sc := bufio.NewScanner(stdout)
		sc.Buffer(make([]byte, 1<<20), 1<<20)
		for sc.Scan() {
			ch <- sc.Text()
		}
		close(ch)
	}()
	return &c14ChildRun{cmd: cmd, lines: ch, errb: errb}, nil
}

type c14TailWriter struct{ sb *strings.Builder }

func (t *c14TailWriter) Write(p []byte) (int, error) {
	if t.sb.Len() < 2000 {
		if len(p) > 2000 {
			t.sb.Write(p[:2000])
		} else {
			t.sb.Write(p)
		}
	}
	return len(p), nil
}

func (cr *c14ChildRun) kill() {
	cr.cmd.Process.Kill()
	go func() {
		for range cr.lines {
		}
	}()
	cr.cmd.Wait()
}

// next waits for the next protocol line. ok=false: the child ended; timedOut: no line in time.
func (cr *c14ChildRun) next(limit time.Duration) (line string, ok, timedOut bool) {
	select {
	case l, open := <-cr.lines:
		return l, open, false
	case <-time.After(limit):
		return "", false, true
	}
}

const c14GrowthLimit = 10 * time.Second

// growth runs every growth case in a child process and judges the outcomes.
func (c *c14Ctx) growth(_ *c14Worker) {
	cases := c14GrowthCases()
	thorough := c.r.Thorough()
	var ran int64
	judgeOne := func(i int, line c14ChildLine) {
		g := &cases[i]
		refOut, refErr := c14GrowthRef(g)
		in := lstrlib.Classify(g.Pattern, g.API != "gmatch")
		got := c14Got{out: line.Out, panicked: line.Panicked}
		if line.Err != "" {
			got.err = fmt.Errorf("%s", line.Err)
		}
		if g.OverCap && got.err != nil && !got.panicked {
			return // a Lua error past the recursion cap is a contained failure
		}
		c.judgeGrowth(g, &in, refOut, refErr, got)
	}
	report := func(kind string, i int, detail string) {
		g := &cases[i]
		c.report(kind+"/growth/"+g.Family+"/"+g.API, fmt.Sprintf("%s: family %s, %s(%q, pattern %q): %s", kind, g.Family, g.API, g.SubSpec, g.Pattern, detail),
			c14Case{API: "growth", Pattern: g.Pattern, Subject: g.SubSpec, Repl: g.Repl, Ref: g.Family + "|" + g.API})
	}
	from := 0
	for from < len(cases) {
		cr, err := c14StartChild(strconv.Itoa(from), thorough)
		if err != nil {
			harness.Fatal("c14: cannot start the growth child: %v", err)
		}
		current := -1
		restart := false
		for !restart {
			line, ok, timedOut := cr.next(c14GrowthLimit)
			switch {
			case timedOut:
				cr.kill()
				if current < 0 {
					harness.Fatal("c14: growth child produced nothing within %v", c14GrowthLimit)
				}
				// confirm alone with a 20x larger limit
				solo, err := c14StartChild(strconv.Itoa(current)+":only", thorough)
				if err != nil {
					harness.Fatal("c14: cannot start the growth child: %v", err)
				}
				confirmed := true
				deadline := time.Now().Add(20 * c14GrowthLimit)
				for time.Now().Before(deadline) {
					l, ok, to := solo.next(time.Until(deadline))
					if to || !ok {
						break
					}
					if strings.HasPrefix(l, "RESULT ") {
						var cl c14ChildLine
						if json.Unmarshal([]byte(l[7:]), &cl) == nil {
							confirmed = false
							judgeOne(current, cl)
							ran++
						}
						break
					}
				}
				solo.kill()
				if confirmed {
					report("hang", current, fmt.Sprintf("no result within %v, and again none alone within %v", c14GrowthLimit, 20*c14GrowthLimit))
				}
				from = current + 1
				restart = true
			case !ok:
				cr.cmd.Wait()
				if current >= 0 {
					report("crash", current, "the process running this case died: "+strings.TrimSpace(firstLines(cr.errb.String(), 3)))
					from = current + 1
					restart = true
				} else {
					harness.Fatal("c14: growth child ended without END: %s", cr.errb.String())
				}
			case strings.HasPrefix(line, "BEGIN "):
				current, _ = strconv.Atoi(line[6:])
			case strings.HasPrefix(line, "RESULT "):
				var cl c14ChildLine
				if err := json.Unmarshal([]byte(line[7:]), &cl); err != nil {
					harness.Fatal("c14: bad child line %q", line)
				}
				judgeOne(cl.Idx, cl)
				ran++
				current = -1
			case line == "END":
				cr.cmd.Wait()
				from = len(cases)
				restart = true
			}
		}
	}
	c.r.EvalN(ran)
	c.r.Count("growth_cases", ran)
	for i := range cases {
		if !cases[i].Thorough || thorough {
			c.r.Nontrivial("growth:" + cases[i].Family + cases[i].Pattern + cases[i].SubSpec)
		}
	}
}

func firstLines(s string, n int) string {
	parts := strings.SplitN(s, "\n", n+1)
	if len(parts) > n {
		parts = parts[:n]
	}
	return strings.Join(parts, " | ")
}

func (c *c14Ctx) judgeGrowth(g *c14Growth, in *lstrlib.Info, refOut string, refErr *lstrlib.Error, got c14Got) {
	sigBase := "/growth/" + g.Family + "/" + g.API
	cs := c14Case{API: "growth", Pattern: g.Pattern, Subject: g.SubSpec, Repl: g.Repl, Ref: g.Family + "|" + g.API}
	what := func(why string) string {
		exp := refOut
		if refErr != nil {
			exp = "error: " + refErr.Msg
		}
		act := got.out
		if got.err != nil {
			act = "error: " + got.err.Error()
		}
		return fmt.Sprintf("%s: family %s, %s(%q, pattern %q)\n expected %s\n actual   %s", why, g.Family, g.API, g.SubSpec, g.Pattern, exp, act)
	}
	switch {
	case got.panicked:
		c.report("go-panic"+sigBase, what("Go run-time panic"), cs)
	case refErr != nil:
		if got.err == nil && in.Unspecified == "" {
			c.report("malformed-accepted"+sigBase, what("reference raises, implementation returned a result"), cs)
		}
	case got.err != nil:
		if in.Unspecified == "" {
			c.report("spurious-error"+sigBase, what("error on a well-formed pattern"), cs)
		}
	case in.Unspecified == "" && got.out != refOut:
		c.report("mismatch"+sigBase, what("result differs from the reference matcher"), cs)
	}
}

func c14ReplayGrowth(cs c14Case) (bool, string) {
	parts := strings.SplitN(cs.Ref, "|", 2)
	if len(parts) != 2 {
		return false, "bad growth replay object"
	}
	g := &c14Growth{Family: parts[0], API: parts[1], Pattern: cs.Pattern, SubSpec: cs.Subject, Repl: cs.Repl}
	w := newC14Worker()
	refOut, refErr := c14GrowthRef(g)
	resc := make(chan c14Got, 1)
	go func() { resc <- c14GrowthImpl(w, g) }()
	select {
	case got := <-resc:
		exp := refOut
		if refErr != nil {
			exp = "error: " + refErr.Msg
		}
		act := got.out
		if got.err != nil {
			act = "error: " + got.err.Error()
		}
		ok := !got.panicked && ((refErr != nil && got.err != nil) || (refErr == nil && got.err == nil && got.out == refOut))
		return ok, fmt.Sprintf("growth %s %s(%q, %q): expected %s, actual %s", g.Family, g.API, g.SubSpec, g.Pattern, exp, act)
	case <-time.After(20 * c14GrowthLimit):
		return false, fmt.Sprintf("growth %s %s(%q, %q): no result within %v", g.Family, g.API, g.SubSpec, g.Pattern, 20*c14GrowthLimit)
	}
}
