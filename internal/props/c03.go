package props

// C03 — closures keep their captured variables on every exit path; globals follow fenv.

import (
	"fmt"

	lua "github.com/yuin/gopher-lua"

	"verif/internal/glrun"
	"verif/internal/harness"
	. "verif/internal/luaref"
)

func init() { harness.Register("C03", "exploration", runC03) }

func c03Runner(r *harness.Run) *progRunner {
	pr := &progRunner{r: r, prop: "C03", opts: lua.Options{}}
	// ucheck(): white-box invariant on the implementation side — every open upvalue of the running
	// thread points below the registers of the host function's own frame, i.e. into a live frame.
	pr.setupM = func(in *Interp) { in.Host("ucheck", nil) }
	pr.extraI = func(m *glrun.Impl) {
		m.L.SetGlobal("ucheck", m.L.NewFunction(func(L *lua.LState) int {
			m.RecordEvent("ucheck", L)
			s := lua.VerifSnapshot(L)
			fr, ok := lua.VerifCurrentFrame(L)
			if ok {
				for _, idx := range s.OpenUpvalues {
					if idx >= fr.LocalBase {
						m.Notes = append(m.Notes, fmt.Sprintf("open upvalue at register %d, but the live Lua frames end below register %d", idx, fr.LocalBase))
					}
				}
			}
			return 0
		}))
	}
	pr.perProg = func(w *progWorker, p *Prog, src string, mo glrun.MOutcome, o glrun.Outcome) {
		if len(w.impl.Notes) > 0 {
			r.Violation(p.Family+"/"+p.Shape+"/dangling-open-upvalue", w.impl.Notes[0]+"\nprogram:\n"+src, map[string]interface{}{"program": src, "notes": w.impl.Notes})
		}
	}
	return pr
}

func runC03(r *harness.Run) {
	pr := c03Runner(r)
	th := r.Thorough()
	gens := map[string]Gen{"F-closure": genClosure(th), "F-env": genEnv(th), "F-nest": genNest(th)}
	r.Rule = "product of capture site (while/repeat/numeric for/generic for/do/function called in a loop/nested function) x captured variable kind x exit route (fall-through, break, goto out, goto continue, return, tail call, error/fault caught by pcall/xpcall, coroutine abandoned/dying/returning) x iteration of the exit x what runs afterwards (nothing, register-reusing call, re-entry) x use (read, write through one closure and read through another); " +
		"plus getfenv/setfenv programs over function/level targets; each program runs on gopher-lua and on the reference interpreter (variables are heap cells there, so closures are correct by construction); white-box: after protected calls no open upvalue may point above the live frames"
	r.Assumptions = []string{"luaref models variables as heap cells", "instruction-level fault injection for closures is part of C05's engine"}
	pr.runGens(gens, []string{"F-env", "F-closure", "F-nest"})
	// open upvalues live in the value stack: the closure families once more under a registry that is
	// reallocated while they run (starts at 128 slots, grows one slot at a time; the programs run
	// below 5 and 6 padding frames so that growth happens while upvalues are open)
	pg := c03Runner(r)
	pg.opts = lua.Options{RegistrySize: 128, RegistryMaxSize: 1 << 20, RegistryGrowStep: 1}
	pg.sigPrefix = "grow1-from128/"
	gg := map[string]Gen{}
	var order []string
	for _, d := range []int{5, 6} {
		pre := fmt.Sprintf("D%d/", d)
		gg[pre+"F-closure"] = mapGen(genClosure(false), pre, deepFrame(d))
		gg[pre+"F-growup"] = mapGen(genGrowUp(), pre, deepFrame(d))
		order = append(order, pre+"F-growup", pre+"F-closure")
	}
	pg.runGens(gg, order)
	runPinned(r, "C03")
}

// ---- F-closure ---------------------------------------------------------------------------------------

// Each program:
//
//	local fns = {}                       closures are collected here as (getter, setter) pairs
//	local function reuse(...)            a call with 6 arguments and 6 locals that reuses registers
//	local function site(...) <site> end  the capture site with an exit route inside
//	<driver: how site is called, depends on the exit route>
//	<afterwards>
//	<use>
func genClosure(thorough bool) Gen {
	return func(yield func(*Prog)) {
		push := func(e Expr) Stat {
			return Assign1(Index(Name("fns"), Bin("+", Un("#", Name("fns")), Num(1))), e)
		}
		// pair over variable names vs: getter returns all of them, setter sets the first
		pair := func(vs ...string) []Stat {
			var rs []Expr
			for _, v := range vs {
				rs = append(rs, Name(v))
			}
			return []Stat{
				push(Func(nil, false, Return(rs...))),
				push(Func(names("nv"), false, Assign1(Name(vs[0]), Name("nv")))),
			}
		}
		type exitRoute struct {
			name   string
			inLoop bool // needs an enclosing loop
			stat   func() []Stat
			driver string // "call" | "pcall" | "xpcall" | "co-abandon" | "co-error" | "co-return"
		}
		exits := []exitRoute{
			{"fall", false, func() []Stat { return nil }, "call"},
			{"break", true, func() []Stat { return []Stat{Do(Break())} }, "call"},
			{"goto-out", false, func() []Stat { return []Stat{Goto("out")} }, "call"},
			{"goto-cont", true, func() []Stat { return []Stat{Goto("cont")} }, "call"},
			{"return", false, func() []Stat { return []Stat{Do(Return(Str("r")))} }, "call"},
			{"tailcall", false, func() []Stat {
				return []Stat{Do(Return(CallN("reuse", Num(1), Num(2), Num(3), Num(4), Num(5), Num(6))))}
			}, "call"},
			{"error-pcall", false, func() []Stat { return []Stat{CallS(Name("error"), Str("boom"))} }, "pcall"},
			{"error-xpcall", false, func() []Stat { return []Stat{CallS(Name("error"), Str("boom"))} }, "xpcall"},
			{"errtable-pcall", false, func() []Stat { return []Stat{CallS(Name("error"), TableE(NamedField("code", Num(7))))} }, "pcall"},
			{"fault-pcall", false, func() []Stat { return []Stat{Local1("bad", Bin("+", Name("nilv"), Num(1)))} }, "pcall"},
			{"fault-xpcall", false, func() []Stat { return []Stat{Local1("bad", Bin("+", Name("nilv"), Num(1)))} }, "xpcall"},
			{"faultidx-xpcall", false, func() []Stat { return []Stat{Local1("bad", Dot(Name("nilv"), "f"))} }, "xpcall"},
			{"hosterr-pcall", false, func() []Stat { return []Stat{CallS(Name("setmetatable"), Num(1), Num(2))} }, "pcall"},
			{"error-xpcall-handler-fails", false, func() []Stat { return []Stat{CallS(Name("error"), Str("boom"))} }, "xpcall-herr"},
			{"fault-xpcall-handler-fails", false, func() []Stat { return []Stat{Local1("bad", Bin("+", Name("nilv"), Num(1)))} }, "xpcall-herr"},
			{"yield-abandon", false, func() []Stat { return []Stat{CallS(Dot(Name("coroutine"), "yield"), Str("y"))} }, "co-abandon"},
			{"yield-resume", false, func() []Stat { return []Stat{CallS(Dot(Name("coroutine"), "yield"), Str("y"))} }, "co-resume"},
			{"co-error", false, func() []Stat { return []Stat{CallS(Name("error"), Str("boom"))} }, "co-error"},
			{"co-return", false, func() []Stat { return []Stat{Do(Return(Str("r")))} }, "co-return"},
			// a fault raised by an instruction of the capturing function itself kills the coroutine
			{"co-fault", false, func() []Stat { return []Stat{Local1("bad", Bin("+", Name("nilv"), Num(1)))} }, "co-error"},
			{"co-faultidx", false, func() []Stat { return []Stat{Local1("bad", Dot(Name("nilv"), "f"))} }, "co-error"},
			{"wrap-fault", false, func() []Stat { return []Stat{Local1("bad", Bin("+", Name("nilv"), Num(1)))} }, "wrap-error"},
			{"wrap-error", false, func() []Stat { return []Stat{CallS(Name("error"), Str("boom"))} }, "wrap-error"},
		}
		type site struct {
			name   string
			isLoop bool
			// mk builds the site body; exitAt wraps the exit statements so they run at iteration `at`
			mk func(exit []Stat, at int) []Stat
		}
		cond := func(iterVar string, at int, exit []Stat) []Stat {
			if len(exit) == 0 {
				return nil
			}
			return []Stat{If(Bin("==", Name(iterVar), Num(float64(at))), exit...)}
		}
		sites := []site{
			{"while", true, func(exit []Stat, at int) []Stat {
				body := []Stat{Assign1(Name("i"), Bin("+", Name("i"), Num(1))), Local1("v", Bin("*", Name("i"), Num(10)))}
				body = append(body, pair("v")...)
				body = append(body, cond("i", at, exit)...)
				body = append(body, Label("cont"))
				return []Stat{Local1("i", Num(0)), While(Bin("<", Name("i"), Num(3)), body...), Label("out"), Emit(Str("after-loop"))}
			}},
			{"repeat", true, func(exit []Stat, at int) []Stat {
				body := []Stat{Assign1(Name("i"), Bin("+", Name("i"), Num(1))), Local1("v", Bin("*", Name("i"), Num(10))), Local1("done", Bin(">=", Name("i"), Num(3)))}
				body = append(body, pair("v", "done")...)
				body = append(body, cond("i", at, exit)...)
				body = append(body, Label("cont"))
				return []Stat{Local1("i", Num(0)), Repeat(Name("done"), body...), Label("out"), Emit(Str("after-loop"))}
			}},
			{"repeat-or-first", true, func(exit []Stat, at int) []Stat {
				// the loop ends because a non-last operand of the until-expression is true
				body := []Stat{Assign1(Name("i"), Bin("+", Name("i"), Num(1))), Local1("v", Bin("*", Name("i"), Num(10))), Local1("done", Bin(">=", Name("i"), Num(3)))}
				body = append(body, pair("v", "done")...)
				body = append(body, cond("i", at, exit)...)
				body = append(body, Label("cont"))
				return []Stat{Local1("i", Num(0)), Repeat(Bin("or", Name("done"), Bin(">=", Name("i"), Num(99))), body...), Label("out"), Local(names("o1", "o2", "o3"), Str("over1"), Str("over2"), Str("over3")), Emit(Str("after-loop"), Name("o1"))}
			}},
			{"repeat-or-last", true, func(exit []Stat, at int) []Stat {
				body := []Stat{Assign1(Name("i"), Bin("+", Name("i"), Num(1))), Local1("v", Bin("*", Name("i"), Num(10))), Local1("done", Bin(">=", Name("i"), Num(3)))}
				body = append(body, pair("v", "done")...)
				body = append(body, cond("i", at, exit)...)
				body = append(body, Label("cont"))
				return []Stat{Local1("i", Num(0)), Repeat(Bin("or", Bin(">=", Name("i"), Num(99)), Name("done")), body...), Label("out"), Local(names("o1", "o2", "o3"), Str("over1"), Str("over2"), Str("over3")), Emit(Str("after-loop"), Name("o1"))}
			}},
			{"repeat-and", true, func(exit []Stat, at int) []Stat {
				body := []Stat{Assign1(Name("i"), Bin("+", Name("i"), Num(1))), Local1("v", Bin("*", Name("i"), Num(10))), Local1("done", Bin(">=", Name("i"), Num(3)))}
				body = append(body, pair("v", "done")...)
				body = append(body, cond("i", at, exit)...)
				body = append(body, Label("cont"))
				return []Stat{Local1("i", Num(0)), Repeat(Bin("and", Name("done"), Bin(">=", Name("i"), Num(3))), body...), Label("out"), Local(names("o1", "o2", "o3"), Str("over1"), Str("over2"), Str("over3")), Emit(Str("after-loop"), Name("o1"))}
			}},
			{"while-and-or", true, func(exit []Stat, at int) []Stat {
				body := []Stat{Assign1(Name("i"), Bin("+", Name("i"), Num(1))), Local1("v", Bin("*", Name("i"), Num(10)))}
				body = append(body, pair("v")...)
				body = append(body, cond("i", at, exit)...)
				body = append(body, Label("cont"))
				return []Stat{Local1("i", Num(0)), While(Bin("or", Bin("and", Bin("<", Name("i"), Num(3)), Name("fns")), Bin("<", Name("i"), Num(0))), body...), Label("out"), Local(names("o1", "o2"), Str("over1"), Str("over2")), Emit(Str("after-loop"), Name("o1"))}
			}},
			{"nested-do-capture", true, func(exit []Stat, at int) []Stat {
				inner := []Stat{Local1("z", Bin("*", Name("i"), Num(10)))}
				inner = append(inner, pair("z", "i")...)
				inner = append(inner, cond("i", at, exit)...)
				body := []Stat{Do(inner...), Label("cont")}
				return []Stat{NumFor("i", Num(1), Num(3), nil, body...), Label("out"), Local(names("o1", "o2", "o3"), Str("over1"), Str("over2"), Str("over3")), Emit(Str("after-loop"), Name("o1"))}
			}},
			{"nested-if-capture", true, func(exit []Stat, at int) []Stat {
				inner := []Stat{Local1("z", Bin("*", Name("i"), Num(10)))}
				inner = append(inner, pair("z")...)
				inner = append(inner, cond("i", at, exit)...)
				body := []Stat{Assign1(Name("i"), Bin("+", Name("i"), Num(1))), If(Bin(">", Name("i"), Num(0)), inner...), Label("cont")}
				return []Stat{Local1("i", Num(0)), While(Bin("<", Name("i"), Num(3)), body...), Label("out"), Local(names("o1", "o2", "o3"), Str("over1"), Str("over2"), Str("over3")), Emit(Str("after-loop"), Name("o1"))}
			}},
			{"numfor", true, func(exit []Stat, at int) []Stat {
				body := append([]Stat{}, pair("i")...)
				body = append(body, cond("i", at, exit)...)
				body = append(body, Label("cont"))
				return []Stat{NumFor("i", Num(1), Num(3), nil, body...), Label("out"), Emit(Str("after-loop"))}
			}},
			{"numfor-local", true, func(exit []Stat, at int) []Stat {
				body := []Stat{Local(names("v", "w"), Bin("*", Name("i"), Num(10)), Str("w"))}
				body = append(body, pair("v", "w", "i")...)
				body = append(body, cond("i", at, exit)...)
				body = append(body, Label("cont"))
				return []Stat{NumFor("i", Num(1), Num(3), nil, body...), Label("out"), Emit(Str("after-loop"))}
			}},
			{"genfor", true, func(exit []Stat, at int) []Stat {
				body := append([]Stat{}, pair("k", "v")...)
				body = append(body, cond("k", at, exit)...)
				body = append(body, Label("cont"))
				return []Stat{GenFor(names("k", "v"), []Expr{CallN("ipairs", TableE(Pos1(Str("a")), Pos1(Str("b")), Pos1(Str("c"))))}, body...), Label("out"), Emit(Str("after-loop"))}
			}},
			{"do", false, func(exit []Stat, at int) []Stat {
				body := []Stat{Local(names("v", "w"), Num(5), Num(6))}
				body = append(body, pair("v")...)
				body = append(body, pair("w", "v")...)
				body = append(body, exit...)
				return []Stat{Do(body...), Label("out"), Emit(Str("after-block"))}
			}},
			{"param", false, func(exit []Stat, at int) []Stat {
				// the site function's own parameter p and vararg-derived local
				body := []Stat{Local1("q", Vararg())}
				body = append(body, pair("p", "q")...)
				body = append(body, exit...)
				return append(body, Label("out"), Emit(Str("after")))
			}},
			{"mk-in-loop", true, func(exit []Stat, at int) []Stat {
				mk := LocalFunc("mk", Func(names("a"), false, Local1("b", Bin("+", Name("a"), Num(100))), Return(Func(nil, false, Return(Name("a"), Name("b"))), Func(names("nv"), false, Assign1(Name("a"), Name("nv"))))))
				body := []Stat{Local(names("g", "s"), CallN("mk", Name("i"))), push(Name("g")), push(Name("s"))}
				body = append(body, cond("i", at, exit)...)
				body = append(body, Label("cont"))
				return []Stat{mk, NumFor("i", Num(1), Num(3), nil, body...), Label("out"), Emit(Str("after-loop"))}
			}},
			{"nested2", false, func(exit []Stat, at int) []Stat {
				// closure two levels deep sharing v with a direct closure
				body := []Stat{Local1("v", Num(1)),
					push(Func(nil, false, Return(Name("v")))),
					push(Func(names("nv"), false, Local1("inner", Func(nil, false, Assign1(Name("v"), Name("nv")))), CallS(Name("inner")))),
				}
				body = append(body, exit...)
				return append(body, Label("out"), Emit(Str("after")))
			}},
			{"loop-in-loop", true, func(exit []Stat, at int) []Stat {
				inner := append([]Stat{Local1("v", Bin("+", Bin("*", Name("i"), Num(10)), Name("j")))}, pair("v", "i", "j")...)
				inner = append(inner, cond("j", at, exit)...)
				inner = append(inner, Label("cont"))
				return []Stat{NumFor("i", Num(1), Num(2), nil, NumFor("j", Num(1), Num(2), nil, inner...)), Label("out"), Emit(Str("after-loop"))}
			}},
		}
		afters := []struct {
			name string
			mk   func() []Stat
		}{
			{"none", func() []Stat { return nil }},
			{"reuse", func() []Stat {
				return []Stat{Emit(Str("reuse"), CallN("reuse", Num(91), Num(92), Num(93), Num(94), Num(95), Num(96)))}
			}},
			{"reenter", func() []Stat {
				// call the site again through pcall (so every exit route is survivable), collecting more closures
				return []Stat{Emit(Str("again"), CallN("pcall", Name("site"), Str("P2"), Str("Q2")))}
			}},
		}
		reuseDef := func() Stat {
			return LocalFunc("reuse", Func(names("a", "b", "c", "d", "e", "f"), false,
				Local(names("x", "y", "z", "u", "v", "w"), Name("f"), Name("e"), Name("d"), Name("c"), Name("b"), Name("a")),
				Local1("tmp", TableE(Pos1(Name("x")), Pos1(Name("y")))),
				Return(Bin("+", Bin("+", Bin("+", Name("x"), Name("y")), Bin("+", Name("z"), Name("u"))), Bin("+", Name("v"), Name("w"))))))
		}
		use := func() []Stat {
			// read every getter, then write through every setter and read all getters again
			return []Stat{
				Emit(Str("n"), Un("#", Name("fns"))),
				NumFor("i", Num(1), Un("#", Name("fns")), Num(2), Emit(Str("get"), Name("i"), CallS(Index(Name("fns"), Name("i"))).Call)),
				NumFor("i", Num(2), Un("#", Name("fns")), Num(2),
					CallS(Index(Name("fns"), Name("i")), Bin("+", Num(1000), Name("i"))),
					NumFor("j", Num(1), Un("#", Name("fns")), Num(2), Emit(Str("after-set"), Name("i"), Name("j"), CallS(Index(Name("fns"), Name("j"))).Call))),
			}
		}
		handler := func() Expr {
			return Func(names("e"), false, Emit(Str("handler"), CallN("type", Name("e"))), Return(Str("handled")))
		}
		// F-live: variables of a frame that stays alive, captured before a protected call fails (or
		// a coroutine dies/suspends), then changed by the frame: the closures must see the change.
		fails := []struct {
			name string
			mk   func() []Stat
		}{
			{"pcall(error)", func() []Stat { return []Stat{Emit(Str("p"), Paren(CallN("pcall", Name("error"), Str("e"))))} }},
			{"pcall(fault)", func() []Stat {
				return []Stat{Emit(Str("p"), Paren(CallN("pcall", Func(nil, false, Local1("z", Bin("+", Name("nilv"), Num(1)))))))}
			}},
			{"pcall(deep-error)", func() []Stat {
				inner := Func(names("d"), false, If(Bin("==", Name("d"), Num(0)), CallS(Name("error"), TableE())), Local1("keep", Name("d")), Local1("c", Func(nil, false, Return(Name("keep")))), Return(CallN("rec", Bin("-", Name("d"), Num(1))), CallN("c")))
				return []Stat{Local1("rec", Nil()), Assign1(Name("rec"), inner), Emit(Str("p"), Paren(CallN("pcall", Name("rec"), Num(3))))}
			}},
			{"xpcall(error)", func() []Stat {
				return []Stat{Emit(Str("p"), CallN("xpcall", Func(nil, false, CallS(Name("error"), Str("e"))), Func(names("m"), false, Return(Str("h")))))}
			}},
			{"pcall(ok)", func() []Stat { return []Stat{Emit(Str("p"), CallN("pcall", Func(nil, false, Return(Num(1)))))} }},
			{"goto-forward", func() []Stat { return []Stat{Goto("fwd"), Emit(Str("skipped")), Label("fwd"), Emit(Str("p"))} }},
			{"goto-out-of-block", func() []Stat {
				return []Stat{Do(Local1("inner", Num(1)), Local1("ic", Func(nil, false, Return(Name("inner")))), If(Name("inner"), Goto("outb")), Emit(Str("skipped"))), Label("outb"), Emit(Str("p"))}
			}},
			{"goto-backward", func() []Stat {
				return []Stat{Local1("gn", Num(0)), Label("again"), Assign1(Name("gn"), Bin("+", Name("gn"), Num(1))), If(Bin("<", Name("gn"), Num(3)), Goto("again")), Emit(Str("p"), Name("gn"))}
			}},
			{"loop-break", func() []Stat {
				return []Stat{NumFor("bi", Num(1), Num(3), nil, If(Bin("==", Name("bi"), Num(2)), Break())), Emit(Str("p"))}
			}},
			{"loop-break-nested-capture", func() []Stat {
				return []Stat{NumFor("bi", Num(1), Num(3), nil, Do(Local1("bz", Bin("*", Name("bi"), Num(10))), push(Func(nil, false, Assign1(Name("bz"), Bin("+", Name("bz"), Num(1))), Return(Name("bz")))), If(Bin("==", Name("bi"), Num(2)), Break()))),
					Local(names("o1", "o2", "o3"), Str("over1"), Str("over2"), Str("over3")), Emit(Str("p"), Name("o1"))}
			}},
			{"loop-continue", func() []Stat {
				return []Stat{NumFor("bi", Num(1), Num(2), nil, Local1("cz", Name("bi")), push(Func(nil, false, Return(Name("cz")))), Goto("cnt"), Emit(Str("skipped")), Label("cnt")), Emit(Str("p"))}
			}},
			{"resume(error)", func() []Stat {
				return []Stat{Local1("co", CallN("coroutine.create", Func(nil, false, CallS(Name("error"), Str("e"))))), Emit(Str("p"), Paren(CallN("coroutine.resume", Name("co"))))}
			}},
			{"resume(yield)", func() []Stat {
				return []Stat{Local1("co", CallN("coroutine.create", Func(nil, false, CallS(Name("coroutine.yield"), Num(1))))), Emit(Str("p"), CallN("coroutine.resume", Name("co")))}
			}},
			{"wrap(error)", func() []Stat {
				return []Stat{Local1("wf", CallN("coroutine.wrap", Func(nil, false, CallS(Name("error"), Str("e"))))), Emit(Str("p"), Paren(CallN("pcall", Name("wf"))))}
			}},
			{"error-in-metamethod", func() []Stat {
				return []Stat{Local1("mt", CallN("setmetatable", TableE(), TableE(NamedField("__index", Func(names("t", "k"), false, CallS(Name("error"), Str("e"))))))),
					Emit(Str("p"), Paren(CallN("pcall", Func(nil, false, Return(Dot(Name("mt"), "zz"))))))}
			}},
			{"hostcall-error", func() []Stat {
				return []Stat{Emit(Str("p"), Paren(CallN("pcall", Name("hcall"), Name("error"), Str("e"))))}
			}},
		}
		liveSites := []struct {
			name string
			mk   func(fail []Stat) []Stat
		}{
			{"chunk", func(fail []Stat) []Stat {
				st := []Stat{Local1("x", Num(1)), LocalFunc("get", Func(nil, false, Return(Name("x")))), LocalFunc("set", Func(names("v"), false, Assign1(Name("x"), Name("v"))))}
				st = append(st, fail...)
				return append(st, CallS(Name("ucheck")), Assign1(Name("x"), Num(2)), Emit(CallN("get"), Name("x")), CallS(Name("set"), Num(3)), Emit(CallN("get"), Name("x")))
			}},
			{"function", func(fail []Stat) []Stat {
				body := []Stat{Local1("x", Name("p")), LocalFunc("get", Func(nil, false, Return(Name("x"), Name("p")))), LocalFunc("set", Func(names("v"), false, Assign1(Name("p"), Name("v"))))}
				body = append(body, fail...)
				body = append(body, Assign1(Name("x"), Num(2)), Emit(CallN("get"), Name("x")), CallS(Name("set"), Num(3)), Emit(CallN("get"), Name("p")), Return(Name("get")))
				return []Stat{LocalFunc("f", Func(names("p"), false, body...)), Local1("g", CallN("f", Num(10))), Emit(Str("reuse"), CallN("reuse", Num(91), Num(92), Num(93), Num(94), Num(95), Num(96))), Emit(CallN("g"))}
			}},
			{"loop", func(fail []Stat) []Stat {
				body := []Stat{Local1("x", Name("i")), push(Func(nil, false, Return(Name("x"), Name("i"))))}
				body = append(body, fail...)
				body = append(body, Assign1(Name("x"), Bin("+", Name("x"), Num(100))), Emit(Str("in"), CallS(Index(Name("fns"), Un("#", Name("fns")))).Call))
				return []Stat{NumFor("i", Num(1), Num(3), nil, body...), NumFor("k", Num(1), Un("#", Name("fns")), nil, Emit(Str("out"), CallS(Index(Name("fns"), Name("k"))).Call))}
			}},
			{"coroutine-body", func(fail []Stat) []Stat {
				body := []Stat{Local1("x", Num(1)), LocalFunc("get", Func(nil, false, Return(Name("x"))))}
				body = append(body, fail...)
				body = append(body, Assign1(Name("x"), Num(2)), Emit(CallN("get"), Name("x")), CallS(Name("coroutine.yield"), Name("get")), Assign1(Name("x"), Num(3)), Return(Name("get")))
				return []Stat{Local1("main", CallN("coroutine.create", Func(nil, false, body...))), Local(names("ok", "g"), CallN("coroutine.resume", Name("main"))), Emit(Name("ok"), CallN("g")),
					Local(names("ok2", "g2"), CallN("coroutine.resume", Name("main"))), Emit(Name("ok2"), CallN("g2"), Bin("==", Name("g"), Name("g2")))}
			}},
		}
		for _, ls := range liveSites {
			for _, f := range fails {
				ls, f := ls, f
				if ls.name == "coroutine-body" && (f.name == "resume(yield)") {
					// fine: nested coroutine
				}
				yield(&Prog{Family: "F-closure", Shape: "live/" + ls.name + "/" + f.name, Mk: func() *Block {
					st := []Stat{Local1("fns", TableE()), Local1("nilv", Nil()), reuseDef()}
					st = append(st, ls.mk(f.mk())...)
					fixCoroutineNames(st)
					return Blk(st...)
				}})
			}
		}
		for _, s := range sites {
			for _, e := range exits {
				if e.inLoop && !s.isLoop {
					continue
				}
				ats := []int{1, 2, 3}
				if !s.isLoop {
					ats = []int{1}
				}
				if s.name == "loop-in-loop" {
					ats = []int{1, 2}
				}
				if e.name == "fall" {
					ats = []int{1}
				}
				for _, at := range ats {
					for _, af := range afters {
						s, e, at, af := s, e, at, af
						yield(&Prog{Family: "F-closure", Shape: fmt.Sprintf("%s/%s@%d/%s", s.name, e.name, at, af.name), Mk: func() *Block {
							st := []Stat{Local1("fns", TableE()), Local1("nilv", Nil()), reuseDef()}
							st = append(st, LocalFunc("site", Func(names("p"), true, s.mk(e.stat(), at)...)))
							switch e.driver {
							case "call":
								st = append(st, Emit(Str("site"), CallN("site", Str("P"), Str("Q"))))
							case "pcall":
								st = append(st, Emit(Str("site"), CallN("pcall", Name("site"), Str("P"), Str("Q"))), CallS(Name("ucheck")))
							case "xpcall":
								st = append(st, Emit(Str("site"), CallN("xpcall", Func(nil, false, Return(CallN("site", Str("P"), Str("Q")))), handler())), CallS(Name("ucheck")))
							case "xpcall-herr":
								// the message handler itself raises: only the failure flag is defined
								herr := Func(names("e"), false, Emit(Str("handler"), CallN("type", Name("e"))), Local1("hb", Bin("+", Name("nilv"), Num(1))), Return(Str("unreached")))
								st = append(st, Emit(Str("site"), Paren(CallN("xpcall", Func(nil, false, Return(CallN("site", Str("P"), Str("Q")))), herr))), CallS(Name("ucheck")))
							case "co-abandon", "co-error", "co-return", "co-resume":
								st = append(st, Local1("co", CallN("coroutine.create", Name("site"))))
								st = append(st, Emit(Str("resume"), CallN("coroutine.resume", Name("co"), Str("P"), Str("Q"))), CallS(Name("ucheck")), Emit(Str("status"), CallN("coroutine.status", Name("co"))))
								if e.driver == "co-resume" {
									// use the closures while the coroutine is suspended, then let it finish
									st = append(st, NumFor("i", Num(1), Un("#", Name("fns")), Num(2), Emit(Str("mid"), Name("i"), CallS(Index(Name("fns"), Name("i"))).Call)))
									st = append(st, Emit(Str("resume2"), CallN("coroutine.resume", Name("co"))), Emit(Str("status"), CallN("coroutine.status", Name("co"))))
								}
							case "wrap-error":
								st = append(st, Local1("wf", CallN("coroutine.wrap", Name("site"))))
								st = append(st, Emit(Str("wrapped"), Paren(CallN("pcall", Name("wf"), Str("P"), Str("Q")))), CallS(Name("ucheck")))
							}
							st = append(st, af.mk()...)
							st = append(st, use()...)
							fixCoroutineNames(st)
							return Blk(st...)
						}})
					}
				}
			}
		}
	}
}

// fixCoroutineNames turns CallN("coroutine.create", …) shorthands into coroutine.create field accesses.
func fixCoroutineNames(stats []Stat) {
	var fixE func(e Expr) Expr
	fixEs := func(es []Expr) {
		for i := range es {
			es[i] = fixE(es[i])
		}
	}
	var fixB func(b *Block)
	fixE = func(e Expr) Expr {
		switch x := e.(type) {
		case *NameExpr:
			for _, lib := range []string{"coroutine.", "string.", "math.", "table."} {
				if len(x.Name) > len(lib) && x.Name[:len(lib)] == lib {
					return Dot(Name(lib[:len(lib)-1]), x.Name[len(lib):])
				}
			}
		case *CallExpr:
			x.Fn = fixE(x.Fn)
			fixEs(x.Args)
		case *MethodExpr:
			x.Obj = fixE(x.Obj)
			fixEs(x.Args)
		case *IndexExpr:
			x.Obj = fixE(x.Obj)
			x.Key = fixE(x.Key)
		case *ParenExpr:
			x.E = fixE(x.E)
		case *BinExpr:
			x.L = fixE(x.L)
			x.R = fixE(x.R)
		case *UnExpr:
			x.E = fixE(x.E)
		case *TableExpr:
			for i := range x.Fields {
				if x.Fields[i].Key != nil {
					x.Fields[i].Key = fixE(x.Fields[i].Key)
				}
				x.Fields[i].Val = fixE(x.Fields[i].Val)
			}
		case *FuncExpr:
			fixB(x.Body)
		}
		return e
	}
	fixB = func(b *Block) {
		if b != nil {
			fixCoroutineNames(b.Stats)
		}
	}
	for _, st := range stats {
		switch s := st.(type) {
		case *LocalStat:
			fixEs(s.Exprs)
		case *AssignStat:
			fixEs(s.Targets)
			fixEs(s.Exprs)
		case *CallStat:
			s.Call = fixE(s.Call)
		case *DoStat:
			fixB(s.Body)
		case *WhileStat:
			s.Cond = fixE(s.Cond)
			fixB(s.Body)
		case *RepeatStat:
			s.Cond = fixE(s.Cond)
			fixB(s.Body)
		case *IfStat:
			fixEs(s.Conds)
			for _, b := range s.Blocks {
				fixB(b)
			}
			fixB(s.Else)
		case *NumForStat:
			s.Start = fixE(s.Start)
			s.Limit = fixE(s.Limit)
			if s.Step != nil {
				s.Step = fixE(s.Step)
			}
			fixB(s.Body)
		case *GenForStat:
			fixEs(s.Exprs)
			fixB(s.Body)
		case *FuncStat:
			fixB(s.Func.Body)
		case *LocalFuncStat:
			fixB(s.Func.Body)
		case *ReturnStat:
			fixEs(s.Exprs)
		}
	}
}

// ---- F-env -------------------------------------------------------------------------------------------

func genEnv(thorough bool) Gen {
	return func(yield func(*Prog)) {
		type prog struct {
			name string
			mk   func() []Stat
		}
		env := func(x float64) Expr {
			return TableE(NamedField("x", Num(x)), NamedField("emit", Name("emit")), NamedField("setfenv", Name("setfenv")), NamedField("getfenv", Name("getfenv")))
		}
		rdx := func() *FuncExpr { return Func(nil, false, Return(Name("x"))) }
		wrx := func() *FuncExpr { return Func(names("v"), false, Assign1(Name("x"), Name("v"))) }
		var progs []prog
		// setfenv on a function value
		progs = append(progs, prog{"setfenv(f)", func() []Stat {
			return []Stat{Assign1(Name("x"), Num(1)), LocalFunc("f", rdx()), Emit(CallN("f")), Local1("e", env(2)), Emit(Bin("==", CallN("setfenv", Name("f"), Name("e")), Name("f"))), Emit(CallN("f")), Emit(Bin("==", CallN("getfenv", Name("f")), Name("e"))), Emit(Name("x"))}
		}})
		progs = append(progs, prog{"write-through-env", func() []Stat {
			return []Stat{Assign1(Name("x"), Num(1)), LocalFunc("w", wrx()), Local1("e", env(2)), CallS(Name("setfenv"), Name("w"), Name("e")), CallS(Name("w"), Num(9)), Emit(Name("x"), Dot(Name("e"), "x"))}
		}})
		// closures inherit the environment of their creator at creation time
		for _, when := range []string{"before", "after"} {
			when := when
			progs = append(progs, prog{"inherit/" + when, func() []Stat {
				mk := Func(nil, false, Return(rdx()))
				st := []Stat{Assign1(Name("x"), Num(1)), LocalFunc("mk", mk), Local1("e", env(2))}
				if when == "before" {
					st = append(st, Local1("c", CallN("mk")), CallS(Name("setfenv"), Name("mk"), Name("e")))
				} else {
					st = append(st, CallS(Name("setfenv"), Name("mk"), Name("e")), Local1("c", CallN("mk")))
				}
				return append(st, Emit(CallN("c")), Emit(Bin("==", CallN("getfenv", Name("c")), Name("e"))))
			}})
		}
		// levels
		progs = append(progs, prog{"level1", func() []Stat {
			f := Func(nil, false, Local1("before", Name("x")), CallS(Name("setfenv"), Num(1), env(5)), Return(Name("before"), Name("x")))
			return []Stat{Assign1(Name("x"), Num(1)), LocalFunc("f", f), Emit(CallN("f")), Emit(Name("x")), Emit(CallN("f"))}
		}})
		progs = append(progs, prog{"level2", func() []Stat {
			inner := Func(nil, false, CallS(Name("setfenv"), Num(2), env(6)))
			outer := Func(nil, false, Local1("a", Name("x")), CallS(Name("inner")), Return(Name("a"), Name("x")))
			return []Stat{Assign1(Name("x"), Num(1)), LocalFunc("inner", inner), LocalFunc("outer", outer), Emit(CallN("outer")), Emit(Name("x"))}
		}})
		progs = append(progs, prog{"getfenv-levels", func() []Stat {
			f := Func(nil, false, Return(Bin("==", CallN("getfenv"), CallN("getfenv", Num(1))), Bin("==", CallN("getfenv", Num(0)), Name("_G")), Bin("==", CallN("getfenv", Num(2)), Name("_G"))))
			return []Stat{LocalFunc("f", f), Emit(CallN("f")), Emit(Bin("==", CallN("getfenv", Name("f")), Name("_G")))}
		}})
		progs = append(progs, prog{"getfenv(0)", func() []Stat {
			return []Stat{Emit(Bin("==", CallN("getfenv", Num(0)), Name("_G")), Bin("==", CallN("getfenv"), Name("_G")), Bin("==", CallN("getfenv", Num(1)), Name("_G")))}
		}})
		// nested functions and coroutines resolve globals through their own environment
		progs = append(progs, prog{"nested-global", func() []Stat {
			outer := Func(nil, false, LocalFunc("in1", Func(nil, false, Assign1(Name("y"), Bin("+", Name("x"), Num(1))), Return(Name("y")))), Return(CallN("in1")))
			return []Stat{Assign1(Name("x"), Num(1)), LocalFunc("outer", outer), Local1("e", env(10)), CallS(Name("setfenv"), Name("outer"), Name("e")), Emit(CallN("outer")), Emit(Name("y"), Dot(Name("e"), "y"))}
		}})
		progs = append(progs, prog{"coroutine-env", func() []Stat {
			body := Func(nil, false, CallS(Dot(Name("coroutine"), "yield"), Name("x")), Assign1(Name("x"), Num(77)), Return(Name("x")))
			return []Stat{Assign1(Name("x"), Num(1)), LocalFunc("body", body), Local1("e", TableE(NamedField("x", Num(3)), NamedField("coroutine", Name("coroutine")))), CallS(Name("setfenv"), Name("body"), Name("e")),
				Local1("co", CallS(Dot(Name("coroutine"), "create"), Name("body")).Call), Emit(CallS(Dot(Name("coroutine"), "resume"), Name("co")).Call), Emit(CallS(Dot(Name("coroutine"), "resume"), Name("co")).Call), Emit(Name("x"), Dot(Name("e"), "x"))}
		}})
		progs = append(progs, prog{"setfenv-errors", func() []Stat {
			return []Stat{Emit(Paren(CallN("pcall", Name("setfenv"), Name("emit"), TableE()))), Emit(Paren(CallN("pcall", Name("setfenv"), Num(1), Num(2)))), Emit(Paren(CallN("pcall", Name("setfenv"), Num(50), TableE())))}
		}})
		progs = append(progs, prog{"env-with-index", func() []Stat {
			// environment falling back to _G through __index
			f := Func(nil, false, Assign1(Name("z"), Num(5)), Return(Name("x"), Name("z")))
			return []Stat{Assign1(Name("x"), Num(1)), LocalFunc("f", f), Local1("e", CallN("setmetatable", TableE(), TableE(NamedField("__index", Name("_G"))))), CallS(Name("setfenv"), Name("f"), Name("e")), Emit(CallN("f")), Emit(Name("z"), CallN("rawget", Name("e"), Str("z")))}
		}})
		progs = append(progs, prog{"method-def-env", func() []Stat {
			// function statement `function g() end` stores through the defining function's environment
			f := Func(nil, false, &FuncStat{Path: []string{"g"}, Func: Func(nil, false, Return(Str("g")))}, Return(CallN("g")))
			return []Stat{LocalFunc("f", f), Local1("e", TableE()), CallS(Name("setfenv"), Name("f"), Name("e")), Emit(CallN("f")), Emit(CallN("type", Name("g")), CallN("type", Dot(Name("e"), "g")))}
		}})
		for _, p := range progs {
			p := p
			yield(&Prog{Family: "F-env", Shape: p.name, Mk: func() *Block { return Blk(p.mk()...) }})
		}
	}
}

// genGrowUp: a local is captured while its function is still running (open upvalue); the function
// then calls k levels deep with w extra locals per level (so the registry must grow while the
// upvalue is open), and afterwards creator, closure and a sibling closure write and read the
// variable in turn.
func genGrowUp() Gen {
	return func(yield func(*Prog)) {
		for _, k := range []int{1, 2, 4, 8, 16, 32} {
			for _, w := range []int{0, 3, 10, 40} {
				k, w := k, w
				yield(&Prog{Family: "F-growup", Shape: fmt.Sprintf("depth=%d/width=%d", k, w), Mk: func() *Block {
					var locs []string
					var vals []Expr
					for i := 0; i < w; i++ {
						locs = append(locs, fmt.Sprintf("w%d", i))
						vals = append(vals, Num(float64(i)))
					}
					deepBody := []Stat{}
					if w > 0 {
						deepBody = append(deepBody, &LocalStat{Names: locs, Exprs: vals})
					}
					deepBody = append(deepBody, If(Bin("==", Name("n"), Num(0)), Return(Str("bottom"))), Local1("r", CallN("deep", Bin("-", Name("n"), Num(1)))), Return(Name("r")))
					body := []Stat{
						Local1("v", Num(1)),
						LocalFunc("get", Func(nil, false, Return(Name("v")))),
						LocalFunc("inc", Func(nil, false, Assign1(Name("v"), Bin("+", Name("v"), Num(10))), Return(Name("v")))),
						Emit(Str("before"), CallN("get")),
						Emit(Str("deep"), CallN("deep", Num(float64(k)))),
						Assign1(Name("v"), Num(2)),
						Emit(Str("creator-wrote"), CallN("get"), Name("v")),
						Emit(Str("sibling-wrote"), CallN("inc"), CallN("get"), Name("v")),
						Emit(Str("deep-again"), CallN("deep", Num(float64(k+3)))),
						Assign1(Name("v"), Bin("+", Name("v"), Num(100))),
						Emit(Str("after"), CallN("get"), CallN("inc"), Name("v")),
						Return(Name("get"), Name("inc")),
					}
					return Blk(Local1("deep", Nil()), Assign1(Name("deep"), Func(names("n"), false, deepBody...)),
						LocalFunc("creator", Func(nil, false, body...)),
						Local(names("g", "i"), CallN("creator")), Emit(Str("closed"), CallN("g"), CallN("i"), CallN("g")))
				}})
			}
		}
	}
}
