package props

// C19 part "spellings": the property quantifies over *all open modes* and over reads "by count,
// line, all, number". ISO C and liolib accept several spellings of the same mode ("rb+" = "r+b" =
// "r+" on this platform) and liolib looks only at the character after '*' of a read format
// ("*all" = "*a", "*line" = "*l", "*number" = "*n"). Differential oracle, no expected values written
// by hand: one fixed session (write, seek, the three read formats, append, close, bytes on disk) is
// run for every (initial file, base mode) pair of the BFS campaigns under every spelling of the
// mode and of the formats; every spelling must give exactly what the base spelling gives (whose
// behaviour the BFS campaigns judge against the byte-sequence model).

import (
	"fmt"
	"os"
	"path/filepath"
	"strings"

	lua "github.com/yuin/gopher-lua"

	"verif/internal/harness"
)

const c19SessionLua = `
local path, mode, fa, fl, fn = ...
local out = {}
local function rec(tag, ...)
  local parts = {tag}
  for i = 1, select('#', ...) do
    local v = (select(i, ...))
    if type(v) == "userdata" then v = "<file>" end
    parts[#parts + 1] = type(v) .. ":" .. tostring(v)
  end
  out[#out + 1] = table.concat(parts, " ")
end
local ok, f, e = pcall(io.open, path, mode)
if not ok then return "open raised: " .. tostring(f):gsub("^[^:]*:%d+: ", "") end
if not f then return "open failed" end
rec("write", pcall(f.write, f, "XY"))
rec("seek0", pcall(f.seek, f, "set", 0))
rec("line", pcall(f.read, f, fl))
rec("all", pcall(f.read, f, fa))
rec("all-at-eof", pcall(f.read, f, fa))
rec("seek0", pcall(f.seek, f, "set", 0))
rec("number", pcall(f.read, f, fn))
rec("two-formats", pcall(f.read, f, fn, fl))
rec("seek-end", pcall(f.seek, f, "end"))
rec("append", pcall(f.write, f, "Z"))
rec("close", pcall(f.close, f))
return table.concat(out, "\n")
`

func c19Spellings(r *harness.Run) {
	dir := harness.WorkDir("c19sp")
	defer os.RemoveAll(dir)
	L := lua.NewState()
	defer L.Close()
	fn, err := L.LoadString(c19SessionLua)
	if err != nil {
		harness.Fatal("c19 spellings: %v", err)
	}
	inits := map[string]string{"empty": "", "lines": "l1\nl2\nl3", "numbers": "12 34.5\n-6 x", "crlf": "a\r\nb\r\n"}
	session := func(init, mode string, formats [3]string) string {
		p := filepath.Join(dir, "f.txt")
		if err := os.WriteFile(p, []byte(inits[init]), 0o644); err != nil {
			harness.Fatal("c19 spellings: %v", err)
		}
		top := L.GetTop()
		defer L.SetTop(top)
		L.Push(fn)
		L.Push(lua.LString(p))
		L.Push(lua.LString(mode))
		for _, f := range formats {
			L.Push(lua.LString(f))
		}
		if err := L.PCall(5, 1, nil); err != nil {
			return "session raised: " + firstLine(err.Error())
		}
		res := L.Get(-1).String()
		disk, _ := os.ReadFile(p)
		return res + fmt.Sprintf("\ndisk %q", disk)
	}
	short := [3]string{"*a", "*l", "*n"}
	spell := func(base string) []string {
		plus := strings.HasSuffix(base, "+")
		l := base[:1]
		if plus {
			return []string{l + "b+", l + "+b"}
		}
		return []string{l + "b"}
	}
	n := 0
	for _, init := range []string{"empty", "lines", "numbers", "crlf"} {
		for _, base := range []string{"r", "w", "a", "r+", "w+", "a+"} {
			want := session(init, base, short)
			if strings.HasPrefix(want, "open ") || strings.HasPrefix(want, "session ") {
				r.Violation("spellings/base/"+base, fmt.Sprintf("the session on a %s file in mode %q did not run: %s", init, base, want), map[string]interface{}{"init": init, "mode": base})
				continue
			}
			for _, alias := range spell(base) {
				n++
				got := session(init, alias, short)
				r.Eval("spellings/mode/"+alias, true, func() interface{} {
					return map[string]interface{}{"case": "mode spelling", "mode": alias, "same_as": base}
				})
				if got != want {
					r.Violation("spellings/mode/"+alias, fmt.Sprintf("mode %q must behave as %q on a %s file\n-- %s:\n%s\n-- %s:\n%s", alias, base, init, base, want, alias, got),
						map[string]interface{}{"init": inits[init], "mode": alias, "base": base, "script": c19SessionLua})
				}
			}
			for i, long := range []string{"*all", "*line", "*number"} {
				n++
				f := short
				f[i] = long
				got := session(init, base, f)
				r.Eval("spellings/format/"+long, true, func() interface{} {
					return map[string]interface{}{"case": "format spelling", "format": long, "same_as": short[i]}
				})
				if got != want {
					r.Violation("spellings/format/"+long, fmt.Sprintf("read format %q must behave as %q (mode %q, %s file)\n-- %s:\n%s\n-- %s:\n%s", long, short[i], base, init, short[i], want, long, got),
						map[string]interface{}{"init": inits[init], "mode": base, "format": long, "script": c19SessionLua})
				}
			}
		}
	}
	r.Count("spelling_sessions", int64(n))
}
