package luaref

import (
	"fmt"
	"math"
	"strconv"
	"strings"
)

// Layout selects one lexical rendering of a program. The zero value is: one statement per line,
// LF line ends, single blanks between tokens, no comments.
type Layout struct {
	EOL           string // "\n" (default), "\r", "\r\n", "\n\r"
	StmtSep       string // "nl" (default) | "sp" (statements separated by a blank only) | "semi" (`;` + newline) | "semisp" (`;` + blank)
	Tabs          bool   // blanks are tabs
	Indent        bool   // indent nested blocks (by two blanks)
	BreakAtGap    int    // 1-based token gap at which an extra line break is inserted (0: none)
	CommentAtGap  int    // 1-based token gap at which Comment is inserted (0: none)
	Comment       string // "--x\n"-style text; the printer counts its newlines
	LeadingLines  int    // blank lines in front of the chunk
	LeadComment   int    // > 0: the chunk starts with a line comment of "--" + that many filler bytes (moves every later byte by a chosen amount)
	ParenOperands bool   // redundant parentheses around single-valued operands of binary operators
}

type printer struct {
	b           strings.Builder
	lay         Layout
	line        int
	gap         int // number of tokens emitted so far
	noBreak     bool
	indent      int
	atLineStart bool
	pendingSep  string
	lastTok     string
}

// Print renders a chunk and records token lines in its nodes.
func Print(chunk *Block, lay Layout) string {
	p := &printer{lay: lay, line: 1, atLineStart: true}
	if p.lay.EOL == "" {
		p.lay.EOL = "\n"
	}
	if lay.LeadComment > 0 {
		p.b.WriteString("--" + strings.Repeat("x", lay.LeadComment))
		p.newline()
	}
	for i := 0; i < lay.LeadingLines; i++ {
		p.newline()
	}
	p.block(chunk)
	if !p.atLineStart {
		p.newline()
	}
	return p.b.String()
}

func (p *printer) newline() {
	p.b.WriteString(p.lay.EOL)
	p.line++
	p.atLineStart = true
}

func (p *printer) blank() string {
	if p.lay.Tabs {
		return "\t"
	}
	return " "
}

// tok emits one token, preceded by the separator the layout asks for, and returns its line.
// noBreakBefore marks tokens in front of which a line break would change the meaning (`(` of a
// call: Lua 5.1 treats that as ambiguous syntax).
func (p *printer) tok(t string) int { return p.tokx(t, false) }

func (p *printer) tokx(t string, noBreakBefore bool) int {
	if p.gap > 0 {
		if p.lay.CommentAtGap == p.gap && p.lay.Comment != "" && !(noBreakBefore && countLineEnds(p.lay.Comment) > 0) {
			if !p.atLineStart {
				p.b.WriteString(p.blank())
			}
			c := p.lay.Comment
			// the comment text uses "\n" for its own line ends
			for _, part := range strings.SplitAfter(c, "\n") {
				if strings.HasSuffix(part, "\n") {
					p.b.WriteString(strings.TrimSuffix(part, "\n"))
					p.newline()
				} else if part != "" {
					p.b.WriteString(part)
					p.atLineStart = false
				}
			}
		}
		if p.lay.BreakAtGap == p.gap && !noBreakBefore && !p.atLineStart {
			p.newline()
		}
	}
	if p.atLineStart {
		if p.lay.Indent {
			for i := 0; i < p.indent; i++ {
				p.b.WriteString(p.blank())
				p.b.WriteString(p.blank())
			}
		}
	} else {
		p.b.WriteString(p.blank())
	}
	p.b.WriteString(t)
	// tokens may contain newlines (long strings): count them
	p.line += countLineEnds(t)
	p.atLineStart = false
	p.gap++
	p.lastTok = t
	return p.line
}

func (p *printer) stmtEnd() {
	switch p.lay.StmtSep {
	case "sp":
		// nothing: the next token is separated by a blank
	case "semi":
		p.tok(";")
		p.newline()
	case "semisp":
		p.tok(";")
	default:
		p.newline()
	}
}

func (p *printer) block(b *Block) {
	for _, s := range b.Stats {
		p.stat(s)
		p.stmtEnd()
	}
}

func (p *printer) nested(b *Block) {
	p.stmtEndHeader()
	p.indent++
	p.block(b)
	p.indent--
}

// after a header keyword (do/then/else/repeat/function(...)) the body starts on a new line in the
// line-oriented layouts
func (p *printer) stmtEndHeader() {
	switch p.lay.StmtSep {
	case "sp", "semisp":
	default:
		p.newline()
	}
}

func isIdent(s string) bool {
	if s == "" {
		return false
	}
	for i, c := range s {
		if !(c == '_' || c >= 'a' && c <= 'z' || c >= 'A' && c <= 'Z' || i > 0 && c >= '0' && c <= '9') {
			return false
		}
	}
	switch s {
	case "and", "break", "do", "else", "elseif", "end", "false", "for", "function", "goto", "if", "in", "local", "nil", "not", "or", "repeat", "return", "then", "true", "until", "while":
		return false
	}
	return true
}

func (p *printer) stat(st Stat) {
	sp := st.stat()
	switch s := st.(type) {
	case *LocalStat:
		sp.First = p.tok("local")
		p.names(s.Names)
		if len(s.Exprs) > 0 {
			p.tok("=")
			p.exprs(s.Exprs)
		}
	case *AssignStat:
		first := 0
		for i, t := range s.Targets {
			if i > 0 {
				p.tok(",")
			}
			l := p.exprFirst(t)
			if i == 0 {
				first = l
			}
		}
		sp.First = first
		p.tok("=")
		p.exprs(s.Exprs)
	case *CallStat:
		sp.First = p.exprFirst(s.Call)
	case *DoStat:
		sp.First = p.tok("do")
		sp.HdrFirst, sp.HdrLast = sp.First, sp.First
		p.nested(s.Body)
		p.tok("end")
		sp.Last = p.line
		return
	case *WhileStat:
		sp.First = p.tok("while")
		p.expr(s.Cond)
		sp.HdrLast = p.tok("do")
		sp.HdrFirst = sp.First
		p.nested(s.Body)
		p.tok("end")
		sp.Last = p.line
		return
	case *RepeatStat:
		sp.First = p.tok("repeat")
		p.nested(s.Body)
		sp.HdrFirst = p.tok("until")
		p.expr(s.Cond)
		sp.Last = p.line
		sp.HdrLast = p.line
		return
	case *IfStat:
		s.ClauseFirst = make([]int, len(s.Conds))
		s.ClauseLast = make([]int, len(s.Conds))
		for i, c := range s.Conds {
			if i == 0 {
				s.ClauseFirst[i] = p.tok("if")
				sp.First = s.ClauseFirst[i]
			} else {
				s.ClauseFirst[i] = p.tok("elseif")
			}
			p.expr(c)
			s.ClauseLast[i] = p.tok("then")
			p.nested(s.Blocks[i])
		}
		sp.HdrFirst, sp.HdrLast = sp.First, s.ClauseLast[0]
		if s.Else != nil {
			p.tok("else")
			p.nested(s.Else)
		}
		p.tok("end")
		sp.Last = p.line
		return
	case *NumForStat:
		sp.First = p.tok("for")
		p.tok(s.Var)
		p.tok("=")
		p.expr(s.Start)
		p.tok(",")
		p.expr(s.Limit)
		if s.Step != nil {
			p.tok(",")
			p.expr(s.Step)
		}
		sp.HdrLast = p.tok("do")
		sp.HdrFirst = sp.First
		p.nested(s.Body)
		p.tok("end")
		sp.Last = p.line
		return
	case *GenForStat:
		sp.First = p.tok("for")
		p.names(s.Names)
		p.tok("in")
		p.exprs(s.Exprs)
		sp.HdrLast = p.tok("do")
		sp.HdrFirst = sp.First
		p.nested(s.Body)
		p.tok("end")
		sp.Last = p.line
		return
	case *FuncStat:
		sp.First = p.tok("function")
		name := strings.Join(s.Path, ".")
		if s.Method != "" {
			name += ":" + s.Method
		}
		p.tok(name)
		s.Func.First = sp.First
		p.funcBody(s.Func)
		sp.Last = p.line
		sp.HdrFirst, sp.HdrLast = sp.First, sp.First
		return
	case *LocalFuncStat:
		sp.First = p.tok("local")
		p.tok("function")
		p.tok(s.Name)
		s.Func.First = sp.First
		p.funcBody(s.Func)
		sp.Last = p.line
		sp.HdrFirst, sp.HdrLast = sp.First, sp.First
		return
	case *ReturnStat:
		sp.First = p.tok("return")
		if len(s.Exprs) > 0 {
			p.exprs(s.Exprs)
		}
	case *BreakStat:
		sp.First = p.tok("break")
	case *GotoStat:
		sp.First = p.tok("goto")
		p.tok(s.Label)
	case *LabelStat:
		sp.First = p.tok("::")
		p.tokx(s.Name, true)
		p.tokx("::", true)
	default:
		panic(fmt.Sprintf("print: %T", st))
	}
	sp.Last = p.line
	sp.HdrFirst, sp.HdrLast = sp.First, sp.Last
}

func (p *printer) names(ns []string) {
	for i, n := range ns {
		if i > 0 {
			p.tok(",")
		}
		p.tok(n)
	}
}

func (p *printer) exprs(es []Expr) {
	for i, e := range es {
		if i > 0 {
			p.tok(",")
		}
		p.expr(e)
	}
}

func (p *printer) funcBody(f *FuncExpr) {
	f.ParenLine = p.tokx("(", true)
	for i, n := range f.Params {
		if i > 0 {
			p.tok(",")
		}
		p.tok(n)
	}
	if f.IsVararg {
		if len(f.Params) > 0 {
			p.tok(",")
		}
		p.tok("...")
	}
	p.tok(")")
	p.nested(f.Body)
	f.Last = p.tok("end")
}

var binPrec = map[string][2]int{
	"or": {1, 1}, "and": {2, 2},
	"<": {3, 3}, ">": {3, 3}, "<=": {3, 3}, ">=": {3, 3}, "~=": {3, 3}, "==": {3, 3},
	"..": {5, 4}, // right associative
	"+":  {6, 6}, "-": {6, 6},
	"*": {7, 7}, "/": {7, 7}, "%": {7, 7},
	"^": {10, 9}, // right associative
}

const unaryPrec = 8

// exprFirst prints e and returns the line of its first token.
func (p *printer) exprFirst(e Expr) int {
	g := p.gap
	_ = g
	start := -1
	p.exprP(e, 0, &start)
	return start
}

func (p *printer) expr(e Expr) { s := -1; p.exprP(e, 0, &s) }

func (p *printer) mark(start *int, line int) {
	if *start < 0 {
		*start = line
	}
}

func numLit(f float64) string {
	if f == math.Floor(f) && math.Abs(f) < 1e15 {
		return strconv.FormatFloat(f, 'f', 0, 64)
	}
	if math.IsInf(f, 1) {
		return "1e999"
	}
	return strconv.FormatFloat(f, 'g', -1, 64)
}

// Quote renders a Lua string literal denoting exactly the bytes of s.
func Quote(s string) string {
	var b strings.Builder
	b.WriteByte('"')
	for i := 0; i < len(s); i++ {
		c := s[i]
		switch {
		case c == '"':
			b.WriteString("\\\"")
		case c == '\\':
			b.WriteString("\\\\")
		case c == '\n':
			b.WriteString("\\n")
		case c == '\r':
			b.WriteString("\\r")
		case c == '\t':
			b.WriteString("\\t")
		case c < 32 || c >= 127:
			fmt.Fprintf(&b, "\\%03d", c)
		default:
			b.WriteByte(c)
		}
	}
	b.WriteByte('"')
	return b.String()
}

// isPrefixExp: can be called/indexed without parentheses
func isPrefixExp(e Expr) bool {
	switch e.(type) {
	case *NameExpr, *IndexExpr, *CallExpr, *MethodExpr, *ParenExpr:
		return true
	}
	return false
}

func (p *printer) prefix(e Expr, start *int) {
	if isPrefixExp(e) {
		p.exprP(e, 0, start)
		return
	}
	l := p.tok("(")
	p.mark(start, l)
	p.expr(e)
	p.tok(")")
}

func (p *printer) args(args []Expr) {
	p.tokx("(", true)
	p.exprs(args)
	p.tok(")")
}

func (p *printer) exprP(e Expr, minPrec int, start *int) {
	first := p.line
	_ = first
	switch x := e.(type) {
	case *NilExpr:
		x.First = p.tok("nil")
		p.mark(start, x.First)
		x.Last = p.line
	case *TrueExpr:
		x.First = p.tok("true")
		p.mark(start, x.First)
		x.Last = p.line
	case *FalseExpr:
		x.First = p.tok("false")
		p.mark(start, x.First)
		x.Last = p.line
	case *NumExpr:
		lit := x.Lit
		if lit == "" {
			lit = numLit(x.V)
		}
		x.First = p.tok(lit)
		p.mark(start, x.First)
		x.Last = p.line
	case *StrExpr:
		lit := x.Raw
		if lit == "" {
			lit = Quote(x.V)
		}
		first := p.line
		x.Last = p.tok(lit)
		x.First = x.Last - countLineEnds(lit)
		if first > x.First {
			x.First = first
		}
		p.mark(start, x.First)
	case *VarargExpr:
		x.First = p.tok("...")
		p.mark(start, x.First)
		x.Last = p.line
	case *FuncExpr:
		x.First = p.tok("function")
		p.mark(start, x.First)
		p.funcBody(x)
	case *NameExpr:
		x.First = p.tok(x.Name)
		p.mark(start, x.First)
		x.Last = p.line
	case *IndexExpr:
		s := -1
		p.prefix(x.Obj, &s)
		x.First = s
		p.mark(start, s)
		if x.Dot {
			p.tok(".")
			p.tok(x.Key.(*StrExpr).V)
		} else {
			p.tok("[")
			p.expr(x.Key)
			p.tok("]")
		}
		x.Last = p.line
	case *CallExpr:
		s := -1
		p.prefix(x.Fn, &s)
		x.First = s
		p.mark(start, s)
		p.args(x.Args)
		x.Last = p.line
	case *MethodExpr:
		s := -1
		p.prefix(x.Obj, &s)
		x.First = s
		p.mark(start, s)
		p.tok(":")
		p.tok(x.Name)
		p.args(x.Args)
		x.Last = p.line
	case *ParenExpr:
		x.First = p.tok("(")
		p.mark(start, x.First)
		p.expr(x.E)
		p.tok(")")
		x.Last = p.line
		// a directly parenthesised expression includes the lines of its parentheses
		if ip := x.E.pos(); ip != nil {
			if x.First < ip.First {
				ip.First = x.First
			}
			if x.Last > ip.Last {
				ip.Last = x.Last
			}
		}
	case *BinExpr:
		pr := binPrec[x.Op]
		open := pr[0] < minPrec
		if open {
			l := p.tok("(")
			p.mark(start, l)
		}
		s := -1
		lmin, rmin := pr[0], pr[0]+1
		if pr[0] != pr[1] { // right associative
			lmin, rmin = pr[0]+1, pr[1]
		}
		p.operand(x.L, lmin, &s)
		x.First = s
		p.mark(start, s)
		p.tok(x.Op)
		s2 := -1
		p.operand(x.R, rmin, &s2)
		x.Last = p.line
		if open {
			x.Last = p.tok(")")
			if *start < x.First {
				x.First = *start
			}
		}
	case *UnExpr:
		open := unaryPrec < minPrec
		if open {
			l := p.tok("(")
			p.mark(start, l)
		}
		x.First = p.tok(x.Op)
		p.mark(start, x.First)
		s := -1
		p.operand(x.E, unaryPrec, &s)
		x.Last = p.line
		if open {
			x.Last = p.tok(")")
			if *start < x.First {
				x.First = *start
			}
		}
	case *TableExpr:
		x.First = p.tok("{")
		p.mark(start, x.First)
		for i, f := range x.Fields {
			if i > 0 {
				p.tok(",")
			}
			if f.Key != nil {
				if f.NameKey {
					p.tok(f.Key.(*StrExpr).V)
				} else {
					p.tok("[")
					p.expr(f.Key)
					p.tok("]")
				}
				p.tok("=")
			}
			p.expr(f.Val)
		}
		x.Last = p.tok("}")
	default:
		panic(fmt.Sprintf("print: %T", e))
	}
}

// operand prints an operand of an operator; with ParenOperands, single-valued simple operands get
// redundant parentheses (never multi-valued ones: parentheses would truncate them — but as an
// operand they are truncated anyway, so it is safe for all operands).
func (p *printer) operand(e Expr, minPrec int, start *int) {
	if p.lay.ParenOperands {
		switch e.(type) {
		case *BinExpr, *UnExpr, *ParenExpr:
		default:
			l := p.tok("(")
			p.mark(start, l)
			p.expr(e)
			p.tok(")")
			return
		}
	}
	// unary minus followed by a negative literal or another minus must not fuse into a comment: tokens
	// are always separated by a blank, so `- -1` is safe.
	p.exprP(e, minPrec, start)
}

// ---- Resolve: computed attributes --------------------------------------------------------------

// Resolve computes UsesVararg for f and every nested function.
func Resolve(f *FuncExpr) {
	f.UsesVararg = blockUsesVararg(f.Body)
}

func blockUsesVararg(b *Block) bool {
	u := false
	for _, s := range b.Stats {
		if statUsesVararg(s) {
			u = true
		}
	}
	return u
}

func exprsUse(es []Expr) bool {
	u := false
	for _, e := range es {
		if exprUsesVararg(e) {
			u = true
		}
	}
	return u
}

func statUsesVararg(st Stat) bool {
	switch s := st.(type) {
	case *LocalStat:
		return exprsUse(s.Exprs)
	case *AssignStat:
		a := exprsUse(s.Targets)
		b := exprsUse(s.Exprs)
		return a || b
	case *CallStat:
		return exprUsesVararg(s.Call)
	case *DoStat:
		return blockUsesVararg(s.Body)
	case *WhileStat:
		a := exprUsesVararg(s.Cond)
		b := blockUsesVararg(s.Body)
		return a || b
	case *RepeatStat:
		a := exprUsesVararg(s.Cond)
		b := blockUsesVararg(s.Body)
		return a || b
	case *IfStat:
		u := exprsUse(s.Conds)
		for _, b := range s.Blocks {
			if blockUsesVararg(b) {
				u = true
			}
		}
		if s.Else != nil && blockUsesVararg(s.Else) {
			u = true
		}
		return u
	case *NumForStat:
		es := []Expr{s.Start, s.Limit}
		if s.Step != nil {
			es = append(es, s.Step)
		}
		a := exprsUse(es)
		b := blockUsesVararg(s.Body)
		return a || b
	case *GenForStat:
		a := exprsUse(s.Exprs)
		b := blockUsesVararg(s.Body)
		return a || b
	case *FuncStat:
		Resolve(s.Func)
	case *LocalFuncStat:
		Resolve(s.Func)
	case *ReturnStat:
		return exprsUse(s.Exprs)
	}
	return false
}

func exprUsesVararg(e Expr) bool {
	switch x := e.(type) {
	case *VarargExpr:
		return true
	case *FuncExpr:
		Resolve(x)
		return false
	case *IndexExpr:
		a := exprUsesVararg(x.Obj)
		b := exprUsesVararg(x.Key)
		return a || b
	case *CallExpr:
		a := exprUsesVararg(x.Fn)
		b := exprsUse(x.Args)
		return a || b
	case *MethodExpr:
		a := exprUsesVararg(x.Obj)
		b := exprsUse(x.Args)
		return a || b
	case *ParenExpr:
		return exprUsesVararg(x.E)
	case *BinExpr:
		a := exprUsesVararg(x.L)
		b := exprUsesVararg(x.R)
		return a || b
	case *UnExpr:
		return exprUsesVararg(x.E)
	case *TableExpr:
		u := false
		for _, f := range x.Fields {
			if f.Key != nil && exprUsesVararg(f.Key) {
				u = true
			}
			if exprUsesVararg(f.Val) {
				u = true
			}
		}
		return u
	}
	return false
}

// countLineEnds counts line ends the way the Lua lexer does: "\n", "\r", "\r\n" and "\n\r" are one each.
func countLineEnds(t string) int {
	n := 0
	for i := 0; i < len(t); i++ {
		if t[i] == '\n' || t[i] == '\r' {
			n++
			if i+1 < len(t) && (t[i+1] == '\n' || t[i+1] == '\r') && t[i+1] != t[i] {
				i++
			}
		}
	}
	return n
}
