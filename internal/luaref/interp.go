package luaref

import (
	"fmt"
	"math"
)

// ---- scopes --------------------------------------------------------------------------------------

type scope struct {
	name   string
	cell   *Value
	parent *scope
}

func (s *scope) lookup(name string) *Value {
	for ; s != nil; s = s.parent {
		if s.name == name {
			return s.cell
		}
	}
	return nil
}

func bind(parent *scope, name string, v Value) *scope {
	c := new(Value)
	*c = v
	return &scope{name, c, parent}
}

// ---- errors --------------------------------------------------------------------------------------

// LuaError is the panic payload for a Lua error.
type LuaError struct {
	Value     Value
	Traceback bool
}

// Indeterminate is the panic payload when the reference does not define the outcome.
type Indeterminate struct{ Why string }

type stepLimit struct{}

type killed struct{}

// ---- frames --------------------------------------------------------------------------------------

type frame struct {
	fn       *Function
	isLua    bool
	lo, hi   int // lines of the innermost statement (or header) being executed
	elo, ehi int // lines of the expression whose operation is being performed (0: none)
	varargs  []Value
	tail     bool   // entered by a tail call (level-2 positions are then not defined)
	sc       *scope // scope in front of the statement being executed (for debug.getlocal)
}

// ---- interpreter ---------------------------------------------------------------------------------

type Interp struct {
	G                *Table
	Registry         map[string]Value
	StringMeta       *Table
	Events           []Event
	Steps            int
	MaxSteps         int
	cur              *Coroutine
	frames           []*frame
	done             chan struct{}
	coros            []*Coroutine
	ChunkEnv         *Table
	handlers         []Value // per running thread: active xpcall handlers (nil entry = pcall)
	ccalls           int     // per running thread: nesting of C boundaries (for yield)
	HandlerRuns      int
	ThreadEnvChanged bool
	NormalResumes    int // resume attempts on a coroutine whose status is normal
	// hooks for checks
	OnCall func(in *Interp, depth int)
}

// Event is one observable action: a host call with its arguments.
type Event struct {
	Kind string // "emit" or another host function name
	Args []Value
}

func NewInterp() *Interp {
	in := &Interp{G: NewTable(), MaxSteps: 2_000_000, done: make(chan struct{})}
	in.ChunkEnv = in.G
	openBase(in)
	return in
}

// Close releases the goroutines of suspended coroutines.
func (in *Interp) Close() {
	close(in.done)
}

func (in *Interp) step() {
	in.Steps++
	if in.Steps > in.MaxSteps {
		panic(stepLimit{})
	}
}

func (in *Interp) indet(format string, a ...interface{}) {
	panic(Indeterminate{fmt.Sprintf(format, a...)})
}

func (in *Interp) top() *frame {
	if len(in.frames) == 0 {
		return nil
	}
	return in.frames[len(in.frames)-1]
}

// fault raises a run-time fault: a string "chunk:N: ..." where N lies in the current statement of
// the innermost Lua frame.
func (in *Interp) fault(what string) {
	for i := len(in.frames) - 1; i >= 0; i-- {
		if f := in.frames[i]; f.isLua {
			in.throw(&Opaque{Kind: "fault", Lo: f.lo, Hi: f.hi, ELo: f.elo, EHi: f.ehi, Rest: what})
		}
	}
	in.throw(&Opaque{Kind: "anystring", Rest: what})
}

// RunResult is what a chunk run produced.
type RunResult struct {
	Events        []Event
	Results       []Value
	Err           *LuaError // nil on success
	Indeterminate string    // non-empty: do not compare
	Steps         int
}

// Run executes a chunk (a vararg function body with no arguments).
func (in *Interp) Run(chunk *Block) (res RunResult) {
	fn := &Function{Proto: &FuncExpr{IsVararg: true, Body: chunk, Name: "main chunk"}, Env: in.ChunkEnv}
	Resolve(fn.Proto)
	defer func() {
		res.Events = in.Events
		res.Steps = in.Steps
		if r := recover(); r != nil {
			switch x := r.(type) {
			case *LuaError:
				res.Err = x
			case Indeterminate:
				res.Indeterminate = x.Why
			case stepLimit:
				res.Indeterminate = "step limit"
			default:
				panic(r)
			}
		}
	}()
	res.Results = in.Call(fn, nil)
	return
}

// ---- calls ---------------------------------------------------------------------------------------

const maxDepth = 190

func (in *Interp) Call(fv Value, args []Value) []Value {
	return in.call(fv, args, false)
}

func (in *Interp) call(fv Value, args []Value, tail bool) []Value {
	in.step()
	fn, ok := fv.(*Function)
	if !ok {
		h := in.metaOf(fv, "__call")
		hf, ok := h.(*Function)
		if !ok {
			in.fault("attempt to call a " + TypeName(fv) + " value")
		}
		fn = hf
		args = append([]Value{fv}, args...)
	}
	if len(in.frames) >= maxDepth {
		in.indet("call depth beyond the model's bound")
	}
	if fn.Builtin != nil {
		in.frames = append(in.frames, &frame{fn: fn})
		fr := in.frames
		defer func() { in.frames = fr[:len(fr)-1] }()
		return fn.Builtin(in, args)
	}
	p := fn.Proto
	f := &frame{fn: fn, isLua: true, tail: tail}
	in.frames = append(in.frames, f)
	fr := in.frames
	defer func() { in.frames = fr[:len(fr)-1] }()
	if in.OnCall != nil {
		in.OnCall(in, len(in.frames))
	}
	sc := fn.Up
	for i, name := range p.Params {
		var v Value
		if i < len(args) {
			v = args[i]
		}
		sc = bind(sc, name, v)
	}
	if p.IsVararg {
		if len(args) > len(p.Params) {
			f.varargs = append([]Value(nil), args[len(p.Params):]...)
		}
		if !p.UsesVararg {
			// LUA_COMPAT_VARARG: hidden parameter `arg`
			t := NewTable()
			for i, v := range f.varargs {
				t.Set(float64(i+1), v)
			}
			t.Set("n", float64(len(f.varargs)))
			sc = bind(sc, "arg", t)
		}
	}
	sig, vals := in.execBlock(p.Body, sc, f)
	switch sig {
	case sigReturn:
		return vals
	case sigBreak:
		panic("luaref: break outside loop")
	case sigGoto:
		panic("luaref: unresolved goto " + vals[0].(string))
	}
	return nil
}

// ---- statements ----------------------------------------------------------------------------------

type signal int

const (
	sigNone signal = iota
	sigBreak
	sigReturn
	sigGoto
)

func setPos(f *frame, lo, hi int) { f.lo, f.hi, f.elo, f.ehi = lo, hi, 0, 0 }

func setExpr(f *frame, p Pos) { f.elo, f.ehi = p.First, p.Last }

func (in *Interp) execBlock(b *Block, sc *scope, f *frame) (signal, []Value) {
	// scopes in front of each statement, so that a backward goto drops later locals
	scopes := make([]*scope, len(b.Stats)+1)
	i := 0
	for i < len(b.Stats) {
		scopes[i] = sc
		st := b.Stats[i]
		sig, vals, nsc := in.exec(st, sc, f)
		sc = nsc
		if sig == sigGoto {
			label := vals[0].(string)
			found := -1
			for j, s2 := range b.Stats {
				if l, ok := s2.(*LabelStat); ok && l.Name == label {
					found = j
					break
				}
			}
			if found < 0 {
				return sig, vals
			}
			if found <= i {
				sc = scopes[found]
			} else {
				// forward jump within the block: no local may be skipped into scope, so the skipped
				// statements start in the scope of the goto (needed if a later goto jumps back to them)
				for k := i + 1; k <= found; k++ {
					scopes[k] = sc
				}
			}
			i = found
			continue
		}
		if sig != sigNone {
			return sig, vals
		}
		i++
	}
	return sigNone, nil
}

func (in *Interp) exec(st Stat, sc *scope, f *frame) (signal, []Value, *scope) {
	in.step()
	f.sc = sc
	p := st.stat()
	switch s := st.(type) {
	case *LocalStat:
		setPos(f, p.First, p.Last)
		vals := in.evalList(s.Exprs, sc, f, len(s.Names))
		for i, n := range s.Names {
			sc = bind(sc, n, vals[i])
		}
		return sigNone, nil, sc
	case *AssignStat:
		setPos(f, p.First, p.Last)
		type target struct {
			cell *Value
			name string
			obj  Value
			key  Value
		}
		ts := make([]target, len(s.Targets))
		for i, t := range s.Targets {
			switch x := t.(type) {
			case *NameExpr:
				if c := sc.lookup(x.Name); c != nil {
					ts[i] = target{cell: c}
				} else {
					ts[i] = target{name: x.Name}
				}
			case *IndexExpr:
				o := in.eval1(x.Obj, sc, f)
				k := in.eval1(x.Key, sc, f)
				ts[i] = target{obj: o, key: k, name: "\x00idx"}
			default:
				panic("luaref: bad assignment target")
			}
		}
		vals := in.evalList(s.Exprs, sc, f, len(ts))
		// stores (order not observable for generated programs: see DESIGN Appendix A); right to left as PUC
		for i := len(ts) - 1; i >= 0; i-- {
			t := ts[i]
			switch {
			case t.cell != nil:
				*t.cell = vals[i]
			case t.name == "\x00idx":
				setExpr(f, s.Targets[i].(*IndexExpr).Pos)
				in.SetIndex(t.obj, t.key, vals[i])
			default:
				in.SetIndex(f.fn.Env, t.name, vals[i])
			}
		}
		return sigNone, nil, sc
	case *CallStat:
		setPos(f, p.First, p.Last)
		in.evalMulti(s.Call, sc, f)
		return sigNone, nil, sc
	case *DoStat:
		sig, vals := in.execBlock(s.Body, sc, f)
		return sig, vals, sc
	case *WhileStat:
		for {
			setPos(f, p.First, p.HdrLast)
			f.sc = sc
			if !Truthy(in.eval1(s.Cond, sc, f)) {
				break
			}
			sig, vals := in.execBlock(s.Body, sc, f)
			if sig == sigBreak {
				break
			}
			if sig != sigNone {
				return sig, vals, sc
			}
			in.step()
		}
		return sigNone, nil, sc
	case *RepeatStat:
		for {
			// the condition sees the body's locals: run the body statement by statement here
			bsc := sc
			sig, vals, bsc2 := in.execRepeatBody(s.Body, bsc, f)
			if sig == sigBreak {
				break
			}
			if sig != sigNone {
				return sig, vals, sc
			}
			setPos(f, p.HdrFirst, p.Last)
			f.sc = bsc2
			if Truthy(in.eval1(s.Cond, bsc2, f)) {
				break
			}
			in.step()
		}
		return sigNone, nil, sc
	case *IfStat:
		for i, c := range s.Conds {
			if i < len(s.ClauseFirst) {
				setPos(f, s.ClauseFirst[i], s.ClauseLast[i])
			}
			if Truthy(in.eval1(c, sc, f)) {
				sig, vals := in.execBlock(s.Blocks[i], sc, f)
				return sig, vals, sc
			}
		}
		if s.Else != nil {
			sig, vals := in.execBlock(s.Else, sc, f)
			return sig, vals, sc
		}
		return sigNone, nil, sc
	case *NumForStat:
		setPos(f, p.First, p.HdrLast)
		v0 := in.eval1(s.Start, sc, f)
		v1 := in.eval1(s.Limit, sc, f)
		var v2 Value = float64(1)
		if s.Step != nil {
			v2 = in.eval1(s.Step, sc, f)
		}
		start, ok0 := in.tonumber(v0)
		limit, ok1 := in.tonumber(v1)
		step, ok2 := in.tonumber(v2)
		if !ok0 {
			in.fault("'for' initial value must be a number")
		}
		if !ok1 {
			in.fault("'for' limit must be a number")
		}
		if !ok2 {
			in.fault("'for' step must be a number")
		}
		if step == 0 {
			// PUC loops forever when limit <= start and never otherwise
			if limit <= start {
				in.indet("numeric for with step 0 that would run forever")
			}
			return sigNone, nil, sc
		}
		// PUC computes (start-step)+step; require that to be exact
		if (start-step)+step != start {
			in.indet("numeric for whose start is not reproduced exactly by (start-step)+step")
		}
		for v := start; (step > 0 && v <= limit) || (step < 0 && v >= limit); v += step {
			sig, vals := in.execBlock(s.Body, bind(sc, s.Var, v), f)
			if sig == sigBreak {
				break
			}
			if sig != sigNone {
				return sig, vals, sc
			}
			in.step()
		}
		return sigNone, nil, sc
	case *GenForStat:
		setPos(f, p.First, p.HdrLast)
		init := in.evalList(s.Exprs, sc, f, 3)
		fn, state, ctl := init[0], init[1], init[2]
		for {
			setPos(f, p.First, p.HdrLast)
			rs := in.callC(fn, []Value{state, ctl})
			rs = adjust(rs, len(s.Names))
			if rs[0] == nil {
				break
			}
			ctl = rs[0]
			bsc := sc
			for i, n := range s.Names {
				bsc = bind(bsc, n, rs[i])
			}
			sig, vals := in.execBlock(s.Body, bsc, f)
			if sig == sigBreak {
				break
			}
			if sig != sigNone {
				return sig, vals, sc
			}
			in.step()
		}
		return sigNone, nil, sc
	case *FuncStat:
		setPos(f, p.First, p.First)
		fn := in.closure(s.Func, sc, f)
		if len(s.Path) == 1 && s.Method == "" {
			if c := sc.lookup(s.Path[0]); c != nil {
				*c = fn
			} else {
				in.SetIndex(f.fn.Env, s.Path[0], fn)
			}
			return sigNone, nil, sc
		}
		var obj Value
		if c := sc.lookup(s.Path[0]); c != nil {
			obj = *c
		} else {
			obj = in.Index(f.fn.Env, s.Path[0])
		}
		keys := append([]string(nil), s.Path[1:]...)
		if s.Method != "" {
			keys = append(keys, s.Method)
		}
		for i, k := range keys {
			if i == len(keys)-1 {
				in.SetIndex(obj, k, fn)
			} else {
				obj = in.Index(obj, k)
			}
		}
		return sigNone, nil, sc
	case *LocalFuncStat:
		setPos(f, p.First, p.First)
		sc = bind(sc, s.Name, nil)
		*sc.cell = in.closure(s.Func, sc, f)
		return sigNone, nil, sc
	case *ReturnStat:
		setPos(f, p.First, p.Last)
		if len(s.Exprs) == 1 {
			// tail call
			switch c := s.Exprs[0].(type) {
			case *CallExpr:
				fv := in.eval1(c.Fn, sc, f)
				args := in.evalList(c.Args, sc, f, -1)
				setExpr(f, c.Pos)
				return sigReturn, in.call(fv, args, true), sc
			case *MethodExpr:
				o := in.eval1(c.Obj, sc, f)
				setExpr(f, c.Pos)
				fv := in.Index(o, c.Name)
				args := append([]Value{o}, in.evalList(c.Args, sc, f, -1)...)
				setExpr(f, c.Pos)
				return sigReturn, in.call(fv, args, true), sc
			}
		}
		return sigReturn, in.evalList(s.Exprs, sc, f, -1), sc
	case *BreakStat:
		return sigBreak, nil, sc
	case *GotoStat:
		return sigGoto, []Value{s.Label}, sc
	case *LabelStat:
		return sigNone, nil, sc
	}
	panic(fmt.Sprintf("luaref: unknown statement %T", st))
}

// execRepeatBody runs a repeat body and returns the scope at its end (visible to the condition).
func (in *Interp) execRepeatBody(b *Block, sc *scope, f *frame) (signal, []Value, *scope) {
	scopes := make([]*scope, len(b.Stats)+1)
	i := 0
	for i < len(b.Stats) {
		scopes[i] = sc
		sig, vals, nsc := in.exec(b.Stats[i], sc, f)
		sc = nsc
		if sig == sigGoto {
			label := vals[0].(string)
			found := -1
			for j, s2 := range b.Stats {
				if l, ok := s2.(*LabelStat); ok && l.Name == label {
					found = j
					break
				}
			}
			if found < 0 {
				return sig, vals, sc
			}
			if found <= i {
				sc = scopes[found]
			} else {
				for k := i + 1; k <= found; k++ {
					scopes[k] = sc
				}
			}
			i = found
			continue
		}
		if sig != sigNone {
			return sig, vals, sc
		}
		i++
	}
	return sigNone, nil, sc
}

func (in *Interp) closure(fe *FuncExpr, sc *scope, f *frame) *Function {
	return &Function{Proto: fe, Up: sc, Env: f.fn.Env, Name: fe.Name}
}

// ---- expressions ---------------------------------------------------------------------------------

func adjust(vs []Value, n int) []Value {
	if n < 0 {
		return vs
	}
	if len(vs) >= n {
		return vs[:n]
	}
	out := make([]Value, n)
	copy(out, vs)
	return out
}

// evalList evaluates an expression list with multi-value expansion of the last element; want >= 0
// adjusts the result to exactly that many values (all expressions are still evaluated).
func (in *Interp) evalList(es []Expr, sc *scope, f *frame, want int) []Value {
	var out []Value
	for i, e := range es {
		if i == len(es)-1 {
			out = append(out, in.evalMulti(e, sc, f)...)
		} else {
			out = append(out, in.eval1(e, sc, f))
		}
	}
	return adjust(out, want)
}

func (in *Interp) evalMulti(e Expr, sc *scope, f *frame) []Value {
	switch x := e.(type) {
	case *CallExpr:
		fv := in.eval1(x.Fn, sc, f)
		args := in.evalList(x.Args, sc, f, -1)
		setExpr(f, x.Pos)
		return in.call(fv, args, false)
	case *MethodExpr:
		o := in.eval1(x.Obj, sc, f)
		setExpr(f, x.Pos)
		fv := in.Index(o, x.Name)
		args := append([]Value{o}, in.evalList(x.Args, sc, f, -1)...)
		setExpr(f, x.Pos)
		return in.call(fv, args, false)
	case *VarargExpr:
		return f.varargs
	}
	return []Value{in.eval1(e, sc, f)}
}

func (in *Interp) eval1(e Expr, sc *scope, f *frame) Value {
	in.step()
	switch x := e.(type) {
	case *NilExpr:
		return nil
	case *TrueExpr:
		return true
	case *FalseExpr:
		return false
	case *NumExpr:
		return x.V
	case *StrExpr:
		return x.V
	case *VarargExpr:
		if len(f.varargs) > 0 {
			return f.varargs[0]
		}
		return nil
	case *FuncExpr:
		return in.closure(x, sc, f)
	case *NameExpr:
		if c := sc.lookup(x.Name); c != nil {
			return *c
		}
		return in.Index(f.fn.Env, x.Name)
	case *IndexExpr:
		o := in.eval1(x.Obj, sc, f)
		k := in.eval1(x.Key, sc, f)
		setExpr(f, x.Pos)
		return in.Index(o, k)
	case *CallExpr, *MethodExpr:
		vs := in.evalMulti(e, sc, f)
		if len(vs) == 0 {
			return nil
		}
		return vs[0]
	case *ParenExpr:
		return in.eval1(x.E, sc, f)
	case *BinExpr:
		switch x.Op {
		case "and":
			l := in.eval1(x.L, sc, f)
			if !Truthy(l) {
				return l
			}
			return in.eval1(x.R, sc, f)
		case "or":
			l := in.eval1(x.L, sc, f)
			if Truthy(l) {
				return l
			}
			return in.eval1(x.R, sc, f)
		}
		l := in.eval1(x.L, sc, f)
		r := in.eval1(x.R, sc, f)
		setExpr(f, x.Pos)
		return in.Binary(x.Op, l, r)
	case *UnExpr:
		v := in.eval1(x.E, sc, f)
		setExpr(f, x.Pos)
		return in.Unary(x.Op, v)
	case *TableExpr:
		t := NewTable()
		pos := 1
		for i, fl := range x.Fields {
			if fl.Key != nil {
				k := in.eval1(fl.Key, sc, f)
				v := in.eval1(fl.Val, sc, f)
				if k == nil {
					in.fault("table index is nil")
				}
				if kf, ok := k.(float64); ok && kf != kf {
					in.fault("table index is NaN")
				}
				in.checkOpaqueKey(k)
				t.Set(k, v)
				continue
			}
			if i == len(x.Fields)-1 {
				for _, v := range in.evalMulti(fl.Val, sc, f) {
					t.Set(float64(pos), v)
					pos++
				}
			} else {
				t.Set(float64(pos), in.eval1(fl.Val, sc, f))
				pos++
			}
		}
		return t
	}
	panic(fmt.Sprintf("luaref: unknown expression %T", e))
}

func (in *Interp) checkOpaqueKey(k Value) {
	if _, ok := k.(*Opaque); ok {
		in.indet("opaque string used as a table key")
	}
}

// ---- operators -----------------------------------------------------------------------------------

func (in *Interp) tonumber(v Value) (float64, bool) {
	switch x := v.(type) {
	case float64:
		return x, true
	case string:
		return Str2Num(x)
	case *Opaque:
		in.indet("arithmetic on an opaque string")
	}
	return 0, false
}

func (in *Interp) tostr(v Value) (string, bool) {
	switch x := v.(type) {
	case string:
		return x, true
	case float64:
		s, ok := Num2Str(x)
		if !ok {
			in.indet("number->string conversion of %v", x)
		}
		return s, true
	case *Opaque:
		in.indet("text of an opaque string used")
	}
	return "", false
}

func (in *Interp) metatable(v Value) *Table {
	switch x := v.(type) {
	case *Table:
		return x.Meta
	case *Userdata:
		return x.Meta
	case string, *Opaque:
		return in.StringMeta
	}
	return nil
}

func (in *Interp) metaOf(v Value, event string) Value {
	mt := in.metatable(v)
	if mt == nil {
		return nil
	}
	return mt.Get(event)
}

func first(vs []Value) Value {
	if len(vs) == 0 {
		return nil
	}
	return vs[0]
}

func arith(op string, a, b float64) float64 {
	switch op {
	case "+":
		return a + b
	case "-":
		return a - b
	case "*":
		return a * b
	case "/":
		return a / b
	case "%":
		return a - math.Floor(a/b)*b
	case "^":
		return math.Pow(a, b)
	}
	panic("arith " + op)
}

var arithEvent = map[string]string{"+": "__add", "-": "__sub", "*": "__mul", "/": "__div", "%": "__mod", "^": "__pow"}

func exactMod(a, b float64) bool {
	// a - floor(a/b)*b is exact for small integers and short dyadic fractions
	if math.IsInf(a, 0) || math.IsInf(b, 0) || a != a || b != b {
		return false
	}
	if b == 0 {
		return true // NaN either way
	}
	small := func(x float64) bool { return math.Abs(x) <= 1<<20 && x*1024 == math.Floor(x*1024) }
	return small(a) && small(b) && math.Abs(b) >= 1.0/1024
}

func (in *Interp) Binary(op string, l, r Value) Value {
	switch op {
	case "+", "-", "*", "/", "%", "^":
		a, ok1 := in.tonumberNoIndet(l)
		b, ok2 := in.tonumberNoIndet(r)
		if ok1 && ok2 {
			if op == "%" && !exactMod(a, b) {
				in.indet("%% with inexact intermediate (%v %% %v)", a, b)
			}
			if op == "^" {
				if !(a == math.Floor(a*2)/2 && b == math.Floor(b) && math.Abs(a) <= 64 && math.Abs(b) <= 16) && !(b == 0.5 && a >= 0) {
					in.indet("pow outside the exactly known cases (%v ^ %v)", a, b)
				}
			}
			return arith(op, a, b)
		}
		ev := arithEvent[op]
		h := in.metaOf(l, ev)
		if h == nil {
			h = in.metaOf(r, ev)
		}
		if h == nil {
			bad := l
			if ok1 {
				bad = r
			}
			if _, isOp := bad.(*Opaque); isOp {
				in.indet("arithmetic on an opaque string")
			}
			in.fault("attempt to perform arithmetic on a " + TypeName(bad) + " value")
		}
		return first(in.callC(h, []Value{l, r}))
	case "..":
		_, lok := l.(*Opaque)
		_, rok := r.(*Opaque)
		ls, ok1 := "", false
		rs, ok2 := "", false
		if !lok {
			ls, ok1 = in.tostrQuiet(l)
		}
		if !rok {
			rs, ok2 = in.tostrQuiet(r)
		}
		if (ok1 || lok) && (ok2 || rok) {
			if lok || rok {
				in.indet("concatenation with an opaque string")
			}
			// number->string conversions must be determinate
			if _, isn := l.(float64); isn {
				ls, _ = in.tostr(l)
			}
			if _, isn := r.(float64); isn {
				rs, _ = in.tostr(r)
			}
			return ls + rs
		}
		h := in.metaOf(l, "__concat")
		if h == nil {
			h = in.metaOf(r, "__concat")
		}
		if h == nil {
			bad := l
			if ok1 || lok {
				bad = r
			}
			in.fault("attempt to concatenate a " + TypeName(bad) + " value")
		}
		return first(in.callC(h, []Value{l, r}))
	case "==":
		return in.Equals(l, r)
	case "~=":
		return !in.Equals(l, r)
	case "<":
		return in.LessThan(l, r)
	case "<=":
		return in.LessEqual(l, r)
	case ">":
		return in.LessThan(r, l)
	case ">=":
		return in.LessEqual(r, l)
	}
	panic("luaref: binary op " + op)
}

func (in *Interp) tonumberNoIndet(v Value) (float64, bool) {
	if _, ok := v.(*Opaque); ok {
		return 0, false
	}
	return in.tonumber(v)
}

func (in *Interp) tostrQuiet(v Value) (string, bool) {
	switch x := v.(type) {
	case string:
		return x, true
	case float64:
		return "", true
	}
	return "", false
}

func (in *Interp) Equals(l, r Value) bool {
	if TypeName(l) != TypeName(r) {
		return false
	}
	_, lo := l.(*Opaque)
	_, ro := r.(*Opaque)
	if lo || ro {
		if l == r {
			return true
		}
		in.indet("comparison of an opaque string")
	}
	if RawEqual(l, r) {
		return true
	}
	switch l.(type) {
	case *Table, *Userdata:
		h1 := in.metaOf(l, "__eq")
		if h1 == nil {
			return false
		}
		h2 := in.metaOf(r, "__eq")
		if !RawEqual(h1, h2) {
			return false
		}
		return Truthy(first(in.callC(h1, []Value{l, r})))
	}
	return false
}

func (in *Interp) orderTM(l, r Value, event string) (bool, bool) {
	h1 := in.metaOf(l, event)
	if h1 == nil {
		return false, false
	}
	h2 := in.metaOf(r, event)
	if !RawEqual(h1, h2) {
		return false, false
	}
	return Truthy(first(in.callC(h1, []Value{l, r}))), true
}

func (in *Interp) orderError(l, r Value) {
	if _, ok := l.(*Opaque); ok {
		in.indet("comparison of an opaque string")
	}
	if _, ok := r.(*Opaque); ok {
		in.indet("comparison of an opaque string")
	}
	t1, t2 := TypeName(l), TypeName(r)
	if t1 == t2 {
		in.fault("attempt to compare two " + t1 + " values")
	}
	in.fault("attempt to compare " + t1 + " with " + t2)
}

func (in *Interp) LessThan(l, r Value) bool {
	if TypeName(l) != TypeName(r) {
		in.orderError(l, r)
	}
	switch a := l.(type) {
	case float64:
		return a < r.(float64)
	case string:
		if b, ok := r.(string); ok {
			return a < b
		}
	}
	if res, ok := in.orderTM(l, r, "__lt"); ok {
		return res
	}
	in.orderError(l, r)
	return false
}

func (in *Interp) LessEqual(l, r Value) bool {
	if TypeName(l) != TypeName(r) {
		in.orderError(l, r)
	}
	switch a := l.(type) {
	case float64:
		return a <= r.(float64)
	case string:
		if b, ok := r.(string); ok {
			return a <= b
		}
	}
	if res, ok := in.orderTM(l, r, "__le"); ok {
		return res
	}
	if res, ok := in.orderTM(r, l, "__lt"); ok {
		return !res
	}
	in.orderError(l, r)
	return false
}

func (in *Interp) Unary(op string, v Value) Value {
	switch op {
	case "not":
		return !Truthy(v)
	case "-":
		if n, ok := in.tonumberNoIndet(v); ok {
			return -n
		}
		h := in.metaOf(v, "__unm")
		if h == nil {
			if _, isOp := v.(*Opaque); isOp {
				in.indet("arithmetic on an opaque string")
			}
			in.fault("attempt to perform arithmetic on a " + TypeName(v) + " value")
		}
		return first(in.callC(h, []Value{v, v}))
	case "#":
		switch x := v.(type) {
		case string:
			return float64(len(x))
		case *Opaque:
			in.indet("length of an opaque string")
		case *Table:
			bs := x.Borders()
			if len(bs) != 1 {
				in.indet("length of a table with %d borders", len(bs))
			}
			return float64(bs[0])
		}
		h := in.metaOf(v, "__len")
		if h == nil {
			in.fault("attempt to get length of a " + TypeName(v) + " value")
		}
		return first(in.callC(h, []Value{v}))
	}
	panic("luaref: unary op " + op)
}

const maxTagLoop = 100

func (in *Interp) Index(o, k Value) Value {
	for loop := 0; loop < maxTagLoop; loop++ {
		var h Value
		if t, ok := o.(*Table); ok {
			in.checkOpaqueKey(k)
			v := t.Get(k)
			if v != nil {
				return v
			}
			if t.Meta == nil {
				return nil
			}
			h = t.Meta.Get("__index")
			if h == nil {
				return nil
			}
		} else {
			h = in.metaOf(o, "__index")
			if h == nil {
				in.fault("attempt to index a " + TypeName(o) + " value")
			}
		}
		if hf, ok := h.(*Function); ok {
			return first(in.callC(hf, []Value{o, k}))
		}
		o = h
	}
	in.fault("loop in gettable")
	return nil
}

func (in *Interp) SetIndex(o, k, v Value) {
	for loop := 0; loop < maxTagLoop; loop++ {
		var h Value
		if t, ok := o.(*Table); ok {
			in.checkOpaqueKey(k)
			if t.Get(k) != nil || t.Meta == nil || t.Meta.Get("__newindex") == nil {
				in.RawSet(t, k, v)
				return
			}
			h = t.Meta.Get("__newindex")
		} else {
			h = in.metaOf(o, "__newindex")
			if h == nil {
				in.fault("attempt to index a " + TypeName(o) + " value")
			}
		}
		if hf, ok := h.(*Function); ok {
			in.callC(hf, []Value{o, k, v})
			return
		}
		o = h
	}
	in.fault("loop in settable")
}

func (in *Interp) RawSet(t *Table, k, v Value) {
	if k == nil {
		in.fault("table index is nil")
	}
	if f, ok := k.(float64); ok && f != f {
		in.fault("table index is NaN")
	}
	in.checkOpaqueKey(k)
	t.Set(k, v)
}
