package luaref

import (
	"math"
	"strings"
)

// ---- raising errors --------------------------------------------------------------------------------

// throw raises a Lua error. If an xpcall handler is active for the running thread it runs now,
// before any unwinding, and its first result replaces the error value.
func (in *Interp) throw(v Value) {
	if n := len(in.handlers); n > 0 && in.handlers[n-1] != nil {
		h := in.handlers[n-1]
		// the handler runs once; errors inside it are delivered without another handler call
		in.handlers[n-1] = nil
		in.HandlerRuns++
		in.ccalls++
		rs := in.call(h, []Value{v}, false)
		in.ccalls--
		v = first(rs)
	}
	panic(&LuaError{Value: v})
}

func (in *Interp) fault2(what string) { in.fault(what) }

func (in *Interp) argError(n int, fname, msg string) {
	// raised by a library function: position is that of the calling Lua statement
	in.faultAtCaller("bad argument #" + itoa(n) + " to '" + fname + "' (" + msg + ")")
}

func itoa(n int) string {
	if n == 0 {
		return "0"
	}
	s := ""
	neg := n < 0
	if neg {
		n = -n
	}
	for n > 0 {
		s = string(rune('0'+n%10)) + s
		n /= 10
	}
	if neg {
		s = "-" + s
	}
	return s
}

// faultAtCaller: a fault raised by a builtin (level 1 = the function that called the builtin).
func (in *Interp) faultAtCaller(what string) {
	n := len(in.frames)
	if n >= 2 && in.frames[n-2].isLua {
		f := in.frames[n-2]
		in.throw(&Opaque{Kind: "fault", Lo: f.lo, Hi: f.hi, ELo: f.elo, EHi: f.ehi, Rest: what})
	}
	in.throw(&Opaque{Kind: "anystring", Rest: what})
}

// callC calls back into Lua from a builtin or a metamethod site: a C boundary for yield.
func (in *Interp) callC(fn Value, args []Value) []Value {
	in.ccalls++
	defer func() { in.ccalls-- }()
	return in.call(fn, args, false)
}

// ---- base library ----------------------------------------------------------------------------------

func (in *Interp) Register(name string, f func(in *Interp, args []Value) []Value) *Function {
	fn := &Function{Name: name, Builtin: f, Env: in.G}
	in.G.Set(name, fn)
	return fn
}

// Host registers a host function whose calls are recorded as events with the given kind, and that
// returns what ret computes (nil: nothing).
func (in *Interp) Host(name string, ret func(in *Interp, args []Value) []Value) {
	in.Register(name, func(in *Interp, args []Value) []Value {
		in.Events = append(in.Events, Event{Kind: name, Args: append([]Value(nil), args...)})
		if ret != nil {
			return ret(in, args)
		}
		return nil
	})
}

func arg(args []Value, i int) Value {
	if i < len(args) {
		return args[i]
	}
	return nil
}

func openBase(in *Interp) {
	G := in.G
	G.Set("_G", G)
	in.Host("emit", nil)

	in.Register("type", func(in *Interp, a []Value) []Value {
		if len(a) == 0 {
			in.argError(1, "type", "value expected")
		}
		return []Value{TypeName(a[0])}
	})
	in.Register("tostring", func(in *Interp, a []Value) []Value {
		if len(a) == 0 {
			in.argError(1, "tostring", "value expected")
		}
		return []Value{in.ToString(a[0])}
	})
	in.Register("tonumber", func(in *Interp, a []Value) []Value {
		if len(a) == 0 {
			in.argError(1, "tonumber", "value expected")
		}
		if len(a) >= 2 && a[1] != nil {
			if b, ok := a[1].(float64); !ok || b != 10 {
				in.indet("tonumber with a base")
			}
		}
		switch x := a[0].(type) {
		case float64:
			return []Value{x}
		case string:
			if n, ok := Str2Num(x); ok {
				return []Value{n}
			}
			if looksNumeric(x) {
				in.indet("tonumber of an unusual numeral spelling %q", x)
			}
			return []Value{nil}
		case *Opaque:
			return []Value{nil}
		}
		return []Value{nil}
	})
	in.Register("select", func(in *Interp, a []Value) []Value {
		if len(a) == 0 {
			in.argError(1, "select", "number expected, got no value")
		}
		if s, ok := a[0].(string); ok && s == "#" {
			return []Value{float64(len(a) - 1)}
		}
		nf, ok := in.tonumber(a[0])
		if !ok {
			in.argError(1, "select", "number expected")
		}
		if nf != math.Floor(nf) {
			in.indet("select with a non-integral index")
		}
		n := int(nf)
		cnt := len(a) - 1
		if n < 0 {
			n = cnt + n
			if n < 0 {
				in.argError(1, "select", "index out of range")
			}
			n++
		} else if n == 0 {
			in.argError(1, "select", "index out of range")
		}
		if n > cnt {
			return nil
		}
		return a[n:]
	})
	in.Register("unpack", func(in *Interp, a []Value) []Value {
		t, ok := arg(a, 0).(*Table)
		if !ok {
			in.argError(1, "unpack", "table expected")
		}
		i := 1
		if v := arg(a, 1); v != nil {
			f, ok := in.tonumber(v)
			if !ok || f != math.Floor(f) {
				in.indet("unpack index")
			}
			i = int(f)
		}
		var j int
		if v := arg(a, 2); v != nil {
			f, ok := in.tonumber(v)
			if !ok || f != math.Floor(f) {
				in.indet("unpack index")
			}
			j = int(f)
		} else {
			bs := t.Borders()
			if len(bs) != 1 {
				in.indet("unpack of a table with %d borders", len(bs))
			}
			j = bs[0]
		}
		if j-i+1 >= 8000 {
			// lbaselib.c luaB_unpack: lua_checkstack fails beyond LUAI_MAXCSTACK (8000)
			in.throw(&Opaque{Kind: "anystring", Rest: "too many results to unpack"})
		}
		if j-i+1 > 200 {
			in.indet("unpack of many values")
		}
		var out []Value
		for k := i; k <= j; k++ {
			out = append(out, t.Get(float64(k)))
		}
		return out
	})
	in.Register("rawget", func(in *Interp, a []Value) []Value {
		t, ok := arg(a, 0).(*Table)
		if !ok {
			in.argError(1, "rawget", "table expected")
		}
		if len(a) < 2 {
			in.argError(2, "rawget", "value expected")
		}
		in.checkOpaqueKey(a[1])
		return []Value{t.Get(a[1])}
	})
	in.Register("rawset", func(in *Interp, a []Value) []Value {
		t, ok := arg(a, 0).(*Table)
		if !ok {
			in.argError(1, "rawset", "table expected")
		}
		if len(a) < 3 {
			in.argError(3, "rawset", "value expected")
		}
		if a[1] == nil {
			in.faultAtCaller("table index is nil")
		}
		if f, ok := a[1].(float64); ok && f != f {
			in.faultAtCaller("table index is NaN")
		}
		in.checkOpaqueKey(a[1])
		t.Set(a[1], a[2])
		return []Value{t}
	})
	in.Register("rawequal", func(in *Interp, a []Value) []Value {
		if len(a) < 2 {
			in.argError(len(a)+1, "rawequal", "value expected")
		}
		if _, ok := a[0].(*Opaque); ok && a[0] != a[1] {
			in.indet("rawequal on an opaque string")
		}
		if _, ok := a[1].(*Opaque); ok && a[0] != a[1] {
			in.indet("rawequal on an opaque string")
		}
		return []Value{RawEqual(a[0], a[1])}
	})
	nextFn := in.Register("next", func(in *Interp, a []Value) []Value {
		t, ok := arg(a, 0).(*Table)
		if !ok {
			in.argError(1, "next", "table expected")
		}
		if t.Len() > 1 {
			in.indet("traversal order of a table with more than one field")
		}
		k, v, ok := t.Next(arg(a, 1))
		if !ok {
			if t.Len() == 0 {
				// key of a field that was cleared during traversal: valid in 5.1
				return []Value{nil}
			}
			in.indet("next with a key that is not in the table")
		}
		if k == nil {
			return []Value{nil}
		}
		return []Value{k, v}
	})
	in.Register("pairs", func(in *Interp, a []Value) []Value {
		t, ok := arg(a, 0).(*Table)
		if !ok {
			in.argError(1, "pairs", "table expected")
		}
		return []Value{nextFn, t, nil}
	})
	ipairsIter := &Function{Name: "ipairs_iter", Env: G, Builtin: func(in *Interp, a []Value) []Value {
		t, ok := arg(a, 0).(*Table)
		if !ok {
			in.argError(1, "ipairs_iter", "table expected")
		}
		i, _ := arg(a, 1).(float64)
		i++
		v := t.Get(i)
		if v == nil {
			return []Value{nil}
		}
		return []Value{i, v}
	}}
	in.Register("ipairs", func(in *Interp, a []Value) []Value {
		t, ok := arg(a, 0).(*Table)
		if !ok {
			in.argError(1, "ipairs", "table expected")
		}
		return []Value{ipairsIter, t, float64(0)}
	})
	in.Register("setmetatable", func(in *Interp, a []Value) []Value {
		t, ok := arg(a, 0).(*Table)
		if !ok {
			in.argError(1, "setmetatable", "table expected")
		}
		var mt *Table
		if len(a) < 2 {
			in.argError(2, "setmetatable", "nil or table expected")
		}
		if a[1] != nil {
			m, ok := a[1].(*Table)
			if !ok {
				in.argError(2, "setmetatable", "nil or table expected")
			}
			mt = m
		}
		if t.Meta != nil && t.Meta.Get("__metatable") != nil {
			in.faultAtCaller("cannot change a protected metatable")
		}
		t.Meta = mt
		return []Value{t}
	})
	in.Register("getmetatable", func(in *Interp, a []Value) []Value {
		if len(a) == 0 {
			in.argError(1, "getmetatable", "value expected")
		}
		mt := in.metatable(a[0])
		if mt == nil {
			return []Value{nil}
		}
		if p := mt.Get("__metatable"); p != nil {
			return []Value{p}
		}
		return []Value{mt}
	})
	in.Register("error", func(in *Interp, a []Value) []Value {
		v := arg(a, 0)
		level := 1
		if l := arg(a, 1); l != nil {
			lf, ok := in.tonumber(l)
			if !ok || lf != math.Floor(lf) {
				in.indet("error level")
			}
			level = int(lf)
		}
		if level > 0 {
			switch s := v.(type) {
			case string:
				v = in.where(level, s)
			case *Opaque:
				in.indet("re-raising an opaque string with a position level (text would be prefixed twice)")
			}
		}
		in.throw(v)
		return nil
	})
	in.Register("assert", func(in *Interp, a []Value) []Value {
		if len(a) == 0 {
			in.argError(1, "assert", "value expected")
		}
		if !Truthy(a[0]) {
			msg := "assertion failed!"
			if len(a) > 1 && a[1] != nil {
				s, ok := a[1].(string)
				if !ok {
					in.indet("assert with a non-string message")
				}
				msg = s
			}
			in.throw(in.where(1, msg))
		}
		return a
	})
	in.Register("pcall", func(in *Interp, a []Value) (out []Value) {
		if len(a) == 0 {
			in.argError(1, "pcall", "value expected")
		}
		in.handlers = append(in.handlers, nil)
		nh := len(in.handlers)
		nf := len(in.frames)
		cc := in.ccalls
		defer func() {
			in.handlers = in.handlers[:nh-1]
			if r := recover(); r != nil {
				le, ok := r.(*LuaError)
				if !ok {
					panic(r)
				}
				in.frames = in.frames[:nf]
				in.ccalls = cc
				out = []Value{false, le.Value}
			}
		}()
		rs := in.callC(a[0], a[1:])
		return append([]Value{true}, rs...)
	})
	in.Register("xpcall", func(in *Interp, a []Value) (out []Value) {
		if len(a) < 2 {
			in.argError(2, "xpcall", "value expected")
		}
		in.handlers = append(in.handlers, a[1])
		nh := len(in.handlers)
		nf := len(in.frames)
		cc := in.ccalls
		defer func() {
			in.handlers = in.handlers[:nh-1]
			if r := recover(); r != nil {
				le, ok := r.(*LuaError)
				if !ok {
					panic(r)
				}
				in.frames = in.frames[:nf]
				in.ccalls = cc
				out = []Value{false, le.Value}
			}
		}()
		rs := in.callC(a[0], nil)
		return append([]Value{true}, rs...)
	})
	in.Register("getfenv", func(in *Interp, a []Value) []Value {
		return []Value{in.fenvTarget(a, "getfenv", true)}
	})
	in.Register("setfenv", func(in *Interp, a []Value) []Value {
		t, ok := arg(a, 1).(*Table)
		if !ok {
			in.argError(2, "setfenv", "table expected")
		}
		if lv, isNum := arg(a, 0).(float64); isNum && lv == 0 {
			in.ChunkEnv = t
			in.ThreadEnvChanged = true
			return nil
		}
		fv := in.fenvTarget(a, "setfenv", false)
		fn := fv.(*Function)
		if fn.Builtin != nil {
			in.faultAtCaller("'setfenv' cannot change environment of given object")
		}
		fn.Env = t
		return []Value{fn}
	})

	// string library (the little that generated programs use) + string metatable
	str := NewTable()
	G.Set("string", str)
	reg := func(t *Table, name string, f func(in *Interp, a []Value) []Value) {
		t.Set(name, &Function{Name: name, Builtin: f, Env: G})
	}
	checkStr := func(in *Interp, a []Value, i int, fname string) string {
		switch x := arg(a, i).(type) {
		case string:
			return x
		case float64:
			s, _ := in.tostr(x)
			return s
		case *Opaque:
			in.indet("string function on an opaque string")
		}
		in.argError(i+1, fname, "string expected")
		return ""
	}
	reg(str, "len", func(in *Interp, a []Value) []Value { return []Value{float64(len(checkStr(in, a, 0, "len")))} })
	reg(str, "upper", func(in *Interp, a []Value) []Value {
		return []Value{strings.ToUpper(checkStr(in, a, 0, "upper"))}
	})
	reg(str, "rep", func(in *Interp, a []Value) []Value {
		s := checkStr(in, a, 0, "rep")
		n, ok := in.tonumber(arg(a, 1))
		if !ok {
			in.argError(2, "rep", "number expected")
		}
		if n > 100 && n*float64(len(s)) > 20000 {
			in.indet("long rep")
		}
		if n < 0 {
			n = 0
		}
		return []Value{strings.Repeat(s, int(n))}
	})
	reg(str, "byte", func(in *Interp, a []Value) []Value {
		s := checkStr(in, a, 0, "byte")
		i, j := 1.0, 0.0
		if v := arg(a, 1); v != nil {
			f, ok := in.tonumber(v)
			if !ok || f != math.Floor(f) {
				in.indet("string.byte position")
			}
			i = f
		}
		j = i
		if v := arg(a, 2); v != nil {
			f, ok := in.tonumber(v)
			if !ok || f != math.Floor(f) {
				in.indet("string.byte position")
			}
			j = f
		}
		l := float64(len(s))
		if i < 0 {
			i = l + i + 1
		}
		if j < 0 {
			j = l + j + 1
		}
		if i < 1 {
			i = 1
		}
		if j > l {
			j = l
		}
		if i > j {
			return nil
		}
		if j-i+1 >= 8000 {
			// lstrlib.c str_byte: luaL_checkstack(L, n, "string slice too long")
			in.throw(&Opaque{Kind: "anystring", Rest: "string slice too long"})
		}
		var out []Value
		for k := int(i); k <= int(j); k++ {
			out = append(out, float64(s[k-1]))
		}
		return out
	})
	reg(str, "sub", func(in *Interp, a []Value) []Value {
		s := checkStr(in, a, 0, "sub")
		l := len(s)
		iv, ok := in.tonumber(arg(a, 1))
		if !ok {
			in.argError(2, "sub", "number expected")
		}
		i := int(iv)
		j := -1
		if v := arg(a, 2); v != nil {
			jv, ok := in.tonumber(v)
			if !ok {
				in.argError(3, "sub", "number expected")
			}
			j = int(jv)
		}
		if i < 0 {
			i = l + i + 1
			if i < 0 {
				i = 0
			}
		}
		if j < 0 {
			j = l + j + 1
			if j < 0 {
				j = 0
			}
		}
		if i < 1 {
			i = 1
		}
		if j > l {
			j = l
		}
		if i > j {
			return []Value{""}
		}
		return []Value{s[i-1 : j]}
	})
	in.StringMeta = NewTable()
	in.StringMeta.Set("__index", str)

	math_ := NewTable()
	G.Set("math", math_)
	math_.Set("huge", math.Inf(1))
	reg(math_, "floor", func(in *Interp, a []Value) []Value {
		n, ok := in.tonumber(arg(a, 0))
		if !ok {
			in.argError(1, "floor", "number expected")
		}
		return []Value{math.Floor(n)}
	})

	openCoroutine(in)
	openDebug(in)
}

func looksNumeric(s string) bool {
	s = strings.TrimSpace(s)
	if s == "" {
		return false
	}
	c := s[0]
	return c >= '0' && c <= '9' || c == '.' || c == '-' || c == '+' || strings.EqualFold(s, "inf") || strings.EqualFold(s, "nan") || strings.HasPrefix(strings.ToLower(s), "infinity")
}

// where builds the position-prefixed message for error(msg, level) called from the builtin on top
// of the frame stack: level 1 is the function that called the builtin.
func (in *Interp) where(level int, msg string) Value {
	// ldebug.c/lauxlib.c luaL_where: levels are counted from the caller of error downwards; a frame
	// that was entered by a tail call is followed by one pseudo-level that has no position.
	lvl := 0
	for i := len(in.frames) - 2; i >= 0; i-- {
		lvl++
		f := in.frames[i]
		if lvl == level {
			if !f.isLua {
				if level == 1 {
					// error() called directly by a host function (pcall(error, msg)): PUC-Lua adds no
					// position, gopher-lua's RaiseError design adds the Lua caller's: not judged
					in.indet("error position level designating a host function")
				}
				return msg // a level of 2 or more that is a host function: no position
			}
			return &Opaque{Kind: "pos", Lo: f.lo, Hi: f.hi, ELo: f.elo, EHi: f.ehi, Rest: msg}
		}
		if f.tail {
			lvl++
			if lvl == level {
				return msg // the level is the lost caller of a tail call: no position
			}
			// levels beyond a tail call: how the remaining levels are counted is not judged
			in.indet("error position level across a tail call")
		}
	}
	// beyond the stack (of the coroutine, or of the main thread): no position
	return msg
}

func (in *Interp) fenvTarget(a []Value, fname string, get bool) Value {
	v := arg(a, 0)
	if fn, ok := v.(*Function); ok {
		if get {
			return fn.Env
		}
		return fn
	}
	level := 1
	if v != nil {
		lf, ok := in.tonumber(v)
		if !ok || lf != math.Floor(lf) {
			in.argError(1, fname, "number expected")
		}
		level = int(lf)
	}
	if level < 0 {
		in.argError(1, fname, "level must be non-negative")
	}
	if level == 0 {
		return in.ChunkEnv
	}
	idx := len(in.frames) - 1 - level
	if idx < 0 {
		if in.cur != nil {
			in.indet("fenv level beyond the coroutine's own stack")
		}
		in.argError(1, fname, "invalid level")
	}
	for i := idx + 1; i < len(in.frames)-1; i++ {
		if in.frames[i].tail {
			in.indet("fenv level across a tail call")
		}
	}
	fn := in.frames[idx].fn
	if get {
		return fn.Env
	}
	return fn
}

// ToString implements tostring().
func (in *Interp) ToString(v Value) Value {
	if h := in.metaOf(v, "__tostring"); h != nil {
		r := first(in.callC(h, []Value{v}))
		switch r.(type) {
		case string, *Opaque:
			return r
		case float64:
			in.indet("__tostring returning a number")
		}
		in.indet("__tostring returning a non-string")
	}
	switch x := v.(type) {
	case nil:
		return "nil"
	case bool:
		if x {
			return "true"
		}
		return "false"
	case float64:
		s, _ := in.tostr(x)
		return s
	case string, *Opaque:
		return x
	}
	return &Opaque{Kind: "anystring", Rest: TypeName(v) + ": <address>"}
}

// ---- coroutines ------------------------------------------------------------------------------------

type Coroutine struct {
	fn       Value
	Status   string
	resumeCh chan []Value
	yieldCh  chan coMsg
	started  bool
	frames   []*frame
	ccalls   int
	handlers []Value
	parent   *Coroutine
}

type coMsg struct {
	kind int // 0 yield, 1 return, 2 error, 3 foreign panic
	vals []Value
	err  *LuaError
	pan  interface{}
}

func (in *Interp) Resume(co *Coroutine, args []Value) (bool, []Value) {
	switch co.Status {
	case "dead":
		return false, []Value{&Opaque{Kind: "anystring", Rest: "cannot resume dead coroutine"}}
	case "running":
		return false, []Value{&Opaque{Kind: "anystring", Rest: "cannot resume running coroutine"}}
	case "normal":
		// lcorolib.c auxresume: any status other than suspended is refused the same way
		in.NormalResumes++
		return false, []Value{&Opaque{Kind: "anystring", Rest: "cannot resume normal coroutine"}}
	}
	prev := in.cur
	// save the resumer's context
	sf, sc, sh := in.frames, in.ccalls, in.handlers
	if prev != nil {
		prev.Status = "normal"
	}
	co.Status = "running"
	co.parent = prev
	in.cur = co
	in.frames, in.ccalls, in.handlers = co.frames, co.ccalls, co.handlers
	if !co.started {
		co.started = true
		go func() {
			defer func() {
				r := recover()
				if r == nil {
					return
				}
				switch x := r.(type) {
				case killed:
					return
				case *LuaError:
					co.yieldCh <- coMsg{kind: 2, err: x}
				default:
					co.yieldCh <- coMsg{kind: 3, pan: r}
				}
			}()
			vals := in.call(co.fn, args, false)
			co.yieldCh <- coMsg{kind: 1, vals: vals}
		}()
	} else {
		co.resumeCh <- args
	}
	msg := <-co.yieldCh
	co.frames, co.ccalls, co.handlers = in.frames, in.ccalls, in.handlers
	in.frames, in.ccalls, in.handlers = sf, sc, sh
	in.cur = prev
	if prev != nil {
		prev.Status = "running"
	}
	switch msg.kind {
	case 0:
		co.Status = "suspended"
		return true, msg.vals
	case 1:
		co.Status = "dead"
		return true, msg.vals
	case 2:
		co.Status = "dead"
		return false, []Value{msg.err.Value}
	}
	co.Status = "dead"
	panic(msg.pan)
}

func openCoroutine(in *Interp) {
	co := NewTable()
	in.G.Set("coroutine", co)
	reg := func(name string, f func(in *Interp, a []Value) []Value) {
		co.Set(name, &Function{Name: name, Builtin: f, Env: in.G})
	}
	create := func(in *Interp, a []Value, fname string) *Coroutine {
		fn, ok := arg(a, 0).(*Function)
		if !ok {
			in.argError(1, fname, "function expected")
		}
		c := &Coroutine{fn: fn, Status: "suspended", resumeCh: make(chan []Value), yieldCh: make(chan coMsg)}
		in.coros = append(in.coros, c)
		return c
	}
	reg("create", func(in *Interp, a []Value) []Value { return []Value{create(in, a, "create")} })
	reg("resume", func(in *Interp, a []Value) []Value {
		c, ok := arg(a, 0).(*Coroutine)
		if !ok {
			in.argError(1, "resume", "coroutine expected")
		}
		ok2, vals := in.Resume(c, a[1:])
		return append([]Value{ok2}, vals...)
	})
	reg("yield", func(in *Interp, a []Value) []Value {
		c := in.cur
		if c == nil {
			// the main thread cannot be suspended: an error either way (text not compared)
			in.throw(&Opaque{Kind: "anystring", Rest: "attempt to yield across metamethod/C-call boundary"})
		}
		if in.ccalls > 0 {
			// ldo.c lua_yield: "attempt to yield across metamethod/C-call boundary" (whether the text
			// carries a position is not compared)
			in.throw(&Opaque{Kind: "anystring", Rest: "attempt to yield across metamethod/C-call boundary"})
		}
		c.yieldCh <- coMsg{kind: 0, vals: append([]Value(nil), a...)}
		select {
		case vals := <-c.resumeCh:
			return vals
		case <-in.done:
			panic(killed{})
		}
	})
	reg("status", func(in *Interp, a []Value) []Value {
		c, ok := arg(a, 0).(*Coroutine)
		if !ok {
			in.argError(1, "status", "coroutine expected")
		}
		return []Value{c.Status}
	})
	reg("running", func(in *Interp, a []Value) []Value {
		if in.cur == nil {
			return []Value{nil}
		}
		return []Value{in.cur}
	})
	reg("wrap", func(in *Interp, a []Value) []Value {
		c := create(in, a, "wrap")
		return []Value{&Function{Name: "wrapped", Env: in.G, Builtin: func(in *Interp, a []Value) []Value {
			ok, vals := in.Resume(c, a)
			if ok {
				return vals
			}
			ev := first(vals)
			switch x := ev.(type) {
			case string:
				ev = &Opaque{Kind: "endswith", Rest: x}
			case *Opaque:
				if x.Kind == "pos" || x.Kind == "endswith" {
					ev = &Opaque{Kind: "endswith", Rest: x.Rest}
				} else {
					ev = &Opaque{Kind: "anystring", Rest: x.Rest}
				}
			}
			in.throw(ev)
			return nil
		}}}
	})
}

// CallFromHost is a call made by a host function (a C boundary for yield).
func (in *Interp) CallFromHost(fn Value, args []Value) []Value { return in.callC(fn, args) }
