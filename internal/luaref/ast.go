// Package luaref is a small tree-walking reference interpreter for the deterministic core of
// Lua 5.1 (plus goto), written from the reference manual. It is the oracle behind the program
// enumeration checks: generators build luaref terms, the printer renders them to source text in a
// chosen layout (recording token lines in the nodes), gopher-lua only ever sees the text, and this
// package evaluates the term. Nothing here shares code with the repository under test.
package luaref

// Pos records the lines (in the most recent rendering) of a node's first and last token.
type Pos struct{ First, Last int }

func (p *Pos) pos() *Pos { return p }

type Expr interface {
	expr()
	pos() *Pos
}

type (
	NilExpr   struct{ Pos }
	TrueExpr  struct{ Pos }
	FalseExpr struct{ Pos }
	NumExpr   struct {
		Pos
		V   float64
		Lit string // spelling; "" = render V
	}
	StrExpr struct {
		Pos
		V   string
		Raw string // literal spelling (e.g. a long bracket spanning lines); "" = quoted rendering of V
	}
	VarargExpr struct{ Pos }
	FuncExpr   struct {
		Pos
		Params    []string
		IsVararg  bool
		Body      *Block
		Name      string // for diagnostics only
		ParenLine int    // line of the `(` opening the parameter list (set by the printer)
		// computed by Resolve
		UsesVararg bool // body mentions `...` directly (then no compat `arg` table)
	}
	NameExpr struct {
		Pos
		Name string
	}
	IndexExpr struct {
		Pos
		Obj, Key Expr
		Dot      bool // rendered obj.name (Key must be a StrExpr holding an identifier)
	}
	CallExpr struct {
		Pos
		Fn   Expr
		Args []Expr
	}
	MethodExpr struct {
		Pos
		Obj  Expr
		Name string
		Args []Expr
	}
	ParenExpr struct {
		Pos
		E Expr
	}
	BinExpr struct {
		Pos
		Op   string // + - * / % ^ .. == ~= < <= > >= and or
		L, R Expr
	}
	UnExpr struct {
		Pos
		Op string // - not #
		E  Expr
	}
	TableExpr struct {
		Pos
		Fields []Field
	}
)

type Field struct {
	Key     Expr // nil: positional
	NameKey bool // rendered name = v (Key is a StrExpr identifier)
	Val     Expr
}

func (*NilExpr) expr()    {}
func (*TrueExpr) expr()   {}
func (*FalseExpr) expr()  {}
func (*NumExpr) expr()    {}
func (*StrExpr) expr()    {}
func (*VarargExpr) expr() {}
func (*FuncExpr) expr()   {}
func (*NameExpr) expr()   {}
func (*IndexExpr) expr()  {}
func (*CallExpr) expr()   {}
func (*MethodExpr) expr() {}
func (*ParenExpr) expr()  {}
func (*BinExpr) expr()    {}
func (*UnExpr) expr()     {}
func (*TableExpr) expr()  {}

type Block struct {
	Stats []Stat
}

// StatPos: First/Last = lines of the first/last token of the whole statement; HdrLast = line of
// the last token of the header of a compound statement (`do`, `then`, ...; == Last for simple
// statements). For repeat, HdrFirst..Last is the `until cond` part.
type StatPos struct {
	First, Last       int
	HdrFirst, HdrLast int
}

type Stat interface{ stat() *StatPos }

type (
	LocalStat struct {
		StatPos
		Names []string
		Exprs []Expr
	}
	AssignStat struct {
		StatPos
		Targets []Expr // NameExpr or IndexExpr
		Exprs   []Expr
	}
	CallStat struct {
		StatPos
		Call Expr // CallExpr or MethodExpr
	}
	DoStat struct {
		StatPos
		Body *Block
	}
	WhileStat struct {
		StatPos
		Cond Expr
		Body *Block
	}
	RepeatStat struct {
		StatPos
		Body *Block
		Cond Expr
	}
	IfStat struct {
		StatPos
		Conds       []Expr
		Blocks      []*Block
		Else        *Block
		ClauseFirst []int // line of `if` / `elseif` of clause i
		ClauseLast  []int // line of `then` of clause i
	}
	NumForStat struct {
		StatPos
		Var                string
		Start, Limit, Step Expr // Step may be nil
		Body               *Block
	}
	GenForStat struct {
		StatPos
		Names []string
		Exprs []Expr
		Body  *Block
	}
	FuncStat struct {
		StatPos
		Path   []string // a.b.c
		Method string   // ":m" part, "" if none
		Func   *FuncExpr
	}
	LocalFuncStat struct {
		StatPos
		Name string
		Func *FuncExpr
	}
	ReturnStat struct {
		StatPos
		Exprs []Expr
	}
	BreakStat struct{ StatPos }
	GotoStat  struct {
		StatPos
		Label string
	}
	LabelStat struct {
		StatPos
		Name string
	}
)

func (s *LocalStat) stat() *StatPos     { return &s.StatPos }
func (s *AssignStat) stat() *StatPos    { return &s.StatPos }
func (s *CallStat) stat() *StatPos      { return &s.StatPos }
func (s *DoStat) stat() *StatPos        { return &s.StatPos }
func (s *WhileStat) stat() *StatPos     { return &s.StatPos }
func (s *RepeatStat) stat() *StatPos    { return &s.StatPos }
func (s *IfStat) stat() *StatPos        { return &s.StatPos }
func (s *NumForStat) stat() *StatPos    { return &s.StatPos }
func (s *GenForStat) stat() *StatPos    { return &s.StatPos }
func (s *FuncStat) stat() *StatPos      { return &s.StatPos }
func (s *LocalFuncStat) stat() *StatPos { return &s.StatPos }
func (s *ReturnStat) stat() *StatPos    { return &s.StatPos }
func (s *BreakStat) stat() *StatPos     { return &s.StatPos }
func (s *GotoStat) stat() *StatPos      { return &s.StatPos }
func (s *LabelStat) stat() *StatPos     { return &s.StatPos }

// ---- construction helpers (used by generators) -------------------------------------------------

func Num(v float64) *NumExpr              { return &NumExpr{V: v} }
func NumLit(v float64, s string) *NumExpr { return &NumExpr{V: v, Lit: s} }
func Str(s string) *StrExpr               { return &StrExpr{V: s} }
func Name(n string) *NameExpr             { return &NameExpr{Name: n} }
func Nil() *NilExpr                       { return &NilExpr{} }
func True() *TrueExpr                     { return &TrueExpr{} }
func False() *FalseExpr                   { return &FalseExpr{} }
func Vararg() *VarargExpr                 { return &VarargExpr{} }
func Paren(e Expr) *ParenExpr             { return &ParenExpr{E: e} }
func Bin(op string, l, r Expr) *BinExpr   { return &BinExpr{Op: op, L: l, R: r} }
func Un(op string, e Expr) *UnExpr        { return &UnExpr{Op: op, E: e} }
func Call(f Expr, args ...Expr) *CallExpr { return &CallExpr{Fn: f, Args: args} }
func CallN(f string, args ...Expr) *CallExpr {
	return &CallExpr{Fn: Name(f), Args: args}
}
func Method(o Expr, name string, args ...Expr) *MethodExpr {
	return &MethodExpr{Obj: o, Name: name, Args: args}
}
func Index(o, k Expr) *IndexExpr { return &IndexExpr{Obj: o, Key: k} }
func Dot(o Expr, name string) *IndexExpr {
	return &IndexExpr{Obj: o, Key: Str(name), Dot: true}
}
func TableE(fields ...Field) *TableExpr { return &TableExpr{Fields: fields} }
func Pos1(v Expr) Field                 { return Field{Val: v} }
func NamedField(n string, v Expr) Field {
	return Field{Key: Str(n), NameKey: true, Val: v}
}
func KeyField(k, v Expr) Field { return Field{Key: k, Val: v} }
func Func(params []string, vararg bool, body ...Stat) *FuncExpr {
	return &FuncExpr{Params: params, IsVararg: vararg, Body: &Block{Stats: body}}
}
func Blk(stats ...Stat) *Block { return &Block{Stats: stats} }

func Local(names []string, exprs ...Expr) *LocalStat { return &LocalStat{Names: names, Exprs: exprs} }
func Local1(name string, e Expr) *LocalStat {
	if e == nil {
		return &LocalStat{Names: []string{name}}
	}
	return &LocalStat{Names: []string{name}, Exprs: []Expr{e}}
}
func Assign(targets []Expr, exprs ...Expr) *AssignStat {
	return &AssignStat{Targets: targets, Exprs: exprs}
}
func Assign1(t Expr, e Expr) *AssignStat { return &AssignStat{Targets: []Expr{t}, Exprs: []Expr{e}} }
func CallS(f Expr, args ...Expr) *CallStat {
	return &CallStat{Call: &CallExpr{Fn: f, Args: args}}
}
func Emit(args ...Expr) *CallStat { return CallS(Name("emit"), args...) }
func Do(stats ...Stat) *DoStat    { return &DoStat{Body: Blk(stats...)} }
func While(c Expr, body ...Stat) *WhileStat {
	return &WhileStat{Cond: c, Body: Blk(body...)}
}
func Repeat(c Expr, body ...Stat) *RepeatStat { return &RepeatStat{Cond: c, Body: Blk(body...)} }
func If(c Expr, then ...Stat) *IfStat {
	return &IfStat{Conds: []Expr{c}, Blocks: []*Block{Blk(then...)}}
}
func IfElse(c Expr, then []Stat, els []Stat) *IfStat {
	return &IfStat{Conds: []Expr{c}, Blocks: []*Block{Blk(then...)}, Else: Blk(els...)}
}
func NumFor(v string, a, b, step Expr, body ...Stat) *NumForStat {
	return &NumForStat{Var: v, Start: a, Limit: b, Step: step, Body: Blk(body...)}
}
func GenFor(names []string, exprs []Expr, body ...Stat) *GenForStat {
	return &GenForStat{Names: names, Exprs: exprs, Body: Blk(body...)}
}
func Return(exprs ...Expr) *ReturnStat { return &ReturnStat{Exprs: exprs} }
func Break() *BreakStat                { return &BreakStat{} }
func Goto(l string) *GotoStat          { return &GotoStat{Label: l} }
func Label(l string) *LabelStat        { return &LabelStat{Name: l} }
func LocalFunc(name string, f *FuncExpr) *LocalFuncStat {
	f.Name = name
	return &LocalFuncStat{Name: name, Func: f}
}
func FuncS(name string, f *FuncExpr) *FuncStat {
	f.Name = name
	return &FuncStat{Path: []string{name}, Func: f}
}

// VisitExprs calls f on every expression of the block (pre-order, nested function bodies
// included). f may modify the node it is given in place.
func VisitExprs(b *Block, f func(Expr)) {
	var ve func(e Expr)
	var vb func(b *Block)
	ves := func(es []Expr) {
		for _, e := range es {
			ve(e)
		}
	}
	ve = func(e Expr) {
		if e == nil {
			return
		}
		f(e)
		switch x := e.(type) {
		case *FuncExpr:
			vb(x.Body)
		case *IndexExpr:
			ve(x.Obj)
			ve(x.Key)
		case *CallExpr:
			ve(x.Fn)
			ves(x.Args)
		case *MethodExpr:
			ve(x.Obj)
			ves(x.Args)
		case *ParenExpr:
			ve(x.E)
		case *BinExpr:
			ve(x.L)
			ve(x.R)
		case *UnExpr:
			ve(x.E)
		case *TableExpr:
			for _, fl := range x.Fields {
				ve(fl.Key)
				ve(fl.Val)
			}
		}
	}
	vb = func(b *Block) {
		if b == nil {
			return
		}
		for _, st := range b.Stats {
			switch s := st.(type) {
			case *LocalStat:
				ves(s.Exprs)
			case *AssignStat:
				ves(s.Targets)
				ves(s.Exprs)
			case *CallStat:
				ve(s.Call)
			case *DoStat:
				vb(s.Body)
			case *WhileStat:
				ve(s.Cond)
				vb(s.Body)
			case *RepeatStat:
				vb(s.Body)
				ve(s.Cond)
			case *IfStat:
				ves(s.Conds)
				for _, bl := range s.Blocks {
					vb(bl)
				}
				vb(s.Else)
			case *NumForStat:
				ve(s.Start)
				ve(s.Limit)
				if s.Step != nil {
					ve(s.Step)
				}
				vb(s.Body)
			case *GenForStat:
				ves(s.Exprs)
				vb(s.Body)
			case *FuncStat:
				ve(s.Func)
			case *LocalFuncStat:
				ve(s.Func)
			case *ReturnStat:
				ves(s.Exprs)
			}
		}
	}
	vb(b)
}
