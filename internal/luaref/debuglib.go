package luaref

import "math"

// LineRange is a number the reference only knows to lie in [Lo, Hi] (a current line inside a
// statement that spans several lines). To the Lua program it is a number; computing with it makes
// the run indeterminate unless Lo == Hi.
func lineValue(lo, hi int) Value {
	if lo == hi {
		return float64(lo)
	}
	return &Opaque{Kind: "linenum", Lo: lo, Hi: hi}
}

// FreeNames returns the names a function refers to that are not bound inside it, in order of first
// occurrence (nested functions included).
func FreeNames(f *FuncExpr) []string {
	var out []string
	seen := map[string]bool{}
	var walkBlock func(b *Block, bound *nameScope)
	var walkExpr func(e Expr, bound *nameScope)
	use := func(n string, bound *nameScope) {
		if bound.has(n) || seen[n] {
			return
		}
		seen[n] = true
		out = append(out, n)
	}
	walkExprs := func(es []Expr, bound *nameScope) {
		for _, e := range es {
			walkExpr(e, bound)
		}
	}
	walkFunc := func(fe *FuncExpr, bound *nameScope) {
		b := bound
		for _, p := range fe.Params {
			b = b.with(p)
		}
		if fe.IsVararg {
			b = b.with("arg")
		}
		walkBlock(fe.Body, b)
	}
	walkExpr = func(e Expr, bound *nameScope) {
		switch x := e.(type) {
		case *NameExpr:
			use(x.Name, bound)
		case *FuncExpr:
			walkFunc(x, bound)
		case *IndexExpr:
			walkExpr(x.Obj, bound)
			walkExpr(x.Key, bound)
		case *CallExpr:
			walkExpr(x.Fn, bound)
			walkExprs(x.Args, bound)
		case *MethodExpr:
			walkExpr(x.Obj, bound)
			walkExprs(x.Args, bound)
		case *ParenExpr:
			walkExpr(x.E, bound)
		case *BinExpr:
			walkExpr(x.L, bound)
			walkExpr(x.R, bound)
		case *UnExpr:
			walkExpr(x.E, bound)
		case *TableExpr:
			for _, f := range x.Fields {
				if f.Key != nil {
					walkExpr(f.Key, bound)
				}
				walkExpr(f.Val, bound)
			}
		}
	}
	walkBlock = func(b *Block, bound *nameScope) {
		for _, st := range b.Stats {
			switch s := st.(type) {
			case *LocalStat:
				walkExprs(s.Exprs, bound)
				for _, n := range s.Names {
					bound = bound.with(n)
				}
			case *AssignStat:
				walkExprs(s.Targets, bound)
				walkExprs(s.Exprs, bound)
			case *CallStat:
				walkExpr(s.Call, bound)
			case *DoStat:
				walkBlock(s.Body, bound)
			case *WhileStat:
				walkExpr(s.Cond, bound)
				walkBlock(s.Body, bound)
			case *RepeatStat:
				// the condition sees the body's locals: approximate by walking the body with the
				// condition appended (names bound in the body hide outer ones in the condition)
				walkBlock(&Block{Stats: append(append([]Stat{}, s.Body.Stats...), &CallStat{Call: &CallExpr{Fn: s.Cond}})}, bound)
			case *IfStat:
				for i, c := range s.Conds {
					walkExpr(c, bound)
					walkBlock(s.Blocks[i], bound)
				}
				if s.Else != nil {
					walkBlock(s.Else, bound)
				}
			case *NumForStat:
				walkExpr(s.Start, bound)
				walkExpr(s.Limit, bound)
				if s.Step != nil {
					walkExpr(s.Step, bound)
				}
				walkBlock(s.Body, bound.with(s.Var))
			case *GenForStat:
				walkExprs(s.Exprs, bound)
				b := bound
				for _, n := range s.Names {
					b = b.with(n)
				}
				walkBlock(s.Body, b)
			case *FuncStat:
				use(s.Path[0], bound)
				fb := bound
				if s.Method != "" {
					fb = fb.with("self")
				}
				walkFunc(s.Func, fb)
			case *LocalFuncStat:
				bound = bound.with(s.Name)
				walkFunc(s.Func, bound)
			case *ReturnStat:
				walkExprs(s.Exprs, bound)
			}
		}
	}
	walkFunc(f, nil)
	return out
}

type nameScope struct {
	name   string
	parent *nameScope
}

func (s *nameScope) has(n string) bool {
	for ; s != nil; s = s.parent {
		if s.name == n {
			return true
		}
	}
	return false
}
func (s *nameScope) with(n string) *nameScope { return &nameScope{n, s} }

// localsOf lists the named locals in scope in frame f, in declaration order.
func localsOf(f *frame) []*scope {
	var rev []*scope
	for s := f.sc; s != nil && s != f.fn.Up; s = s.parent {
		rev = append(rev, s)
	}
	out := make([]*scope, len(rev))
	for i, s := range rev {
		out[len(rev)-1-i] = s
	}
	return out
}

func (in *Interp) levelFrame(level int, fname string) *frame {
	idx := len(in.frames) - 1 - level
	if idx < 0 || idx >= len(in.frames) {
		return nil
	}
	for i := idx + 1; i < len(in.frames)-1; i++ {
		if in.frames[i].tail {
			in.indet("debug level across a tail call")
		}
	}
	return in.frames[idx]
}

func openDebug(in *Interp) {
	d := NewTable()
	in.G.Set("debug", d)
	reg := func(name string, f func(in *Interp, a []Value) []Value) {
		d.Set(name, &Function{Name: name, Builtin: f, Env: in.G})
	}
	intArg := func(in *Interp, a []Value, i int, fname string) int {
		f, ok := arg(a, i).(float64)
		if !ok || f != math.Floor(f) {
			in.indet("debug.%s with a non-integer argument", fname)
		}
		return int(f)
	}
	reg("getinfo", func(in *Interp, a []Value) []Value {
		t := NewTable()
		var fn *Function
		switch x := arg(a, 0).(type) {
		case *Function:
			fn = x
		case float64:
			f := in.levelFrame(int(x), "getinfo")
			if f == nil {
				return []Value{nil}
			}
			fn = f.fn
			if f.isLua {
				t.Set("currentline", lineValue(f.lo, f.hi))
			} else {
				t.Set("currentline", float64(-1))
			}
		default:
			in.indet("debug.getinfo argument")
		}
		if w, ok := arg(a, 1).(string); ok {
			for _, c := range w {
				if c != 'l' && c != 'S' && c != 'f' {
					in.indet("debug.getinfo option %q", string(c))
				}
			}
		}
		if fn.Builtin != nil {
			t.Set("what", "C")
			t.Set("linedefined", float64(-1))
			t.Set("lastlinedefined", float64(-1))
		} else {
			if fn.Proto.Name == "main chunk" {
				t.Set("what", "main")
				t.Set("linedefined", float64(0))
			} else {
				t.Set("what", "Lua")
				// between the first token of the definition and the opening parenthesis
				hi := fn.Proto.ParenLine
				if hi < fn.Proto.First {
					hi = fn.Proto.First
				}
				t.Set("linedefined", lineValue(fn.Proto.First, hi))
				t.Set("lastlinedefined", float64(fn.Proto.Last))
			}
		}
		t.Set("func", fn)
		return []Value{t}
	})
	reg("getlocal", func(in *Interp, a []Value) []Value {
		level, i := intArg(in, a, 0, "getlocal"), intArg(in, a, 1, "getlocal")
		f := in.levelFrame(level, "getlocal")
		if f == nil {
			in.argError(1, "getlocal", "level out of range")
		}
		if !f.isLua {
			return []Value{nil}
		}
		ls := localsOf(f)
		if i < 1 || i > len(ls) {
			// beyond the named locals the implementation may list temporaries; programs filter names
			// starting with "(" and stop at nil
			return []Value{nil}
		}
		return []Value{ls[i-1].name, *ls[i-1].cell}
	})
	reg("setlocal", func(in *Interp, a []Value) []Value {
		level, i := intArg(in, a, 0, "setlocal"), intArg(in, a, 1, "setlocal")
		f := in.levelFrame(level, "setlocal")
		if f == nil {
			in.argError(1, "setlocal", "level out of range")
		}
		ls := localsOf(f)
		if !f.isLua || i < 1 || i > len(ls) {
			in.indet("debug.setlocal beyond the named locals")
		}
		*ls[i-1].cell = arg(a, 2)
		return []Value{ls[i-1].name}
	})
	upvals := func(in *Interp, fn *Function) []*scope {
		var out []*scope
		for _, n := range FreeNames(fn.Proto) {
			for s := fn.Up; s != nil; s = s.parent {
				if s.name == n {
					out = append(out, s)
					break
				}
			}
		}
		return out
	}
	reg("getupvalue", func(in *Interp, a []Value) []Value {
		fn, ok := arg(a, 0).(*Function)
		if !ok {
			in.argError(1, "getupvalue", "function expected")
		}
		i := intArg(in, a, 1, "getupvalue")
		if fn.Builtin != nil {
			return []Value{nil}
		}
		us := upvals(in, fn)
		if i < 1 || i > len(us) {
			return []Value{nil}
		}
		return []Value{us[i-1].name, *us[i-1].cell}
	})
	reg("setupvalue", func(in *Interp, a []Value) []Value {
		fn, ok := arg(a, 0).(*Function)
		if !ok {
			in.argError(1, "setupvalue", "function expected")
		}
		i := intArg(in, a, 1, "setupvalue")
		us := upvals(in, fn)
		if fn.Builtin != nil || i < 1 || i > len(us) {
			return []Value{nil}
		}
		*us[i-1].cell = arg(a, 2)
		return []Value{us[i-1].name}
	})
}
