package luaref

import (
	"fmt"
	"math"
	"strconv"
	"strings"
)

// Value: nil | bool | float64 | string | *Table | *Function | *Coroutine | *Userdata | *Opaque
type Value interface{}

// Opaque stands for a string whose exact text the reference does not fix: the message of a
// run-time fault ("chunk:N: <whatever>", N within [Lo,Hi]) or a position-prefixed error string
// ("chunk:N: " + Rest). To the Lua program it is a string; any operation that would inspect its
// content makes the run indeterminate.
type Opaque struct {
	Kind     string // "fault" | "pos" | "anystring" | "endswith" | "linenum"
	Lo, Hi   int    // lines of the innermost statement (or block header) being executed
	ELo, EHi int    // lines of the innermost failing expression inside it (0: not known)
	Rest     string
}

type Table struct {
	m     map[interface{}]Value
	order []interface{}
	Meta  *Table
}

func NewTable() *Table { return &Table{m: map[interface{}]Value{}} }

func normKey(k Value) interface{} {
	if f, ok := k.(float64); ok && f == 0 {
		return float64(0) // -0 and +0 are one key
	}
	return k
}

func (t *Table) Get(k Value) Value {
	if k == nil {
		return nil
	}
	if f, ok := k.(float64); ok && f != f {
		return nil
	}
	return t.m[normKey(k)]
}

// Set is a raw store; the caller has checked that k is neither nil nor NaN.
func (t *Table) Set(k, v Value) {
	k = normKey(k)
	if v == nil {
		delete(t.m, k)
		return
	}
	if _, ok := t.m[k]; !ok {
		t.order = append(t.order, k)
	}
	t.m[k] = v
}

func (t *Table) Len() int { return len(t.m) }

// Borders returns every border of t among 0..maxInt key+0 (n with (n==0 or t[n]~=nil) and t[n+1]==nil).
func (t *Table) Borders() []int {
	var out []int
	if t.m[float64(1)] == nil {
		out = append(out, 0)
	}
	for k := range t.m {
		if f, ok := k.(float64); ok && f >= 1 && f == math.Floor(f) && f < 1e15 {
			if t.m[f+1] == nil {
				out = append(out, int(f))
			}
		}
	}
	return out
}

// next in insertion order (used only when the result cannot depend on the order, see Interp).
func (t *Table) Next(k Value) (Value, Value, bool) {
	// compact order occasionally
	start := 0
	if k != nil {
		k = normKey(k)
		found := false
		for i, kk := range t.order {
			if kk == k {
				start = i + 1
				found = true
				break
			}
		}
		if !found {
			return nil, nil, false
		}
	}
	for i := start; i < len(t.order); i++ {
		kk := t.order[i]
		if v, ok := t.m[kk]; ok {
			// skip duplicates of a key re-inserted later: only the first live occurrence counts
			dup := false
			for j := 0; j < i; j++ {
				if t.order[j] == kk {
					dup = true
					break
				}
			}
			if dup {
				continue
			}
			return kk, v, true
		}
	}
	return nil, nil, true
}

type Function struct {
	Proto   *FuncExpr
	Up      *scope
	Env     *Table
	Name    string
	Builtin func(in *Interp, args []Value) []Value
}

type Userdata struct {
	Tag  float64
	Meta *Table
}

func TypeName(v Value) string {
	switch v.(type) {
	case nil:
		return "nil"
	case bool:
		return "boolean"
	case float64:
		return "number"
	case string:
		return "string"
	case *Opaque:
		if v.(*Opaque).Kind == "linenum" {
			return "number"
		}
		return "string"
	case *Table:
		return "table"
	case *Function:
		return "function"
	case *Coroutine:
		return "thread"
	case *Userdata:
		return "userdata"
	}
	panic(fmt.Sprintf("luaref: bad value %T", v))
}

func Truthy(v Value) bool {
	if v == nil {
		return false
	}
	if b, ok := v.(bool); ok {
		return b
	}
	return true
}

// Str2Num implements the string->number coercion for clean numerals: optional blanks, optional
// sign, decimal (digits[.digits][e[+-]digits] | .digits) or 0x hex digits, optional blanks.
func Str2Num(s string) (float64, bool) {
	s = strings.Trim(s, " \t\n\r\f\v")
	if s == "" {
		return 0, false
	}
	neg := false
	body := s
	if body[0] == '-' || body[0] == '+' {
		neg = body[0] == '-'
		body = body[1:]
	}
	if len(body) > 2 && body[0] == '0' && (body[1] == 'x' || body[1] == 'X') {
		var v float64
		for _, c := range body[2:] {
			var d int
			switch {
			case c >= '0' && c <= '9':
				d = int(c - '0')
			case c >= 'a' && c <= 'f':
				d = int(c-'a') + 10
			case c >= 'A' && c <= 'F':
				d = int(c-'A') + 10
			default:
				return 0, false
			}
			v = v*16 + float64(d)
		}
		if neg {
			v = -v
		}
		return v, true
	}
	// decimal grammar check
	i := 0
	nd := 0
	for i < len(body) && body[i] >= '0' && body[i] <= '9' {
		i++
		nd++
	}
	if i < len(body) && body[i] == '.' {
		i++
		for i < len(body) && body[i] >= '0' && body[i] <= '9' {
			i++
			nd++
		}
	}
	if nd == 0 {
		return 0, false
	}
	if i < len(body) && (body[i] == 'e' || body[i] == 'E') {
		i++
		if i < len(body) && (body[i] == '+' || body[i] == '-') {
			i++
		}
		ne := 0
		for i < len(body) && body[i] >= '0' && body[i] <= '9' {
			i++
			ne++
		}
		if ne == 0 {
			return 0, false
		}
	}
	if i != len(body) {
		return 0, false
	}
	v, err := strconv.ParseFloat(body, 64)
	if err != nil && !math.IsInf(v, 0) {
		return 0, false
	}
	if neg {
		v = -v
	}
	return v, true
}

// Num2Str renders a number as tostring does. ok=false when the C rendering (%.14g) and the
// shortest round-trip rendering differ, or the value is not finite, or it is -0: then the
// reference does not commit to a text.
func Num2Str(f float64) (string, bool) {
	if math.IsInf(f, 0) || f != f {
		return "", false
	}
	if f == 0 {
		if math.Signbit(f) {
			return "", false
		}
		return "0", true
	}
	if f == math.Floor(f) && math.Abs(f) < 1e14 {
		return strconv.FormatFloat(f, 'f', 0, 64), true
	}
	c := fmt.Sprintf("%.14g", f)
	short := strconv.FormatFloat(f, 'g', -1, 64)
	if c != short {
		return "", false
	}
	if strings.ContainsAny(c, "e") {
		return "", false // exponent spelling differs between C and Go renderings
	}
	return c, true
}

func RawEqual(a, b Value) bool {
	switch x := a.(type) {
	case nil:
		return b == nil
	case bool:
		y, ok := b.(bool)
		return ok && x == y
	case float64:
		y, ok := b.(float64)
		return ok && x == y
	case string:
		y, ok := b.(string)
		return ok && x == y
	}
	return a == b // pointer identity (also for *Opaque)
}
