// Package harness holds what every check shares: the run record (evidence, violations, known
// findings), replay artefacts, a shard pool and small helpers.
package harness

import (
	"crypto/sha1"
	"encoding/hex"
	"encoding/json"
	"fmt"
	"os"
	"path/filepath"
	"regexp"
	"runtime"
	"sort"
	"strconv"
	"strings"
	"sync"
	"sync/atomic"
	"time"
)

// Root is /verif (or the snapshot directory the binary was started in).
var Root = func() string {
	if r := os.Getenv("VERIF_ROOT"); r != "" {
		return r
	}
	wd, _ := os.Getwd()
	return wd
}()

// ---------------------------------------------------------------------------------------------
// known findings

type Finding struct {
	Property string `json:"property"`
	ID       string `json:"id"`
	Status   string `json:"status"` // open | fixed
	Commit   string `json:"commit,omitempty"`
	Match    string `json:"match"` // anchored regular expression over the violation signature
	What     string `json:"what"`
	re       *regexp.Regexp
}

func loadFindings(prop string) []*Finding {
	f, err := os.ReadFile(filepath.Join(Root, "KNOWN_FINDINGS.jsonl"))
	if err != nil {
		return nil
	}
	var out []*Finding
	for _, line := range strings.Split(string(f), "\n") {
		line = strings.TrimSpace(line)
		if line == "" || strings.HasPrefix(line, "#") {
			continue
		}
		var k Finding
		if err := json.Unmarshal([]byte(line), &k); err != nil {
			fmt.Fprintf(os.Stderr, "harness: bad KNOWN_FINDINGS line: %v\n", err)
			os.Exit(2)
		}
		if k.Property != prop || k.Status != "open" {
			continue
		}
		k.re = regexp.MustCompile("^(?:" + k.Match + ")$")
		out = append(out, &k)
	}
	return out
}

// ---------------------------------------------------------------------------------------------
// run record

type Violation struct {
	Sig    string      `json:"signature"`
	What   string      `json:"what"`
	Replay interface{} `json:"replay"`
}

type Run struct {
	Prop  string
	Tier  string
	Seed  int
	Level string
	start time.Time

	mu          sync.Mutex
	evals       int64
	nontrivial  map[[8]byte]struct{}
	samples     []interface{}
	sampleEvery int64
	violations  []Violation
	violSigs    map[string]int
	knownHit    map[string]int
	findings    []*Finding
	Extra       map[string]interface{}
	Assumptions []string
	Rule        string
	exhaustive  bool
	notExhWhy   []string
	counters    map[string]*int64
	Deadline    time.Time
	maxViol     int
}

func NewRun(prop, tier, level string) *Run {
	seed, _ := strconv.Atoi(os.Getenv("VERIF_SEED"))
	r := &Run{Prop: prop, Tier: tier, Seed: seed, Level: level, start: time.Now(),
		nontrivial: map[[8]byte]struct{}{}, violSigs: map[string]int{}, knownHit: map[string]int{},
		Extra: map[string]interface{}{}, exhaustive: true, counters: map[string]*int64{}, maxViol: 300}
	r.findings = loadFindings(prop)
	budget := 100 * time.Second
	if tier == "thorough" {
		budget = 20 * time.Minute
	}
	if b := os.Getenv("VERIF_BUDGET_S"); b != "" {
		if n, err := strconv.Atoi(b); err == nil {
			budget = time.Duration(n) * time.Second
		}
	}
	r.Deadline = r.start.Add(budget)
	return r
}

func (r *Run) Thorough() bool { return r.Tier == "thorough" }

// Expired reports whether the internal deadline has passed; the caller stops starting new work
// and calls NotExhaustive.
func (r *Run) Expired() bool { return time.Now().After(r.Deadline) }

func (r *Run) NotExhaustive(why string) {
	r.mu.Lock()
	defer r.mu.Unlock()
	r.exhaustive = false
	for _, w := range r.notExhWhy {
		if w == why {
			return
		}
	}
	r.notExhWhy = append(r.notExhWhy, why)
}

// Count adds n to a named counter that is reported in the evidence.
func (r *Run) Count(name string, n int64) {
	r.mu.Lock()
	p := r.counters[name]
	if p == nil {
		p = new(int64)
		r.counters[name] = p
	}
	r.mu.Unlock()
	atomic.AddInt64(p, n)
}

func hash8(s string) [8]byte {
	h := sha1.Sum([]byte(s))
	var k [8]byte
	copy(k[:], h[:8])
	return k
}

// Eval records one evaluated case. key identifies the case for distinctness; nontrivial says
// whether it counts as non-trivial by the check's rule. sample is kept for some cases.
func (r *Run) Eval(key string, nontrivial bool, sample func() interface{}) {
	n := atomic.AddInt64(&r.evals, 1)
	var k [8]byte
	if nontrivial {
		k = hash8(key)
	}
	keep := n <= 3 || isPow10(n)
	if !nontrivial && !keep {
		return
	}
	r.mu.Lock()
	if nontrivial {
		r.nontrivial[k] = struct{}{}
	}
	if keep && sample != nil && len(r.samples) < 40 {
		r.samples = append(r.samples, sample())
	}
	r.mu.Unlock()
}

// EvalN records n evaluations without distinctness bookkeeping (for inner loops whose cases are
// accounted for in aggregate by NontrivialN).
func (r *Run) EvalN(n int64) { atomic.AddInt64(&r.evals, n) }

// AddSample stores a sample unconditionally (bounded).
func (r *Run) AddSample(s interface{}) {
	r.mu.Lock()
	if len(r.samples) < 60 {
		r.samples = append(r.samples, s)
	}
	r.mu.Unlock()
}

func (r *Run) Nontrivial(key string) {
	k := hash8(key)
	r.mu.Lock()
	r.nontrivial[k] = struct{}{}
	r.mu.Unlock()
}

func isPow10(n int64) bool {
	for n >= 10 && n%10 == 0 {
		n /= 10
	}
	return n == 1
}

// Violation reports a property violation. sig is a stable, specific signature of the failing
// case class (used for known-finding matching and de-duplication); replay is written to a file.
// It returns true if this was counted as a fresh violation (not a known finding).
func (r *Run) Violation(sig, what string, replay interface{}) bool {
	r.mu.Lock()
	defer r.mu.Unlock()
	for _, k := range r.findings {
		if k.re.MatchString(sig) {
			r.knownHit[k.ID]++
			if os.Getenv("VERIF_SHOW_KNOWN") != "" && r.knownHit[k.ID] <= 3 {
				w := what
				if len(w) > 400 {
					w = w[:400]
				}
				fmt.Fprintf(os.Stderr, "known %s: signature %s\n  %s\n", k.ID, sig, strings.ReplaceAll(w, "\n", "\n  "))
			}
			return false
		}
	}
	r.violSigs[sig]++
	if r.violSigs[sig] > 1 || len(r.violations) >= r.maxViol {
		return true
	}
	r.violations = append(r.violations, Violation{sig, what, replay})
	return true
}

func (r *Run) ViolationCount() int {
	r.mu.Lock()
	defer r.mu.Unlock()
	return len(r.violSigs)
}

// Fatal is for harness errors (not property violations): exit status 2, no VIOLATION line.
func Fatal(format string, a ...interface{}) {
	fmt.Fprintf(os.Stderr, "HARNESS-ERROR: "+format+"\n", a...)
	os.Exit(2)
}

type evidence struct {
	PropertyID  string                 `json:"property_id"`
	Tier        string                 `json:"tier"`
	Seed        int                    `json:"seed"`
	Level       string                 `json:"level"`
	Coverage    map[string]interface{} `json:"coverage"`
	Assumptions []string               `json:"assumptions"`
	WallS       float64                `json:"wall_s"`
	Violations  int                    `json:"violations"`
}

// Finish writes evidence and replay files, prints the result lines and returns the exit status.
func (r *Run) Finish() int {
	r.mu.Lock()
	defer r.mu.Unlock()
	cov := map[string]interface{}{}
	for k, v := range r.Extra {
		cov[k] = v
	}
	cov["evaluations"] = atomic.LoadInt64(&r.evals)
	cov["distinct_nontrivial"] = len(r.nontrivial)
	cov["rule"] = r.Rule
	if len(r.samples) == 0 {
		r.samples = append(r.samples, "(no sample recorded)")
	}
	cov["samples"] = r.samples
	cov["exhaustive"] = r.exhaustive
	if !r.exhaustive {
		cov["not_exhaustive_because"] = r.notExhWhy
	}
	cnt := map[string]int64{}
	for k, p := range r.counters {
		cnt[k] = atomic.LoadInt64(p)
	}
	cov["counters"] = cnt
	known := []string{}
	for _, k := range r.findings {
		if n := r.knownHit[k.ID]; n > 0 {
			known = append(known, fmt.Sprintf("%s (%d cases)", k.ID, n))
			fmt.Printf("KNOWN-FINDING: property=%s %s: %s [%d cases]\n", r.Prop, k.ID, k.What, n)
		}
	}
	sort.Strings(known)
	cov["known_findings_hit"] = known
	ev := evidence{r.Prop, r.Tier, r.Seed, r.Level, cov, r.Assumptions, time.Since(r.start).Seconds(), len(r.violSigs)}
	if ev.Assumptions == nil {
		ev.Assumptions = []string{}
	}
	// runs against a scratch copy of the repository (mutation testing) keep their evidence and
	// replays in their private directory: /verif/evidence only ever describes /repo
	outRoot := Root
	if d := os.Getenv("VERIF_OUT"); d != "" {
		outRoot = d
	}
	os.MkdirAll(filepath.Join(outRoot, "evidence"), 0o755)
	b, err := json.MarshalIndent(ev, "", " ")
	if err != nil {
		Fatal("evidence marshal: %v", err)
	}
	if err := os.WriteFile(filepath.Join(outRoot, "evidence", r.Prop+".json"), append(b, '\n'), 0o644); err != nil {
		Fatal("evidence write: %v", err)
	}
	fmt.Printf("%s %s: evaluations=%d distinct_nontrivial=%d exhaustive=%v wall=%.1fs counters=%v\n", r.Prop, r.Tier,
		ev.Coverage["evaluations"], len(r.nontrivial), r.exhaustive, ev.WallS, cnt)
	if len(r.violations) == 0 {
		return 0
	}
	os.MkdirAll(filepath.Join(outRoot, "replays"), 0o755)
	for _, v := range r.violations {
		h := sha1.Sum([]byte(v.Sig))
		p := filepath.Join(outRoot, "replays", r.Prop+"-"+hex.EncodeToString(h[:6])+".json")
		b, _ := json.MarshalIndent(map[string]interface{}{"property": r.Prop, "signature": v.Sig, "what": v.What, "replay": v.Replay, "cases_with_this_signature": r.violSigs[v.Sig]}, "", " ")
		os.WriteFile(p, append(b, '\n'), 0o644)
		fmt.Printf("VIOLATION property=%s replay=%s\n", r.Prop, p)
		w := v.What
		if len(w) > 600 {
			w = w[:600] + "…"
		}
		fmt.Printf("  signature: %s\n  %s\n", v.Sig, strings.ReplaceAll(w, "\n", "\n  "))
	}
	if len(r.violSigs) > len(r.violations) {
		fmt.Printf("  (%d further violation signatures not written)\n", len(r.violSigs)-len(r.violations))
	}
	return 1
}

// ---------------------------------------------------------------------------------------------
// shard pool

// Workers is the number of parallel workers.
func Workers() int {
	if s := os.Getenv("VERIF_WORKERS"); s != "" {
		if n, err := strconv.Atoi(s); err == nil && n > 0 {
			return n
		}
	}
	n := runtime.NumCPU()
	if n > 16 {
		n = 16
	}
	return n
}

// ParallelShards runs f(shard, nshards) on Workers() goroutines; shards are taken from a queue so
// nshards may exceed the number of workers. f gets a worker index for per-worker state.
func ParallelShards(nshards int, f func(worker, shard int)) {
	w := Workers()
	if w > nshards {
		w = nshards
	}
	var next int64 = -1
	var wg sync.WaitGroup
	for i := 0; i < w; i++ {
		wg.Add(1)
		go func(worker int) {
			defer wg.Done()
			for {
				s := int(atomic.AddInt64(&next, 1))
				if s >= nshards {
					return
				}
				f(worker, s)
			}
		}(i)
	}
	wg.Wait()
}

// ---------------------------------------------------------------------------------------------
// registry of checks

type CheckFunc func(r *Run)

type checkEntry struct {
	Level string
	F     CheckFunc
}

var checks = map[string]checkEntry{}

func Register(prop, level string, f CheckFunc) { checks[prop] = checkEntry{level, f} }

func Lookup(prop string) (string, CheckFunc, bool) {
	e, ok := checks[prop]
	return e.Level, e.F, ok
}

func Registered() []string {
	var out []string
	for k := range checks {
		out = append(out, k)
	}
	sort.Strings(out)
	return out
}

// Replayers re-execute a stored replay artefact; keyed by property.
type ReplayFunc func(replay json.RawMessage) (ok bool, report string)

var replayers = map[string]ReplayFunc{}

func RegisterReplay(prop string, f ReplayFunc) { replayers[prop] = f }
func LookupReplay(prop string) ReplayFunc      { return replayers[prop] }

// WorkDir returns a fresh scratch directory under Root/.work (never /tmp).
func WorkDir(tag string) string {
	d := filepath.Join(Root, ".work", fmt.Sprintf("%s-%d", tag, os.Getpid()))
	os.MkdirAll(d, 0o755)
	return d
}
