// Package bcverify is a structural verifier for gopher-lua function prototypes.
//
// It is written from opcode.go (instruction layout) and vm.go (what every OP_* handler reads and
// writes at run time, including the three multi-word groups: OP_CLOSURE followed by NumUpvalues
// capture pseudo-instructions, OP_MOVEN followed by C further move words, OP_SETLIST with C == 0
// followed by one batch-count word) and deliberately knows nothing about compile.go: it states
// what the VM needs from a prototype, not what the compiler happens to emit.
//
// Verify walks a prototype and all nested prototypes and returns every broken rule as an Issue
// whose Class is a stable, specific string ("reg/CALL.args", "jump/into-closure-captures/JMP",
// "const/GETGLOBAL.Bx", "strconst/mismatch", "setlist/count-word/zero", "end/no-return",
// "lines/len", ...). Register rules are reported per (opcode, operand role), so that a caller can
// treat one role as a recorded finding without hiding any other.
package bcverify

import (
	"fmt"
	"sort"
	"strings"

	lua "github.com/yuin/gopher-lua"
)

// Issue is one broken rule at one place.
type Issue struct {
	Class  string // stable and specific, e.g. "reg/CALL.args"
	Proto  string // path of the prototype: "main", "main/0", "main/0/3", ...
	Pc     int    // code index (-1 for prototype-level rules)
	Detail string
}

func (i Issue) String() string {
	return fmt.Sprintf("%s at %s pc=%d: %s", i.Class, i.Proto, i.Pc, i.Detail)
}

// MaxIssuesPerClass bounds the number of issues reported per (prototype, class).
const MaxIssuesPerClass = 3

// FrameLimit is the number of registers a frame can address: operand A is 8 bits wide.
const FrameLimit = 256

// ---- instruction word layout (opcode.go: | op:6 | A:8 | C:9 | B:9 |, Bx = C:B, sBx = Bx - 131071)

const maxArgSbx = (1<<18 - 1) >> 1

func opOf(i uint32) int  { return int(i >> 26) }
func argA(i uint32) int  { return int(i>>18) & 0xff }
func argB(i uint32) int  { return int(i & 0x1ff) }
func argC(i uint32) int  { return int(i>>9) & 0x1ff }
func argBx(i uint32) int { return int(i & 0x3ffff) }
func argSbx(i uint32) int {
	return argBx(i) - maxArgSbx
}

const bitRK = 1 << 8

var opNames = map[int]string{
	lua.OP_MOVE: "MOVE", lua.OP_MOVEN: "MOVEN", lua.OP_LOADK: "LOADK", lua.OP_LOADBOOL: "LOADBOOL",
	lua.OP_LOADNIL: "LOADNIL", lua.OP_GETUPVAL: "GETUPVAL", lua.OP_GETGLOBAL: "GETGLOBAL",
	lua.OP_GETTABLE: "GETTABLE", lua.OP_GETTABLEKS: "GETTABLEKS", lua.OP_SETGLOBAL: "SETGLOBAL",
	lua.OP_SETUPVAL: "SETUPVAL", lua.OP_SETTABLE: "SETTABLE", lua.OP_SETTABLEKS: "SETTABLEKS",
	lua.OP_NEWTABLE: "NEWTABLE", lua.OP_SELF: "SELF", lua.OP_ADD: "ADD", lua.OP_SUB: "SUB",
	lua.OP_MUL: "MUL", lua.OP_DIV: "DIV", lua.OP_MOD: "MOD", lua.OP_POW: "POW", lua.OP_UNM: "UNM",
	lua.OP_NOT: "NOT", lua.OP_LEN: "LEN", lua.OP_CONCAT: "CONCAT", lua.OP_JMP: "JMP", lua.OP_EQ: "EQ",
	lua.OP_LT: "LT", lua.OP_LE: "LE", lua.OP_TEST: "TEST", lua.OP_TESTSET: "TESTSET", lua.OP_CALL: "CALL",
	lua.OP_TAILCALL: "TAILCALL", lua.OP_RETURN: "RETURN", lua.OP_FORLOOP: "FORLOOP",
	lua.OP_FORPREP: "FORPREP", lua.OP_TFORLOOP: "TFORLOOP", lua.OP_SETLIST: "SETLIST",
	lua.OP_CLOSE: "CLOSE", lua.OP_CLOSURE: "CLOSURE", lua.OP_VARARG: "VARARG", lua.OP_NOP: "NOP",
}

// OpName returns the mnemonic of an opcode number ("" when it is not an opcode).
func OpName(op int) string { return opNames[op] }

// word kinds of the linear decode
const (
	kStart        byte = iota // first word of an instruction
	kCapture                  // capture pseudo-instruction after OP_CLOSURE
	kMovenTail                // further move word of an OP_MOVEN group
	kSetlistCount             // batch-count word after OP_SETLIST with C == 0
)

type verifier struct {
	p        *lua.FunctionProto
	path     string
	issues   []Issue
	perClass map[string]int
	nreg     int
	n        int
	kind     []byte
	glen     []int // length in words of the group starting at pc (valid where kind == kStart)
	strs     []string
	nup      int            // upvalue count the operands are checked against
	implicit map[int]string // register -> instruction kind that writes it without naming it in a plain A operand
}

func (v *verifier) add(class string, pc int, format string, a ...interface{}) {
	v.perClass[class]++
	if v.perClass[class] > MaxIssuesPerClass {
		return
	}
	v.issues = append(v.issues, Issue{Class: class, Proto: v.path, Pc: pc, Detail: fmt.Sprintf(format, a...)})
}

// reg checks one register operand (or the highest register of an operand range).
func (v *verifier) reg(role string, pc, r int) {
	switch {
	case r < 0:
		v.add("regneg/"+role, pc, "register %d", r)
	case r >= FrameLimit:
		v.add("regmax/"+role, pc, "register %d is outside what a frame can address (%d)", r, FrameLimit)
	case r >= v.nreg:
		if w, ok := v.implicit[r]; ok && !rootRoles[role] {
			// the register is one that a FORLOOP / TFORLOOP / CLOSURE / VARARG of this function writes:
			// the operand is out of range because that writer's register is (reported separately)
			v.add("reg/"+role+"<-"+w, pc, "register %d >= NumUsedRegisters %d (the register is written by a %s of this function)", r, v.nreg, w)
			return
		}
		v.add("reg/"+role, pc, "register %d >= NumUsedRegisters %d", r, v.nreg)
	}
}

// rootRoles are the operand roles through which the implicit writers themselves name their registers.
var rootRoles = map[string]bool{"FORLOOP.A+3": true, "TFORLOOP.vars": true, "TFORLOOP.calltmp": true, "CLOSURE.A": true, "VARARG.A": true, "VARARG.range": true}

// rk checks an operand the VM reads through rkValue: constant when bit 8 is set, else register.
func (v *verifier) rk(role string, pc, x int) {
	if x&bitRK != 0 {
		if k := x &^ bitRK; k >= len(v.p.Constants) {
			v.add("const/"+role, pc, "constant index %d >= len(Constants) %d", k, len(v.p.Constants))
		}
		return
	}
	v.reg(role, pc, x)
}

// strK checks a constant index the VM reads from stringConstants.
func (v *verifier) strK(role string, pc, k int) {
	if k >= len(v.p.Constants) {
		v.add("const/"+role, pc, "constant index %d >= len(Constants) %d", k, len(v.p.Constants))
		return
	}
	if k >= len(v.strs) {
		v.add("strconst/"+role+".index", pc, "constant index %d >= len(stringConstants) %d", k, len(v.strs))
		return
	}
	if _, ok := v.p.Constants[k].(lua.LString); !ok {
		v.add("strconst/"+role, pc, "string-keyed operand names constant %d which is %T %v, not a string", k, v.p.Constants[k], v.p.Constants[k])
	}
}

// rkStr checks an operand the VM reads through rkString.
func (v *verifier) rkStr(role string, pc, x int) {
	if x&bitRK != 0 {
		v.strK(role, pc, x&^bitRK)
		return
	}
	v.reg(role, pc, x)
	// register form: the VM asserts that the register holds an LString. The nearest preceding
	// LOADK into that register must load a string constant.
	for q := pc - 1; q >= 0; q-- {
		if v.kind[q] != kStart {
			continue
		}
		w := v.p.Code[q]
		if opOf(w) == lua.OP_LOADK && argA(w) == x {
			if k := argBx(w); k < len(v.p.Constants) {
				if _, ok := v.p.Constants[k].(lua.LString); !ok {
					v.add("strkey/"+role+".reg-nonstring", pc, "register %d was loaded from constant %d (%T), not a string", x, k, v.p.Constants[k])
				}
			}
			return
		}
	}
	v.add("strkey/"+role+".reg-no-loadk", pc, "string-keyed operand is register %d and no LOADK into it precedes", x)
}

func (v *verifier) upval(role string, pc, b int) {
	if b >= v.nup {
		v.add("upval/"+role, pc, "upvalue index %d >= NumUpvalues %d", b, v.nup)
	}
}

// target checks a control transfer from pc to t. what is "jump" or "skip".
func (v *verifier) target(what, op string, pc, t int) bool {
	if t < 0 || t >= v.n {
		// a displacement beyond the 18-bit sBx field that was stored modulo 2^18 shows up 2^18 away
		t2 := t - 1<<18
		if t < 0 {
			t2 = t + 1<<18
		}
		if t2 >= 0 && t2 < v.n {
			v.add(what+"/wrapped/"+op, pc, "target %d outside [0,%d): the displacement does not fit sBx (|d| <= %d) and was stored modulo 2^18 (intended target %d)", t, v.n, maxArgSbx, t2)
		} else {
			v.add(what+"/out-of-range/"+op, pc, "target %d outside [0,%d)", t, v.n)
		}
		return false
	}
	switch v.kind[t] {
	case kCapture:
		v.add(what+"/into-closure-captures/"+op, pc, "target %d is a capture word of a CLOSURE group", t)
		return false
	case kSetlistCount:
		v.add(what+"/into-setlist-count/"+op, pc, "target %d is the batch-count word of a SETLIST", t)
		return false
	case kMovenTail:
		// each tail word is itself a complete MOVE, so control can continue there
		v.add(what+"/into-moven-tail/"+op, pc, "target %d is a tail word of a MOVEN group", t)
		return true
	}
	return true
}

// Verify checks p and, recursively, every nested prototype.
func Verify(p *lua.FunctionProto) []Issue {
	var out []Issue
	seen := map[*lua.FunctionProto]bool{}
	var walk func(p *lua.FunctionProto, path string)
	walk = func(p *lua.FunctionProto, path string) {
		if p == nil {
			out = append(out, Issue{Class: "proto/nil", Proto: path, Pc: -1, Detail: "nil prototype"})
			return
		}
		if seen[p] {
			return
		}
		seen[p] = true
		out = append(out, VerifyOne(p, path)...)
		for i, c := range p.FunctionPrototypes {
			walk(c, fmt.Sprintf("%s/%d", path, i))
		}
	}
	walk(p, "main")
	return out
}

// Count returns the number of prototypes (p and all nested ones) and of code words.
func Count(p *lua.FunctionProto) (protos, words int) {
	if p == nil {
		return 0, 0
	}
	protos, words = 1, len(p.Code)
	for _, c := range p.FunctionPrototypes {
		a, b := Count(c)
		protos += a
		words += b
	}
	return
}

// Classes returns the sorted distinct classes of a list of issues.
func Classes(is []Issue) []string {
	m := map[string]bool{}
	for _, i := range is {
		m[i.Class] = true
	}
	out := make([]string, 0, len(m))
	for k := range m {
		out = append(out, k)
	}
	sort.Strings(out)
	return out
}

// VerifyOne checks a single prototype (not its children).
func VerifyOne(p *lua.FunctionProto, path string) []Issue {
	v := &verifier{p: p, path: path, perClass: map[string]int{}, nreg: int(p.NumUsedRegisters), n: len(p.Code)}
	v.strs = p.VerifStringConstants()
	code := p.Code

	// ---- prototype-level rules
	if len(p.DbgSourcePositions) != len(code) {
		v.add("lines/len", -1, "len(DbgSourcePositions) = %d, len(Code) = %d", len(p.DbgSourcePositions), len(code))
	}
	if int(p.NumParameters) > v.nreg {
		v.add("frame/NumParameters>NumUsedRegisters", -1, "NumParameters %d > NumUsedRegisters %d", p.NumParameters, p.NumUsedRegisters)
	}
	v.nup = int(p.NumUpvalues)
	if v.nup != len(p.DbgUpvalues) {
		if len(p.DbgUpvalues) > 255 && len(p.DbgUpvalues)%256 == v.nup {
			// the 8-bit field wrapped; operands are checked against the named count so that this one
			// defect is reported once
			v.add("upval/count-wrapped", -1, "NumUpvalues = %d but %d upvalues are named and captured by the enclosing CLOSURE (the count wrapped modulo 256)", p.NumUpvalues, len(p.DbgUpvalues))
			v.nup = len(p.DbgUpvalues)
		} else {
			v.add("upval/count-mismatch", -1, "NumUpvalues = %d but %d upvalues are named", p.NumUpvalues, len(p.DbgUpvalues))
		}
	}
	if len(v.strs) != len(p.Constants) {
		v.add("strconst/len", -1, "len(stringConstants) = %d, len(Constants) = %d", len(v.strs), len(p.Constants))
	}
	for i, c := range p.Constants {
		if c == nil {
			v.add("const/nil-entry", -1, "Constants[%d] is a nil interface", i)
			continue
		}
		if s, ok := c.(lua.LString); ok && i < len(v.strs) && v.strs[i] != string(s) {
			v.add("strconst/mismatch", -1, "Constants[%d] = %q but stringConstants[%d] = %q", i, string(s), i, v.strs[i])
		}
	}
	fl := p.IsVarArg
	if fl&^(lua.VarArgHasArg|lua.VarArgIsVarArg|lua.VarArgNeedsArg) != 0 {
		v.add("vararg/unknown-bits", -1, "IsVarArg = %d", fl)
	}
	if fl&lua.VarArgNeedsArg != 0 && fl&lua.VarArgHasArg == 0 {
		v.add("vararg/needsarg-without-hasarg", -1, "IsVarArg = %d", fl)
	}
	if fl&(lua.VarArgHasArg|lua.VarArgNeedsArg) != 0 && fl&lua.VarArgIsVarArg == 0 {
		v.add("vararg/hasarg-without-isvararg", -1, "IsVarArg = %d", fl)
	}
	if fl&lua.VarArgIsVarArg != 0 && lua.CompatVarArg && int(p.NumParameters) >= v.nreg {
		// initCallFrame stores the compat 'arg' table (or nil) in register NumParameters
		v.add("vararg/arg-register", -1, "vararg frame writes register %d, NumUsedRegisters = %d", p.NumParameters, v.nreg)
	}
	if v.n == 0 {
		v.add("end/empty-code", -1, "prototype has no code")
		return v.issues
	}

	// ---- pass 1: linear decode into instruction groups
	v.kind = make([]byte, v.n)
	v.glen = make([]int, v.n)
	mark := func(from, cnt int, k byte, class string, pc int) int {
		got := 0
		for i := 0; i < cnt; i++ {
			if from+i >= v.n {
				v.add(class, pc, "group needs %d further words, code ends after %d", cnt, got)
				break
			}
			v.kind[from+i] = k
			got++
		}
		return got
	}
	for pc := 0; pc < v.n; {
		w := code[pc]
		l := 1
		switch opOf(w) {
		case lua.OP_CLOSURE:
			if bx := argBx(w); bx < len(p.FunctionPrototypes) && p.FunctionPrototypes[bx] != nil {
				l += mark(pc+1, int(p.FunctionPrototypes[bx].NumUpvalues), kCapture, "group/CLOSURE.truncated", pc)
			}
		case lua.OP_MOVEN:
			l += mark(pc+1, argC(w), kMovenTail, "group/MOVEN.truncated", pc)
		case lua.OP_SETLIST:
			if argC(w) == 0 {
				l += mark(pc+1, 1, kSetlistCount, "group/SETLIST.truncated", pc)
			}
		}
		v.glen[pc] = l
		pc += l
	}

	// registers written by instructions that do not name them in a plain A operand
	v.implicit = map[int]string{}
	for _, kindName := range []string{"VARARG", "CLOSURE", "TFORLOOP", "FORLOOP"} { // later entries take precedence
		for pc := 0; pc < v.n; pc += v.glen[pc] {
			w := code[pc]
			if opNames[opOf(w)] != kindName {
				continue
			}
			a, b, c := argA(w), argB(w), argC(w)
			switch opOf(w) {
			case lua.OP_FORLOOP:
				v.implicit[a+3] = kindName
			case lua.OP_TFORLOOP:
				hi := a + 2 + c
				if hi < a+5 {
					hi = a + 5
				}
				for r := a + 3; r <= hi; r++ {
					v.implicit[r] = kindName
				}
			case lua.OP_CLOSURE:
				v.implicit[a] = kindName
			case lua.OP_VARARG:
				v.implicit[a] = kindName
				for r := a; r <= a+b-2; r++ {
					v.implicit[r] = kindName
				}
			}
		}
	}

	// ---- pass 2: operands of every instruction
	usesVararg := false
	expectBatch := map[int]int{} // table register -> next batch number of the constructor in progress
	lastB := map[int]int{}       // table register -> B of its previous SETLIST
	prevStart := -1              // previous instruction start (linear order)
	succ := make([][]int, v.n)   // control successors, for reachability

	for pc := 0; pc < v.n; pc += v.glen[pc] {
		w := code[pc]
		op := opOf(w)
		name, known := opNames[op]
		a, b, c := argA(w), argB(w), argC(w)
		next := pc + v.glen[pc]
		if !known {
			v.add("op/invalid", pc, "opcode %d is not an instruction (word %#x)", op, w)
			succ[pc] = []int{next}
			prevStart = pc
			continue
		}
		succ[pc] = []int{next}

		// open-operand pairing: B == 0 consumers take their upper bound from reg.top, which is only
		// defined immediately after a CALL or a VARARG
		consumer := (op == lua.OP_CALL || op == lua.OP_TAILCALL || op == lua.OP_RETURN || op == lua.OP_SETLIST) && b == 0
		if consumer {
			ok := false
			if prevStart >= 0 {
				pw := code[prevStart]
				switch opOf(pw) {
				case lua.OP_CALL, lua.OP_VARARG:
					// every CALL and VARARG leaves reg.top just above its last result (copyReturnValues,
					// CopyRange), also when the result count is fixed
					ok = true
				case lua.OP_TAILCALL:
					ok = true // never falls through; a RETURN A 0 conventionally follows
				}
				if ok {
					min := a
					if op != lua.OP_RETURN {
						min = a + 1
					}
					if argA(pw) < min {
						v.add("open/range/"+name, pc, "open operand range starts at register %d but the preceding multi-value instruction delivers from register %d", min, argA(pw))
					}
				}
			}
			if !ok {
				v.add("open/consumer-without-producer/"+name, pc, "B == 0 (operands up to reg.top) but the preceding instruction is not a CALL/VARARG, so reg.top is not the end of a value list")
			}
		}
		if prevStart >= 0 {
			pw := code[prevStart]
			producer := (opOf(pw) == lua.OP_CALL && argC(pw) == 0) || (opOf(pw) == lua.OP_VARARG && argB(pw) == 0)
			if producer && !consumer {
				v.add("open/producer-without-consumer/"+opNames[opOf(pw)], prevStart, "open result is not consumed by the next instruction (%s)", name)
			}
		}

		switch op {
		case lua.OP_MOVE:
			v.reg("MOVE.A", pc, a)
			v.reg("MOVE.B", pc, b)
		case lua.OP_MOVEN:
			v.reg("MOVEN.A", pc, a)
			v.reg("MOVEN.B", pc, b)
			for q := pc + 1; q < next; q++ {
				tw := code[q]
				if opOf(tw) != lua.OP_MOVE {
					v.add("group/MOVEN.tail-op", q, "tail word of MOVEN is %s, not MOVE", opNames[opOf(tw)])
				}
				v.reg("MOVEN.tail.A", q, argA(tw))
				v.reg("MOVEN.tail.B", q, argB(tw))
			}
		case lua.OP_LOADK:
			v.reg("LOADK.A", pc, a)
			if bx := argBx(w); bx >= len(p.Constants) {
				v.add("const/LOADK.Bx", pc, "constant index %d >= len(Constants) %d", bx, len(p.Constants))
			}
		case lua.OP_LOADBOOL:
			v.reg("LOADBOOL.A", pc, a)
			if c != 0 {
				succ[pc] = []int{next + 1}
				v.target("skip", name, pc, next+1) // a multi-word group at next makes the skip land inside it
			}
		case lua.OP_LOADNIL:
			v.reg("LOADNIL.A", pc, a)
			v.reg("LOADNIL.B", pc, b)
		case lua.OP_GETUPVAL:
			v.reg("GETUPVAL.A", pc, a)
			v.upval("GETUPVAL.B", pc, b)
		case lua.OP_GETGLOBAL:
			v.reg("GETGLOBAL.A", pc, a)
			v.strK("GETGLOBAL.Bx", pc, argBx(w))
		case lua.OP_SETGLOBAL:
			v.reg("SETGLOBAL.A", pc, a)
			v.strK("SETGLOBAL.Bx", pc, argBx(w))
		case lua.OP_GETTABLE:
			v.reg("GETTABLE.A", pc, a)
			v.reg("GETTABLE.B", pc, b)
			v.rk("GETTABLE.C", pc, c)
		case lua.OP_GETTABLEKS:
			v.reg("GETTABLEKS.A", pc, a)
			v.reg("GETTABLEKS.B", pc, b)
			v.rkStr("GETTABLEKS.C", pc, c)
		case lua.OP_SETUPVAL:
			v.reg("SETUPVAL.A", pc, a)
			v.upval("SETUPVAL.B", pc, b)
		case lua.OP_SETTABLE:
			v.reg("SETTABLE.A", pc, a)
			v.rk("SETTABLE.B", pc, b)
			v.rk("SETTABLE.C", pc, c)
		case lua.OP_SETTABLEKS:
			v.reg("SETTABLEKS.A", pc, a)
			v.rkStr("SETTABLEKS.B", pc, b)
			v.rk("SETTABLEKS.C", pc, c)
		case lua.OP_NEWTABLE:
			v.reg("NEWTABLE.A", pc, a)
			expectBatch[a] = 1
			delete(lastB, a)
		case lua.OP_SELF:
			v.reg("SELF.A+1", pc, a+1)
			v.reg("SELF.B", pc, b)
			v.rkStr("SELF.C", pc, c)
		case lua.OP_ADD, lua.OP_SUB, lua.OP_MUL, lua.OP_DIV, lua.OP_MOD, lua.OP_POW:
			v.reg(name+".A", pc, a)
			v.rk(name+".B", pc, b)
			v.rk(name+".C", pc, c)
		case lua.OP_UNM, lua.OP_LEN:
			v.reg(name+".A", pc, a)
			v.rk(name+".B", pc, b) // read through rkValue
		case lua.OP_NOT:
			v.reg("NOT.A", pc, a)
			v.reg("NOT.B", pc, b)
		case lua.OP_CONCAT:
			v.reg("CONCAT.A", pc, a)
			v.reg("CONCAT.B", pc, b)
			v.reg("CONCAT.C", pc, c)
		case lua.OP_JMP:
			t := next + argSbx(w)
			succ[pc] = []int{t}
			v.target("jump", name, pc, t)
		case lua.OP_EQ, lua.OP_LT, lua.OP_LE:
			v.rk(name+".B", pc, b)
			v.rk(name+".C", pc, c)
		case lua.OP_TEST:
			v.reg("TEST.A", pc, a)
		case lua.OP_TESTSET:
			v.reg("TESTSET.A", pc, a)
			v.reg("TESTSET.B", pc, b)
		case lua.OP_CALL:
			v.reg("CALL.A", pc, a)
			if b >= 2 {
				v.reg("CALL.args", pc, a+b-1)
			}
			if c >= 2 {
				v.reg("CALL.rets", pc, a+c-2)
			}
		case lua.OP_TAILCALL:
			v.reg("TAILCALL.A", pc, a)
			if b >= 2 {
				v.reg("TAILCALL.args", pc, a+b-1)
			}
			succ[pc] = nil // the frame is replaced (Lua callee) or removed (Go callee)
		case lua.OP_RETURN:
			if b != 1 {
				v.reg("RETURN.A", pc, a)
			}
			if b >= 2 {
				v.reg("RETURN.range", pc, a+b-2)
			}
			succ[pc] = nil
		case lua.OP_FORLOOP:
			v.reg("FORLOOP.A+2", pc, a+2)
			v.reg("FORLOOP.A+3", pc, a+3)
			t := next + argSbx(w)
			succ[pc] = []int{next, t}
			v.target("jump", name, pc, t)
		case lua.OP_FORPREP:
			v.reg("FORPREP.A+2", pc, a+2)
			t := next + argSbx(w)
			succ[pc] = []int{t}
			v.target("jump", name, pc, t)
		case lua.OP_TFORLOOP:
			v.reg("TFORLOOP.A+2", pc, a+2)
			if c >= 1 {
				v.reg("TFORLOOP.vars", pc, a+2+c)
			}
			v.reg("TFORLOOP.calltmp", pc, a+5) // the handler always stages the call in A+3..A+5
			// the handler reads the next word as a JMP: continue at (pc+2)+sBx, leave at pc+2
			if next >= v.n || v.kind[next] != kStart || opOf(code[next]) != lua.OP_JMP {
				v.add("tforloop/no-jmp", pc, "TFORLOOP is not followed by a JMP word")
				succ[pc] = []int{next + 1}
			} else {
				t := next + 1 + argSbx(code[next])
				succ[pc] = []int{next + 1, t}
				v.target("jump", name, pc, t)
			}
			v.target("skip", name, pc, next+1)
		case lua.OP_SETLIST:
			v.reg("SETLIST.A", pc, a)
			if b >= 1 {
				v.reg("SETLIST.items", pc, a+b)
			}
			fpf := lua.FieldsPerFlush
			batch := c
			if c == 0 {
				batch = -1
				if pc+1 < v.n {
					batch = int(code[pc+1])
				}
			}
			if want, ok := expectBatch[a]; !ok {
				v.add("setlist/no-newtable", pc, "SETLIST on register %d without a preceding NEWTABLE into it", a)
			} else {
				if batch != want {
					switch {
					case c == 0 && batch == 0:
						v.add("setlist/count-word/zero", pc, "extended SETLIST: batch-count word is 0, the constructor is at batch %d (items would be stored from index %d)", want, (batch-1)*fpf+1)
					case c == 0:
						v.add("setlist/count-word/wrong", pc, "extended SETLIST: batch-count word is %d, the constructor is at batch %d", batch, want)
					case batch == want-1:
						form := "fixed" // B > 0
						if b == 0 {
							form = "open-unfed" // B == 0 and no multi-value instruction feeds it
							if prevStart >= 0 {
								pw := code[prevStart]
								if (opOf(pw) == lua.OP_CALL && argC(pw) == 0) || (opOf(pw) == lua.OP_VARARG && argB(pw) == 0) {
									form = "open"
								}
							}
						}
						v.add("setlist/batch-repeated/"+form, pc, "SETLIST (B=%d) stores batch %d again (the constructor is at batch %d)", b, batch, want)
					default:
						v.add("setlist/batch-sequence", pc, "SETLIST stores batch %d, the constructor is at batch %d", batch, want)
					}
				}
				if pb, ok := lastB[a]; ok && batch == want && pb != fpf {
					v.add("setlist/short-batch", pc, "previous batch of this constructor stored %d items, a non-final batch must store FieldsPerFlush = %d", pb, fpf)
				}
				if batch == want {
					expectBatch[a] = want + 1
					lastB[a] = b
				}
			}
			if b > fpf {
				v.add("setlist/B>FieldsPerFlush", pc, "B = %d", b)
			}
		case lua.OP_CLOSE:
			v.reg("CLOSE.A", pc, a)
		case lua.OP_CLOSURE:
			v.reg("CLOSURE.A", pc, a)
			bx := argBx(w)
			if bx >= len(p.FunctionPrototypes) {
				v.add("proto/CLOSURE.Bx", pc, "prototype index %d >= len(FunctionPrototypes) %d", bx, len(p.FunctionPrototypes))
			}
			for q := pc + 1; q < next; q++ {
				cw := code[q]
				switch opOf(cw) {
				case lua.OP_MOVE:
					v.reg("CLOSURE.capture.B", q, argB(cw))
				case lua.OP_GETUPVAL:
					v.upval("CLOSURE.capture.B", q, argB(cw))
				default:
					v.add("closure/capture-op", q, "capture word %d of CLOSURE at %d is %s, the VM only understands MOVE and GETUPVAL", q-pc, pc, opNames[opOf(cw)])
				}
			}
		case lua.OP_VARARG:
			usesVararg = true
			v.reg("VARARG.A", pc, a)
			if b >= 3 {
				v.reg("VARARG.range", pc, a+b-2)
			}
		case lua.OP_NOP:
		}

		switch op {
		case lua.OP_EQ, lua.OP_LT, lua.OP_LE, lua.OP_TEST, lua.OP_TESTSET:
			succ[pc] = []int{next, next + 1}
			v.target("skip", name, pc, next+1) // a multi-word group at next makes the skip land inside it
		}
		prevStart = pc
	}
	if usesVararg && fl&lua.VarArgIsVarArg == 0 {
		v.add("vararg/VARARG-in-fixed-function", -1, "OP_VARARG used but IsVarArg = %d", fl)
	}

	// ---- the code ends in a return; nothing reachable falls off the end
	last := -1
	for pc := 0; pc < v.n; pc += v.glen[pc] {
		last = pc
	}
	if last < 0 || last+v.glen[last] != v.n || v.glen[last] != 1 || opOf(code[last]) != lua.OP_RETURN {
		v.add("end/no-return", last, "the last instruction is %s, not RETURN", opNames[opOf(code[last])])
	}
	reach := make([]bool, v.n+1)
	stack := []int{0}
	for len(stack) > 0 {
		pc := stack[len(stack)-1]
		stack = stack[:len(stack)-1]
		if pc < 0 || pc > v.n || reach[pc] {
			continue
		}
		reach[pc] = true
		if pc == v.n {
			continue
		}
		if v.kind[pc] == kMovenTail {
			stack = append(stack, pc+1) // a tail word entered by a jump runs as a plain MOVE
			continue
		}
		if v.kind[pc] != kStart {
			continue // reported as a bad target already
		}
		stack = append(stack, succ[pc]...)
	}
	if reach[v.n] {
		from := -1
		for pc := 0; pc < v.n; pc += v.glen[pc] {
			if !reach[pc] {
				continue
			}
			for _, s := range succ[pc] {
				if s == v.n {
					from = pc
				}
			}
		}
		v.add("end/fall-off", from, "control can run past the last code word")
	}
	return v.issues
}

// Disasm renders one prototype's code compactly (for violation reports).
func Disasm(p *lua.FunctionProto, lo, hi int) string {
	var sb strings.Builder
	if lo < 0 {
		lo = 0
	}
	if hi > len(p.Code) {
		hi = len(p.Code)
	}
	for pc := lo; pc < hi; pc++ {
		w := p.Code[pc]
		fmt.Fprintf(&sb, "[%d] %s A=%d B=%d C=%d Bx=%d sBx=%d\n", pc, opNames[opOf(w)], argA(w), argB(w), argC(w), argBx(w), argSbx(w))
	}
	return sb.String()
}
