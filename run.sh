#!/bin/bash
# ./run.sh <Cnn> [quick|thorough]   |   ./run.sh replay <file>   |   ./run.sh build
# Rebuilds the checker from /repo's current working tree (hooks supplied through a build overlay,
# build tag "verif") and runs one check.
set -u
cd "$(dirname "$0")"
ROOT="$(pwd)"
export VERIF_ROOT="$ROOT"
export GOFLAGS=-mod=mod GOPROXY=off GOSUMDB=off GOTOOLCHAIN=local
REPO="${VERIF_REPO:-/repo}"
WORK="$ROOT/.work"
BIN="$ROOT/bin"
if [ "$REPO" != "/repo" ]; then
  # a different repository copy (mutation testing): private build directory and binaries, so that
  # concurrent runs against different copies cannot pick up each other's build
  H=$(echo "$REPO" | md5sum | cut -c1-10)
  WORK="$ROOT/.work/alt-$H"
  BIN="$WORK/bin"
  export VERIF_OUT="$WORK"
fi
mkdir -p "$WORK" "$BIN" "$ROOT/bin"

build() {
  local lock="$WORK/build.lock"
  exec 9>"$lock"
  flock 9
  # module file with the replace directive pointing at the repository being checked
  sed "s#^replace github.com/yuin/gopher-lua => .*#replace github.com/yuin/gopher-lua => $REPO#" go.mod > "$WORK/go.mod"
  cp "$REPO/go.sum" "$WORK/go.sum" 2>/dev/null || true
  MODFLAG="-modfile=$WORK/go.mod"
  # instrumented copy of channellib.go (import "reflect" -> shim), regenerated from the current file
  if ! go run $MODFLAG ./cmd/instr "$REPO/channellib.go" "$WORK/channellib_instr.go" >"$WORK/instr.log" 2>&1; then
    cat "$WORK/instr.log" >&2; echo "HARNESS-ERROR: instrumenting channellib.go failed" >&2; exit 2
  fi
  cat > "$WORK/overlay.json" <<JSON
{"Replace": {
  "$REPO/verif_access.go": "$ROOT/overlay/lua/verif_access.go",
  "$REPO/channellib.go": "$WORK/channellib_instr.go",
  "$REPO/verifshim/rshim/rshim.go": "$ROOT/overlay/rshim/rshim.go"
}}
JSON
  if ! go build $MODFLAG -tags verif -overlay "$WORK/overlay.json" -o "$BIN/check" ./cmd/check >"$WORK/build.log" 2>&1; then
    cat "$WORK/build.log" >&2; echo "HARNESS-ERROR: build failed" >&2; exit 2
  fi
  if [ "${1:-}" = "C13" ]; then
    # free-running bodies under the race detector (complement of the cooperative scheduler)
    if ! go build $MODFLAG -race -tags verif -overlay "$WORK/overlay.json" -o "$BIN/racepass" ./cmd/racepass >"$WORK/build-race.log" 2>&1; then
      cat "$WORK/build-race.log" >&2; echo "HARNESS-ERROR: race build failed" >&2; exit 2
    fi
  fi
  flock -u 9
}

case "${1:-}" in
  build) build C13; exit 0;;
  "") echo "usage: run.sh <Cnn> [quick|thorough] | replay <file> | build" >&2; exit 2;;
esac
build "$@"
export VERIF_BIN="$BIN"
exec "$BIN/check" "$@"
