#!/bin/bash
# ./run.sh <Cnn> [quick|thorough]   |   ./run.sh replay <file>   |   ./run.sh build
# Rebuilds the checker from /repo's current working tree (hooks supplied through a build overlay,
# build tag "verif") and runs one check.
set -u
cd "$(dirname "$0")"
ROOT="$(pwd)"
export VERIF_ROOT="$ROOT"
export GOFLAGS=-mod=mod GOPROXY=off GOSUMDB=off GOTOOLCHAIN=local
REPO="${VERIF_REPO:-/repo}"
WORK="$ROOT/.work"
BIN="$ROOT/bin"
if [ "$REPO" != "/repo" ]; then
  # a different repository copy (mutation testing): private build directory and binaries, so that
  # concurrent runs against different copies cannot pick up each other's build
  H=$(echo "$REPO" | md5sum | cut -c1-10)
  WORK="$ROOT/.work/alt-$H"
  BIN="$WORK/bin"
  export VERIF_OUT="$WORK"
fi
mkdir -p "$WORK" "$BIN" "$ROOT/bin"

build() {
  local lock="$WORK/build.lock"
  exec 9>"$lock"
  flock 9
  # module file with the replace directive pointing at the repository being checked
  sed "s#^replace github.com/yuin/gopher-lua => .*#replace github.com/yuin/gopher-lua => $REPO#" go.mod > "$WORK/go.mod"
  cp "$REPO/go.sum" "$WORK/go.sum" 2>/dev/null || true
  MODFLAG="-modfile=$WORK/go.mod"
  # instrumented copy of channellib.go (import "reflect" -> shim), regenerated from the current file
  if ! go run $MODFLAG ./cmd/instr "$REPO/channellib.go" "$WORK/channellib_instr.go" >"$WORK/instr.log" 2>&1; then
    cat "$WORK/instr.log" >&2; echo "HARNESS-ERROR: instrumenting channellib.go failed" >&2; exit 2
  fi
  cat > "$WORK/overlay.json" <<JSON
{"Replace": {
  "$REPO/verif_access.go": "$ROOT/overlay/lua/verif_access.go",
  "$REPO/channellib.go": "$WORK/channellib_instr.go",
  "$REPO/verifshim/rshim/rshim.go": "$ROOT/overlay/rshim/rshim.go"
}}
JSON
  if ! go build $MODFLAG -tags verif -overlay "$WORK/overlay.json" -o "$BIN/check" ./cmd/check >"$WORK/build.log" 2>&1; then
    cat "$WORK/build.log" >&2; echo "HARNESS-ERROR: build failed" >&2; exit 2
  fi
  if [ "${1:-}" = "C13" ]; then
    # free-running bodies under the race detector (complement of the cooperative scheduler)
    if ! go build $MODFLAG -race -tags verif -overlay "$WORK/overlay.json" -o "$BIN/racepass" ./cmd/racepass >"$WORK/build-race.log" 2>&1; then
      cat "$WORK/build-race.log" >&2; echo "HARNESS-ERROR: race build failed" >&2; exit 2
    fi
  fi
  flock -u 9
}

case "${1:-}" in
  build) build C13; exit 0;;
  "") echo "usage: run.sh <Cnn> [quick|thorough] | replay <file> | build" >&2; exit 2;;
esac
build "$@"
export VERIF_BIN="$BIN"
# The checker runs many interpreter states in parallel goroutines. If the Go runtime kills the
# process because two of them touched the same map ("fatal error: concurrent map ..."), states are
# sharing interpreter-owned memory: that is a violation of the property under check (its programs
# cannot be computing what they compute alone), not a harness failure, and it is reported as one.
ERRLOG="$WORK/stderr-${1:-x}-$$.log"
"$BIN/check" "$@" 2> >(tee "$ERRLOG" >&2)
rc=$?
if [ $rc -ne 0 ] && [ $rc -ne 1 ]; then sleep 0.5; fi # let the tee finish writing the trace
if [ $rc -ne 0 ] && [ $rc -ne 1 ] && grep -q "^fatal error: concurrent map" "$ERRLOG" 2>/dev/null; then
  OUT="${VERIF_OUT:-$ROOT}"
  mkdir -p "$OUT/replays"
  RP="$OUT/replays/$1-runtime-concurrent-map.txt"
  head -60 "$ERRLOG" > "$RP"
  echo "VIOLATION property=$1 replay=$RP"
  echo "  signature: runtime/concurrent-map-access-between-states"
  echo "  the Go runtime stopped the checker: interpreter states running in parallel goroutines wrote the same map ($(grep -m1 -A4 '^goroutine .*running' "$ERRLOG" | grep -m1 'gopher-lua' | tr -d '\t'))"
  rm -f "$ERRLOG"
  exit 1
fi
rm -f "$ERRLOG"
exit $rc
