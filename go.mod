module verif

go 1.23

require github.com/yuin/gopher-lua v0.0.0

replace github.com/yuin/gopher-lua => /repo
