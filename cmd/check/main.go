// check <Cnn> [quick|thorough]      run one property check
// check replay <file>               re-execute a stored replay artefact without the explorer
// check list                        list registered checks
package main

import (
	"encoding/json"
	"fmt"
	"os"
	"runtime/debug"
	"runtime/pprof"

	"verif/internal/harness"
	_ "verif/internal/props"
)

func main() {
	if len(os.Args) < 2 {
		fmt.Fprintln(os.Stderr, "usage: check <Cnn> [quick|thorough] | replay <file> | list")
		os.Exit(2)
	}
	switch os.Args[1] {
	case "list":
		for _, p := range harness.Registered() {
			fmt.Println(p)
		}
		return
	case "replay":
		if len(os.Args) < 3 {
			harness.Fatal("replay needs a file")
		}
		b, err := os.ReadFile(os.Args[2])
		if err != nil {
			harness.Fatal("%v", err)
		}
		var rec struct {
			Property string          `json:"property"`
			Replay   json.RawMessage `json:"replay"`
		}
		if err := json.Unmarshal(b, &rec); err != nil {
			harness.Fatal("%v", err)
		}
		f := harness.LookupReplay(rec.Property)
		if f == nil {
			harness.Fatal("no replayer for %s", rec.Property)
		}
		ok, report := f(rec.Replay)
		fmt.Println(report)
		if !ok {
			fmt.Printf("VIOLATION property=%s replay=%s\n", rec.Property, os.Args[2])
			os.Exit(1)
		}
		return
	}
	prop := os.Args[1]
	tier := "quick"
	if len(os.Args) > 2 {
		tier = os.Args[2]
	} else if t := os.Getenv("VERIF_TIER"); t != "" {
		tier = t
	}
	if tier != "quick" && tier != "thorough" {
		harness.Fatal("tier must be quick or thorough")
	}
	level, f, ok := harness.Lookup(prop)
	if !ok {
		harness.Fatal("unknown check %s", prop)
	}
	debug.SetGCPercent(400)
	if pf := os.Getenv("VERIF_CPUPROFILE"); pf != "" {
		fh, err := os.Create(pf)
		if err == nil {
			pprof.StartCPUProfile(fh)
		}
	}
	r := harness.NewRun(prop, tier, level)
	f(r)
	pprof.StopCPUProfile()
	os.Exit(r.Finish())
}
