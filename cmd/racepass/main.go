// racepass runs the thread bodies of the C13 scenarios free-running (no cooperative scheduler) so
// that the Go race detector can observe unsynchronised accesses: several LStates in different
// goroutines share one compiled FunctionProto and exchange values through channel objects while
// other states are created, compile the same source and are closed. Built with -race by run.sh.
package main

import (
	"fmt"
	"os"
	"strconv"
	"sync"

	lua "github.com/yuin/gopher-lua"
	"github.com/yuin/gopher-lua/parse"
	"strings"
)

const computeSrc = `
--[[ every token kind of the lexer occurs in this source: two states load it at the same time
     (long comment) ]] --[==[ level-2 ]] comment ]==]
local long = [[long
string]] .. [=[ ]] ]=] .. "esc\65\n\"q\"" .. 'single' .. 0x10 .. 1e2 .. .5
local t, s = {}, ""
for i = 1, 40 do t[i] = i * 2 s = s .. (i % 10) end
local function mk(k) local n = k return function() n = n + 1 return n end end
local c = mk(5)
local sum = 0
for i, v in ipairs(t) do sum = sum + v + c() end
local mt = setmetatable({}, {__index = function(_, k) return k .. "!" end, __add = function(a, b) return 7 end})
local r = mt.x .. (mt + 1) .. string.rep("ab", 3) .. #s .. string.format("%d:%5.2f:%s", sum, 1.5, "z") .. tostring(("x"):upper())
local parts = {} for w in ("a,b,c"):gmatch("[^,]+") do parts[#parts + 1] = w end
table.sort(t, function(a, b) return a > b end)
local co = coroutine.wrap(function(a) local b = coroutine.yield(a + 1) return b * 2 end)
-- debug and error routes that consult the prototype's call-site and line tables
local hs = {function() return debug.traceback("tb") end, function() return tostring(debug.getinfo(1, "n").name) end, function() error("boom") end}
local dbg = #hs[1]() .. hs[2]() .. select(2, pcall(hs[3])) .. select(2, xpcall(function() return hs[3]() end, debug.traceback)):sub(1, 20) .. debug.getinfo(1, "l").currentline
local function tailer() return hs[2]() end
return r .. table.concat(parts) .. t[1] .. co(1) .. co(4) .. select("#", pcall(error, "e")) .. math.floor(3.7) .. os.time{year=2000, month=1, day=1, hour=0} .. dbg .. tailer() .. -(1 + 2) .. #long .. long:sub(-9) .. (sum % (24 * 60 * 60) + (2 ^ 3) * sum + (sum - -(1 + 2)))
`

const poolSrc = `
local function rec(n, bottom) local a = n local r if n == 0 then r = bottom and bottom() or 0 else r = rec(n - 1, bottom) end if a ~= n then error("frame") end return r + n end
if rec(20) ~= 210 then return "rec" end
local ok, msg = pcall(rec, 20, function() error("E", 0) end)
if ok or msg ~= "E" then return "pcall" end
local co = coroutine.wrap(function() return rec(12, function() return coroutine.yield(1) end) end)
if co() ~= 1 or co(100) ~= 178 then return "co" end
if rec(30) ~= 465 then return "rec30" end
return "ok"
`

const producerSrc = `for i = 1, N do ch:send(i) ch:send({i, tostring(i)}) end ch:close()`
const consumerSrc = `local n = 0 while true do local ok, v = ch:receive() if not ok then break end n = n + 1 end return n`
const selectSrc = `local n = 0 for i = 1, N do channel.select({"|<-", ch, function(ok, v) n = n + 1 end}, {"default", function() end}) end return n`

func main() {
	rounds := 30
	if len(os.Args) > 1 {
		rounds, _ = strconv.Atoi(os.Args[1])
	}
	chunk, err := parse.Parse(strings.NewReader(computeSrc), "compute")
	if err != nil {
		panic(err)
	}
	proto, err := lua.Compile(chunk, "compute")
	if err != nil {
		panic(err)
	}
	var want string
	{
		L := lua.NewState()
		L.Push(L.NewFunctionFromProto(proto))
		if err := L.PCall(0, 1, nil); err != nil {
			panic(err)
		}
		want = L.Get(-1).String()
		L.Close()
	}
	var wg sync.WaitGroup
	var mu sync.Mutex
	bad := 0
	for g := 0; g < 8; g++ {
		wg.Add(1)
		go func(g int) {
			defer wg.Done()
			for r := 0; r < rounds; r++ {
				L := lua.NewState()
				switch g % 4 {
				case 0, 1: // run the shared prototype
					L.Push(L.NewFunctionFromProto(proto))
					if err := L.PCall(0, 1, nil); err != nil || L.Get(-1).String() != want {
						mu.Lock()
						bad++
						fmt.Println("MISMATCH shared prototype run:", err)
						mu.Unlock()
					}
				case 2: // compile the same source again and run it
					if err := L.DoString(computeSrc); err != nil {
						mu.Lock()
						bad++
						fmt.Println("MISMATCH compile+run:", err)
						mu.Unlock()
					}
				case 3: // create, open libraries, close
				}
				L.Close()
			}
		}(g)
	}
	// several goroutines compile one parsed chunk: Compile only reads the syntax tree it is given
	for g := 0; g < 4; g++ {
		wg.Add(1)
		go func() {
			defer wg.Done()
			for r := 0; r < rounds; r++ {
				if _, err := lua.Compile(chunk, "compute"); err != nil {
					mu.Lock()
					bad++
					fmt.Println("MISMATCH compile of the shared chunk:", err)
					mu.Unlock()
				}
			}
		}()
	}
	// states with segmented call stacks: the segments come from a process-wide pool and go back to it
	// when an error unwinds the stack and when the state is closed
	for g := 0; g < 4; g++ {
		wg.Add(1)
		go func(g int) {
			defer wg.Done()
			for r := 0; r < rounds*4; r++ {
				L := lua.NewState(lua.Options{MinimizeStackMemory: true, CallStackSize: 120})
				err := L.DoString(poolSrc)
				if err != nil || L.Get(-1).String() != "ok" {
					mu.Lock()
					bad++
					fmt.Println("MISMATCH segmented call stack:", err, L.Get(-1))
					mu.Unlock()
				}
				L.Close()
			}
		}(g)
	}
	// channel traffic between states
	for pair := 0; pair < 3; pair++ {
		ch := make(chan lua.LValue, pair) // capacities 0, 1, 2
		for _, src := range []string{producerSrc, consumerSrc, selectSrc} {
			wg.Add(1)
			go func(src string) {
				defer wg.Done()
				L := lua.NewState()
				defer L.Close()
				L.SetGlobal("ch", lua.LChannel(ch))
				L.SetGlobal("N", lua.LNumber(rounds*4))
				if err := L.DoString(src); err != nil {
					mu.Lock()
					bad++
					fmt.Println("MISMATCH channel script:", err)
					mu.Unlock()
				}
			}(src)
		}
	}
	wg.Wait()
	if bad > 0 {
		os.Exit(3)
	}
	fmt.Println("racepass ok")
}
