// instr <in.go> <out.go>: copy a Go source file of package lua, replacing the import "reflect" by
// the scheduling shim (same identifiers, pass-through unless a scheduler is installed). Nothing
// else in the file is touched.
package main

import (
	"fmt"
	"go/ast"
	"go/format"
	"go/parser"
	"go/token"
	"os"
	"strconv"
)

func main() {
	if len(os.Args) != 3 {
		fmt.Fprintln(os.Stderr, "usage: instr in.go out.go")
		os.Exit(2)
	}
	fset := token.NewFileSet()
	f, err := parser.ParseFile(fset, os.Args[1], nil, parser.ParseComments)
	if err != nil {
		fmt.Fprintln(os.Stderr, err)
		os.Exit(1)
	}
	for _, imp := range f.Imports {
		p, _ := strconv.Unquote(imp.Path.Value)
		if p == "reflect" {
			imp.Path.Value = strconv.Quote("github.com/yuin/gopher-lua/verifshim/rshim")
			imp.Name = ast.NewIdent("reflect")
		}
	}
	out, err := os.Create(os.Args[2])
	if err != nil {
		fmt.Fprintln(os.Stderr, err)
		os.Exit(1)
	}
	defer out.Close()
	fmt.Fprintln(out, "//line "+os.Args[1]+":1")
	if err := format.Node(out, fset, f); err != nil {
		fmt.Fprintln(os.Stderr, err)
		os.Exit(1)
	}
}
