/* cref — libc reference oracle for the C15 check (string.format "as C printf does").
 *
 * usage: cref printf < cases > results
 *
 * Each input line:   directive <TAB> kind <TAB> argument
 *   directive  one printf conversion specification without a length modifier, e.g. "%-05.3d"
 *              (printable ASCII, no TAB); "%%" for the literal percent sign
 *   kind       how lstrlib.c (Lua 5.1.4, str_format) converts the Lua argument before sprintf:
 *                d  (long long) of the double                   -> %d %i   ("ll" is inserted)
 *                u  (unsigned long long)(long long) of the double -> %o %x %X ("ll" is inserted)
 *                   (negative values therefore print as 64-bit two's complement, which is what
 *                   (unsigned long)d yields on the LP64 platforms Lua 5.1 runs on)
 *                c  (int) of the double                         -> %c
 *                f  the double itself                           -> %e %E %f
 *                s  a string                                    -> %s
 *                n  no argument                                 -> %%
 *   argument   d,u,c,f: the IEEE-754 bit pattern of the double as 16 hex digits
 *              s: the string bytes, hex encoded (may be empty; must not contain 00)
 *              n: "-"
 * Each output line: the bytes produced by snprintf, hex encoded (length = snprintf's return value),
 * or "!<reason>" if the line could not be evaluated.
 */
#include <stdio.h>
#include <stdlib.h>
#include <string.h>
#include <stdint.h>

#define OUTMAX 4096

static int hexval(int c) {
  if (c >= '0' && c <= '9') return c - '0';
  if (c >= 'a' && c <= 'f') return c - 'a' + 10;
  if (c >= 'A' && c <= 'F') return c - 'A' + 10;
  return -1;
}

static void puthex(const unsigned char *p, int n) {
  static const char *d = "0123456789abcdef";
  for (int i = 0; i < n; i++) { putchar(d[p[i] >> 4]); putchar(d[p[i] & 15]); }
  putchar('\n');
}

static int do_printf(void) {
  static char line[1 << 16];
  static char out[OUTMAX];
  static char sarg[1 << 15];
  while (fgets(line, sizeof line, stdin)) {
    size_t L = strlen(line);
    while (L > 0 && (line[L - 1] == '\n' || line[L - 1] == '\r')) line[--L] = 0;
    char *t1 = strchr(line, '\t');
    if (!t1) { puts("!fields"); continue; }
    *t1 = 0;
    char *kind = t1 + 1;
    char *t2 = strchr(kind, '\t');
    if (!t2) { puts("!fields"); continue; }
    *t2 = 0;
    char *arg = t2 + 1;
    const char *dir = line;
    size_t dl = strlen(dir);
    if (dl < 2 || dir[0] != '%' || dl > 40 || strlen(kind) != 1) { puts("!directive"); continue; }
    char form[64];
    int n = -1;
    double d = 0;
    if (strchr("ducf", kind[0])) {
      if (strlen(arg) != 16) { puts("!bits"); continue; }
      uint64_t bits = 0;
      int ok = 1;
      for (int i = 0; i < 16; i++) { int h = hexval(arg[i]); if (h < 0) ok = 0; bits = (bits << 4) | (uint64_t)(h & 15); }
      if (!ok) { puts("!bits"); continue; }
      memcpy(&d, &bits, sizeof d);
    }
    switch (kind[0]) {
    case 'd':
    case 'u': {
      /* insert the length modifier before the conversion character, as lstrlib's addintlen does */
      memcpy(form, dir, dl - 1);
      form[dl - 1] = 'l'; form[dl] = 'l'; form[dl + 1] = dir[dl - 1]; form[dl + 2] = 0;
      if (kind[0] == 'd') n = snprintf(out, sizeof out, form, (long long)d);
      else n = snprintf(out, sizeof out, form, (unsigned long long)(long long)d);
      break;
    }
    case 'c':
      n = snprintf(out, sizeof out, dir, (int)d);
      break;
    case 'f':
      n = snprintf(out, sizeof out, dir, d);
      break;
    case 's': {
      size_t al = strlen(arg);
      if (al % 2 != 0 || al / 2 >= sizeof sarg) { puts("!string"); continue; }
      size_t k = 0;
      int ok = 1;
      for (size_t i = 0; i + 1 < al + 1 && i < al; i += 2) {
        int a = hexval(arg[i]), b = hexval(arg[i + 1]);
        if (a < 0 || b < 0 || (a == 0 && b == 0)) { ok = 0; break; }
        sarg[k++] = (char)(a * 16 + b);
      }
      if (!ok) { puts("!string"); continue; }
      sarg[k] = 0;
      n = snprintf(out, sizeof out, dir, sarg);
      break;
    }
    case 'n':
      n = snprintf(out, sizeof out, dir);
      break;
    default:
      puts("!kind");
      continue;
    }
    if (n < 0 || n >= (int)sizeof out) { puts("!length"); continue; }
    puthex((const unsigned char *)out, n);
  }
  return 0;
}

int main(int argc, char **argv) {
  if (argc >= 2 && strcmp(argv[1], "printf") == 0) return do_printf();
  fprintf(stderr, "usage: cref printf < cases\n");
  return 2;
}
