//go:build verif

// White-box accessors and a per-instruction step hook for the verification harness in /verif.
// This file is NOT part of the repository: it is added to package lua at build time through
// `go build -tags verif -overlay` (see /verif/run.sh). It only reads interpreter state, except for
// VerifInstallStepHook, which wraps the entries of jumpTable.
package lua

import (
	"fmt"
	"reflect"
	"sort"
	"strings"
)

// ---------------------------------------------------------------------------------------------
// step hook

var verifStepHook func(*LState)
var verifOrigJumpTable [opCodeMax + 1]instFunc
var verifHookInstalled bool

// VerifInstallStepHook makes h run immediately before every VM instruction of every LState in the
// process (h == nil removes the hook but keeps the wrappers). Not safe for concurrent installation.
func VerifInstallStepHook(h func(*LState)) {
	verifStepHook = h
	if verifHookInstalled {
		return
	}
	verifHookInstalled = true
	verifOrigJumpTable = jumpTable
	for i := range jumpTable {
		orig := verifOrigJumpTable[i]
		if orig == nil {
			continue
		}
		jumpTable[i] = func(L *LState, inst uint32, baseframe *callFrame) int {
			if verifStepHook != nil {
				verifStepHook(L)
			}
			return orig(L, inst, baseframe)
		}
	}
}

// VerifUninstallStepHook restores the original jump table.
func VerifUninstallStepHook() {
	if verifHookInstalled {
		jumpTable = verifOrigJumpTable
		verifHookInstalled = false
	}
	verifStepHook = nil
}

// ---------------------------------------------------------------------------------------------
// snapshots

type VerifFrame struct {
	Idx, Pc, Base, LocalBase, ReturnBase, NArgs, NRet, TailCall int
	IsG                                                         bool
}

type VerifSnap struct {
	Sp           int
	Top          int
	HasFrame     bool
	HasErrorFunc bool
	PanicSet     bool
	Dead         bool
	HasParent    bool
	IsCurrent    bool
	Wrapped      bool
	RegLen       int
	OpenUpvalues []int // register indices of the open upvalue list, in list order
	Frames       []VerifFrame
}

func VerifSnapshot(L *LState) VerifSnap {
	s := VerifSnap{
		Sp:           L.stack.Sp(),
		Top:          L.reg.top,
		HasFrame:     L.currentFrame != nil,
		HasErrorFunc: L.hasErrorFunc,
		PanicSet:     L.Panic != nil,
		Dead:         L.Dead,
		HasParent:    L.Parent != nil,
		IsCurrent:    L.G.CurrentThread == L,
		Wrapped:      L.wrapped,
		RegLen:       len(L.reg.array),
	}
	for uv := L.uvcache; uv != nil; uv = uv.next {
		s.OpenUpvalues = append(s.OpenUpvalues, uv.index)
	}
	for i := 0; i < s.Sp; i++ {
		cf := L.stack.At(i)
		s.Frames = append(s.Frames, VerifFrame{cf.Idx, cf.Pc, cf.Base, cf.LocalBase, cf.ReturnBase, cf.NArgs, cf.NRet, cf.TailCall, cf.Fn != nil && cf.Fn.IsG})
	}
	return s
}

// VerifQuiescent describes what is left on a state after its outermost protected call has
// returned: nothing may be ("" = clean).
func VerifQuiescent(L *LState) string {
	switch {
	case L.stack.Sp() != 0:
		return fmt.Sprintf("%d call frames left on the call stack", L.stack.Sp())
	case L.uvcache != nil:
		return fmt.Sprintf("open upvalue left for register %d although no frame is alive", L.uvcache.index)
	case L.G.CurrentThread != nil && L.G.CurrentThread != L.G.MainThread:
		return "G.CurrentThread does not name the main thread"
	case L.Parent != nil:
		return "the main thread has a parent"
	case L.Dead:
		return "the main thread is dead"
	}
	return ""
}

// VerifDepth is the cheap part of the snapshot.
func VerifDepth(L *LState) (sp, top int) { return L.stack.Sp(), L.reg.top }

// VerifCurrentFrame returns the current frame's fields (ok=false when there is none).
func VerifCurrentFrame(L *LState) (VerifFrame, bool) {
	cf := L.currentFrame
	if cf == nil {
		return VerifFrame{}, false
	}
	return VerifFrame{cf.Idx, cf.Pc, cf.Base, cf.LocalBase, cf.ReturnBase, cf.NArgs, cf.NRet, cf.TailCall, cf.Fn != nil && cf.Fn.IsG}, true
}

// VerifRegisters copies reg.array[lo:hi] (clamped).
func VerifRegisters(L *LState, lo, hi int) []LValue {
	if lo < 0 {
		lo = 0
	}
	if hi > len(L.reg.array) {
		hi = len(L.reg.array)
	}
	if hi <= lo {
		return nil
	}
	out := make([]LValue, hi-lo)
	copy(out, L.reg.array[lo:hi])
	return out
}

func VerifHasContext(L *LState) bool { return L.ctx != nil }

// ---------------------------------------------------------------------------------------------
// prototypes

func (fp *FunctionProto) VerifStringConstants() []string { return fp.stringConstants }

// VerifProtoDump renders every field of a prototype tree (code, constants with their types, line
// and debug tables, nested prototypes), for "executing a prototype never modifies it".
func VerifProtoDump(p *FunctionProto) string {
	var b []byte
	var walk func(p *FunctionProto)
	walk = func(p *FunctionProto) {
		b = append(b, fmt.Sprintf("{%q %d %d u%d p%d v%d r%d code%v ", p.SourceName, p.LineDefined, p.LastLineDefined, p.NumUpvalues, p.NumParameters, p.IsVarArg, p.NumUsedRegisters, p.Code)...)
		for _, c := range p.Constants {
			b = append(b, fmt.Sprintf("%d:%q,", int(c.Type()), c.String())...)
		}
		b = append(b, fmt.Sprintf(" sc%q pos%v loc[", p.stringConstants, p.DbgSourcePositions)...)
		for _, l := range p.DbgLocals {
			b = append(b, fmt.Sprintf("%s:%d:%d,", l.Name, l.StartPc, l.EndPc)...)
		}
		b = append(b, fmt.Sprintf("] calls%v ups%q ", p.DbgCalls, p.DbgUpvalues)...)
		for _, c := range p.FunctionPrototypes {
			walk(c)
		}
		b = append(b, '}')
	}
	walk(p)
	return string(b)
}

// ---------------------------------------------------------------------------------------------
// tables

type VerifTableShape struct {
	ArrayLen      int
	ArrayNil      []bool
	NKeys         int
	KeysNil       int // entries of keys that are nil (none expected)
	DictLen       int
	StrDictLen    int
	K2ILen        int
	Consistent    bool
	Inconsistency string
}

func VerifTableShapeOf(tb *LTable) VerifTableShape {
	s := VerifTableShape{ArrayLen: len(tb.array), NKeys: len(tb.keys), DictLen: len(tb.dict), StrDictLen: len(tb.strdict), K2ILen: len(tb.k2i), Consistent: true}
	for _, v := range tb.array {
		s.ArrayNil = append(s.ArrayNil, v == nil || v == LNil)
	}
	bad := func(m string) {
		if s.Consistent {
			s.Consistent = false
			s.Inconsistency = m
		}
	}
	for i, k := range tb.keys {
		if k == nil {
			s.KeysNil++
			continue
		}
		if j, ok := tb.k2i[k]; !ok || j != i {
			bad("k2i[keys[i]] != i")
		}
	}
	for k := range tb.dict {
		if _, ok := tb.k2i[k]; !ok {
			bad("dict key missing from k2i")
		}
	}
	for k := range tb.strdict {
		if _, ok := tb.k2i[LString(k)]; !ok {
			bad("strdict key missing from k2i")
		}
	}
	return s
}

// VerifTableKeyString renders the internal layout compactly for state keys.
func VerifTableLayout(tb *LTable) string {
	b := make([]byte, 0, 64)
	b = append(b, 'A')
	for _, v := range tb.array {
		if v == nil || v == LNil {
			b = append(b, '0')
		} else {
			b = append(b, '1')
		}
	}
	b = append(b, 'K')
	for _, k := range tb.keys {
		if k == nil {
			b = append(b, '-', ',')
			continue
		}
		b = append(b, k.String()...)
		b = append(b, byte('0'+int(k.Type())), ',')
	}
	return string(b)
}

// ---------------------------------------------------------------------------------------------
// call-frame stacks and registries as stand-alone structures (C12)

type VerifStack struct{ s callFrameStack }

func VerifNewFixedStack(n int) *VerifStack { return &VerifStack{newFixedCallFrameStack(n)} }
func VerifNewAutoStack(n int) *VerifStack  { return &VerifStack{newAutoGrowingCallFrameStack(n)} }
func (v *VerifStack) Push(tag int) {
	v.s.Push(callFrame{Pc: tag, Base: tag + 1, LocalBase: tag + 2, ReturnBase: tag + 3, NArgs: tag + 4, NRet: tag + 5, TailCall: tag + 6})
}
func frameTag(cf *callFrame) (tag int, idx int, ok bool) {
	if cf == nil {
		return 0, 0, false
	}
	t := cf.Pc
	if cf.Base != t+1 || cf.LocalBase != t+2 || cf.ReturnBase != t+3 || cf.NArgs != t+4 || cf.NRet != t+5 || cf.TailCall != t+6 {
		return -1, cf.Idx, true
	}
	return t, cf.Idx, true
}
func (v *VerifStack) Pop() (int, int, bool)     { return frameTag(v.s.Pop()) }
func (v *VerifStack) Last() (int, int, bool)    { return frameTag(v.s.Last()) }
func (v *VerifStack) At(i int) (int, int, bool) { return frameTag(v.s.At(i)) }
func (v *VerifStack) SetSp(sp int)              { v.s.SetSp(sp) }
func (v *VerifStack) Sp() int                   { return v.s.Sp() }
func (v *VerifStack) IsFull() bool              { return v.s.IsFull() }
func (v *VerifStack) IsEmpty() bool             { return v.s.IsEmpty() }
func (v *VerifStack) FreeAll()                  { v.s.FreeAll() }

// VerifPoisonSegmentPool puts k garbage-filled segments into the shared segment pool.
func VerifPoisonSegmentPool(k int) {
	segs := make([]*callFrameStackSegment, 0, k)
	for i := 0; i < k; i++ {
		seg := newCallFrameStackSegment()
		for j := range seg.array {
			seg.array[j] = callFrame{Idx: 7777, Pc: 9999, Base: 1, LocalBase: 2, ReturnBase: 3, NArgs: 4, NRet: 5, TailCall: 6}
		}
		segs = append(segs, seg)
	}
	for _, seg := range segs {
		segmentPool.Put(seg)
	}
}

type verifRegHandler struct{ overflows int }

func (h *verifRegHandler) registryOverflow() {
	h.overflows++
	panic(verifRegistryOverflow{})
}

type verifRegistryOverflow struct{}

type VerifRegistry struct {
	r *registry
	h *verifRegHandler
}

func VerifNewRegistry(initial, grow, max int) *VerifRegistry {
	h := &verifRegHandler{}
	return &VerifRegistry{newRegistry(h, initial, grow, max, newAllocator(32)), h}
}

// Do runs f and reports whether the overflow handler fired.
func (v *VerifRegistry) Do(f func()) (overflow bool, other interface{}) {
	defer func() {
		if r := recover(); r != nil {
			if _, ok := r.(verifRegistryOverflow); ok {
				overflow = true
			} else {
				other = r
			}
		}
	}()
	f()
	return
}
func (v *VerifRegistry) Push(x LValue)                       { v.r.Push(x) }
func (v *VerifRegistry) Pop() LValue                         { return v.r.Pop() }
func (v *VerifRegistry) Get(i int) LValue                    { return v.r.Get(i) }
func (v *VerifRegistry) Set(i int, x LValue)                 { v.r.Set(i, x) }
func (v *VerifRegistry) SetNumber(i int, x LNumber)          { v.r.SetNumber(i, x) }
func (v *VerifRegistry) SetTop(i int)                        { v.r.SetTop(i) }
func (v *VerifRegistry) Top() int                            { return v.r.Top() }
func (v *VerifRegistry) CopyRange(regv, start, limit, n int) { v.r.CopyRange(regv, start, limit, n) }
func (v *VerifRegistry) FillNil(regm, n int)                 { v.r.FillNil(regm, n) }
func (v *VerifRegistry) Insert(x LValue, reg int)            { v.r.Insert(x, reg) }
func (v *VerifRegistry) Len() int                            { return len(v.r.array) }
func (v *VerifRegistry) Raw(i int) LValue {
	if i < 0 || i >= len(v.r.array) {
		return nil
	}
	return v.r.array[i]
}
func (v *VerifRegistry) Overflows() int { return v.h.overflows }

// ---------------------------------------------------------------------------------------------
// misc

// VerifThreadStack lists the chain of parents of L (L first).
func VerifThreadChain(L *LState) []*LState {
	var out []*LState
	for t := L; t != nil; t = t.Parent {
		out = append(out, t)
	}
	return out
}

func VerifSortedInts(a []int) []int {
	b := append([]int(nil), a...)
	sort.Ints(b)
	return b
}

// VerifTableDump exposes the raw internal content of a table: the array part, the insertion-ordered
// key list with the values currently stored under those keys in the hash parts (nil when deleted),
// and the sizes of the two hash maps.
func VerifTableDump(tb *LTable) (array []LValue, keys []LValue, vals []LValue, dictLen, strdictLen int) {
	array = tb.array
	keys = tb.keys
	vals = make([]LValue, len(tb.keys))
	for i, k := range tb.keys {
		if s, ok := k.(LString); ok {
			if v, ok := tb.strdict[string(s)]; ok {
				vals[i] = v
			}
		} else if v, ok := tb.dict[k]; ok {
			vals[i] = v
		}
	}
	return array, keys, vals, len(tb.dict), len(tb.strdict)
}

// ---------------------------------------------------------------------------------------------
// C10: allocation-free comparison of a register range with a reference copy

// VerifRegistersInto copies reg.array[lo:hi] (clamped) into buf (grown when needed).
func VerifRegistersInto(L *LState, lo, hi int, buf []LValue) []LValue {
	if lo < 0 {
		lo = 0
	}
	if hi > len(L.reg.array) {
		hi = len(L.reg.array)
	}
	buf = buf[:0]
	if hi <= lo {
		return buf
	}
	return append(buf, L.reg.array[lo:hi]...)
}

// VerifRegistersDiffer returns the first index i in [lo,hi) with reg.array[i] != ref[i-lo], or -1.
// A range that no longer fits the array reports its first missing index.
func VerifRegistersDiffer(L *LState, lo, hi int, ref []LValue) int {
	if lo < 0 {
		lo = 0
	}
	for i := lo; i < hi; i++ {
		if i >= len(L.reg.array) || i-lo >= len(ref) {
			return i
		}
		if L.reg.array[i] != ref[i-lo] {
			return i
		}
	}
	return -1
}

// VerifRegCap is len(reg.array).
func VerifRegCap(L *LState) int { return len(L.reg.array) }

// VerifShrinkRegistry gives an idle state (nothing on its value stack) the registry capacity it was
// created with again, so that a reused state meets registry growth in every run like a fresh one.
func VerifShrinkRegistry(L *LState) {
	if L.reg.top == 0 && L.Options.RegistryMaxSize > L.Options.RegistrySize && cap(L.reg.array) > L.Options.RegistrySize {
		L.reg.array = make([]LValue, L.Options.RegistrySize)
	}
}

// VerifIsCurrentThread: the state executing a host function is the one the global state records
// as running (coroutine.running/status are derived from that record).
func VerifIsCurrentThread(L *LState) bool { return L.G.CurrentThread == nil || L.G.CurrentThread == L }

// VerifResidue renders the part of a state's private bookkeeping that a completed outermost
// protected call must leave exactly as it found it: every flag (bool field) of the LState and of
// its call-frame stack - also flags this file does not know by name -, the counters of the stack
// and the registry, which of the frame/upvalue/parent links are set, the identity of the main
// loop, and the number of call-stack segments the stack still refers to beyond the one in use.
// The harness compares the rendering after every run with the one taken when the state was new.
func VerifResidue(L *LState) string {
	var b strings.Builder
	flags := func(prefix string, v reflect.Value, ints bool) {
		t := v.Type()
		for i := 0; i < v.NumField(); i++ {
			f, name := v.Field(i), t.Field(i).Name
			switch f.Kind() {
			case reflect.Bool:
				if name == "hasErrorFunc" {
					continue // written, never read
				}
				fmt.Fprintf(&b, "%s%s=%v ", prefix, name, f.Bool())
			case reflect.Int, reflect.Int8, reflect.Int16, reflect.Int32, reflect.Int64:
				if ints {
					fmt.Fprintf(&b, "%s%s=%d ", prefix, name, f.Int())
				}
			case reflect.Uint, reflect.Uint8, reflect.Uint16, reflect.Uint32, reflect.Uint64:
				if ints {
					fmt.Fprintf(&b, "%s%s=%d ", prefix, name, f.Uint())
				}
			}
		}
	}
	flags("L.", reflect.ValueOf(L).Elem(), false)
	fmt.Fprintf(&b, "L.stop=%d L.Parent=%v L.currentFrame=%v L.uvcache=%v L.Env-is-globals=%v L.mainLoop=%x ", L.stop, L.Parent != nil, L.currentFrame != nil, L.uvcache != nil, L.Env == L.G.Global, reflect.ValueOf(L.mainLoop).Pointer())
	if sv := reflect.ValueOf(L.stack); sv.Kind() == reflect.Ptr && sv.Elem().Kind() == reflect.Struct {
		flags("stack.", sv.Elem(), true)
	}
	if cs, ok := L.stack.(*autoGrowingCallFrameStack); ok {
		n := 0
		for i, seg := range cs.segments {
			if seg != nil && i > int(cs.segIdx) {
				n++
			}
		}
		fmt.Fprintf(&b, "stack.segments-beyond-current=%d ", n)
	}
	fmt.Fprintf(&b, "reg.growBy=%d reg.maxSize=%d G.CurrentThread-is-main=%v", L.reg.growBy, L.reg.maxSize, L.G.CurrentThread == nil || L.G.CurrentThread == L.G.MainThread)
	return b.String()
}
