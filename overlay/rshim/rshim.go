// Package rshim stands in for the subset of package reflect that channellib.go uses, so that every
// channel operation of the Lua channel library announces itself to a scheduler installed by the
// verification harness. With no scheduler installed it is a transparent pass-through.
// Added to the build through `go build -overlay`; not part of the repository.
package rshim

import (
	"reflect"
)

type Kind = reflect.Kind
type Type = reflect.Type
type SelectDir = reflect.SelectDir
type ChanDir = reflect.ChanDir

const (
	SelectSend    = reflect.SelectSend
	SelectRecv    = reflect.SelectRecv
	SelectDefault = reflect.SelectDefault
	Invalid       = reflect.Invalid
	Chan          = reflect.Chan
)

func TypeOf(i interface{}) reflect.Type { return reflect.TypeOf(i) }

// Value wraps reflect.Value; channel operations are intercepted, everything else is promoted.
type Value struct{ reflect.Value }

func ValueOf(i interface{}) Value { return Value{reflect.ValueOf(i)} }

type SelectCase struct {
	Dir  SelectDir
	Chan Value
	Send Value
}

// Scheduler is what the harness installs. Each method is called on the goroutine that performs the
// operation, *before* the real operation; it blocks until the scheduler lets the operation proceed.
// For Select it returns the index the real select must take (-1: perform the real select as is).
type Scheduler interface {
	// BeforeOp announces an operation. kind: "send" "recv" "close" "trysend" "tryrecv" "select".
	// It may panic with a sentinel to unwind a thread at the end of an execution.
	BeforeOp(op *Op) (choice int)
	// AfterOp reports what the real operation did.
	AfterOp(op *Op, res *Result)
}

type OpCase struct {
	Dir  SelectDir
	Chan uintptr // identity of the channel (0 for nil/default)
	Val  interface{}
	Cap  int
	Raw  reflect.Value
}

type Op struct {
	Kind  string
	Chan  uintptr
	Cap   int
	Val   interface{}
	Cases []OpCase
	Raw   reflect.Value
}

type Result struct {
	Index    int
	Val      interface{}
	OK       bool
	Panicked interface{}
}

// Sched is read at every operation; set it before starting the threads of an execution.
var Sched Scheduler

func chanID(v reflect.Value) (uintptr, int) {
	if !v.IsValid() || v.Kind() != reflect.Chan || v.IsNil() {
		return 0, 0
	}
	return v.Pointer(), v.Cap()
}

func iface(v reflect.Value) interface{} {
	if !v.IsValid() || !v.CanInterface() {
		return nil
	}
	return v.Interface()
}

// Len is a scheduling point too: code that looks at a channel's fill level and then acts on it has
// a window between the look and the act.
func (v Value) Len() int {
	n := v.Value.Len()
	if s := Sched; s != nil && v.Value.IsValid() && v.Value.Kind() == reflect.Chan {
		// the scheduler gets control after the look: what the caller does next is based on n
		id, c := chanID(v.Value)
		s.BeforeOp(&Op{Kind: "len", Chan: id, Cap: c, Raw: v.Value})
	}
	return n
}

func (v Value) Send(x Value) {
	s := Sched
	if s == nil {
		v.Value.Send(x.Value)
		return
	}
	id, c := chanID(v.Value)
	op := &Op{Kind: "send", Chan: id, Cap: c, Val: iface(x.Value), Raw: v.Value}
	s.BeforeOp(op)
	res := &Result{OK: true}
	defer func() {
		if r := recover(); r != nil {
			res.Panicked = r
			s.AfterOp(op, res)
			panic(r)
		}
		s.AfterOp(op, res)
	}()
	v.Value.Send(x.Value)
}

func (v Value) Recv() (Value, bool) {
	s := Sched
	if s == nil {
		x, ok := v.Value.Recv()
		return Value{x}, ok
	}
	id, c := chanID(v.Value)
	op := &Op{Kind: "recv", Chan: id, Cap: c, Raw: v.Value}
	s.BeforeOp(op)
	x, ok := v.Value.Recv()
	s.AfterOp(op, &Result{Val: iface(x), OK: ok})
	return Value{x}, ok
}

func (v Value) TrySend(x Value) bool {
	s := Sched
	if s == nil {
		return v.Value.TrySend(x.Value)
	}
	id, c := chanID(v.Value)
	op := &Op{Kind: "trysend", Chan: id, Cap: c, Val: iface(x.Value), Raw: v.Value}
	s.BeforeOp(op)
	res := &Result{}
	defer func() {
		if r := recover(); r != nil {
			res.Panicked = r
			s.AfterOp(op, res)
			panic(r)
		}
		s.AfterOp(op, res)
	}()
	res.OK = v.Value.TrySend(x.Value)
	return res.OK
}

func (v Value) TryRecv() (Value, bool) {
	s := Sched
	if s == nil {
		x, ok := v.Value.TryRecv()
		return Value{x}, ok
	}
	id, c := chanID(v.Value)
	op := &Op{Kind: "tryrecv", Chan: id, Cap: c, Raw: v.Value}
	s.BeforeOp(op)
	x, ok := v.Value.TryRecv()
	s.AfterOp(op, &Result{Val: iface(x), OK: ok, Index: map[bool]int{false: 0, true: 1}[x.IsValid()]})
	return Value{x}, ok
}

func (v Value) Close() {
	s := Sched
	if s == nil {
		v.Value.Close()
		return
	}
	id, c := chanID(v.Value)
	op := &Op{Kind: "close", Chan: id, Cap: c, Raw: v.Value}
	s.BeforeOp(op)
	res := &Result{OK: true}
	defer func() {
		if r := recover(); r != nil {
			res.Panicked = r
			s.AfterOp(op, res)
			panic(r)
		}
		s.AfterOp(op, res)
	}()
	v.Value.Close()
}

// Select performs reflect.Select. Under a scheduler the choice among ready cases is the
// scheduler's: the real select is executed on a copy of the cases in which every case but the
// chosen one has a nil channel (a nil-channel case is never ready), so the index returned by the
// real operation is unchanged and Go's own pseudo-random pick is removed.
func Select(cases []SelectCase) (int, Value, bool) {
	rc := make([]reflect.SelectCase, len(cases))
	for i, c := range cases {
		rc[i] = reflect.SelectCase{Dir: c.Dir, Chan: c.Chan.Value, Send: c.Send.Value}
	}
	s := Sched
	if s == nil {
		i, v, ok := reflect.Select(rc)
		return i, Value{v}, ok
	}
	op := &Op{Kind: "select"}
	for _, c := range rc {
		id, cp := chanID(c.Chan)
		op.Cases = append(op.Cases, OpCase{Dir: c.Dir, Chan: id, Cap: cp, Val: iface(c.Send), Raw: c.Chan})
	}
	choice := s.BeforeOp(op)
	if choice >= 0 && choice < len(rc) {
		for i := range rc {
			if i == choice {
				continue
			}
			if rc[i].Dir == reflect.SelectDefault {
				// a default case cannot be disabled by a nil channel: turn it into a never-ready receive
				rc[i] = reflect.SelectCase{Dir: reflect.SelectRecv, Chan: reflect.ValueOf((chan struct{})(nil))}
				continue
			}
			if !rc[i].Chan.IsValid() {
				continue
			}
			rc[i].Chan = reflect.Zero(rc[i].Chan.Type())
		}
	}
	res := &Result{}
	defer func() {
		if r := recover(); r != nil {
			res.Panicked = r
			s.AfterOp(op, res)
			panic(r)
		}
		s.AfterOp(op, res)
	}()
	i, v, ok := reflect.Select(rc)
	res.Index, res.Val, res.OK = i, iface(v), ok
	return i, Value{v}, ok
}
