#!/bin/bash
# tools/seedkeep.sh <seed-dir>: confirm a seed (tools/seedtest.sh incl. the repository's tests) and, if it
# meets the criteria (applies, builds, repository tests pass, demonstration fails with the change and
# passes without), keep it under /verif/seeded/<id>/ with the confirmation recorded in meta.json.
SD=$(cd "$1" && pwd); ID=$(basename "$SD")
line=$(/verif/tools/seedtest.sh "$SD" "${2:-quick}" | tail -1)
echo "$line"
python3 - "$SD" "$ID" "$line" <<'PY'
import json,sys,os,shutil,re
sd,id_,line=sys.argv[1:4]
f=dict(kv.split('=',1) for kv in line.split() if '=' in kv)
ok = f.get('apply')=='ok' and f.get('build')=='ok' and f.get('tests')=='pass' and f.get('demo_with_change_exit','0')!='0' and f.get('demo_without_exit')=='0'
meta=json.load(open(os.path.join(sd,'meta.json')))
sig=line.split('check=',1)[1].split(' ',1)
meta['confirmation']={'applies':f.get('apply'),'builds':f.get('build'),'repository_tests_with_change':f.get('tests'),
  'demo_exit_with_change':f.get('demo_with_change_exit'),'demo_exit_without_change':f.get('demo_without_exit'),
  'what_was_run':'tools/seedtest.sh: git worktree of /repo HEAD, git apply patch.diff, go build ./..., go test -vet=off -count=1 . (demo file moved aside), demo_cmd with and without the change, ./run.sh %s quick with VERIF_REPO=<worktree>'%meta['property'],
  'check_result':sig[0],'check_signature':sig[1].strip() if len(sig)>1 else ''}
if not ok:
    print('NOT KEPT:',id_,f); sys.exit(0)
dst=os.path.join('/verif/seeded',id_)
os.makedirs(dst,exist_ok=True)
for n in os.listdir(sd):
    if n in ('confirm.log','check.out'): continue
    s=os.path.join(sd,n)
    if os.path.isdir(s): shutil.copytree(s,os.path.join(dst,n),dirs_exist_ok=True)
    else: shutil.copy(s,dst)
json.dump(meta,open(os.path.join(dst,'meta.json'),'w'),indent=1)
print('KEPT',id_,meta['confirmation']['check_result'])
PY
