#!/bin/bash
# tools/mut.sh <name> <file> <python-regex-old> <new> -- <check> [tier]
# Applies a textual mutation to a scratch copy of /repo and runs a check against it.
set -e
name=$1; file=$2; old=$3; new=$4; shift 5
S=/root/scratch/mut-$name
rm -rf $S; mkdir -p /root/scratch; cp -r /repo $S; rm -rf $S/.git
python3 - "$S/$file" "$old" "$new" <<'PY'
import sys,re
p,old,new=sys.argv[1:4]
s=open(p).read()
n=len(re.findall(old,s))
if n==0: print("MUTATION PATTERN NOT FOUND"); sys.exit(3)
s=re.sub(old,new,s,count=1)
open(p,'w').write(s)
# keep vm.go/_vm.go irrelevant: only compiled files matter
PY
cd /verif
VERIF_REPO=$S ./run.sh "$@" 2>&1 | grep -E "^(VIOLATION|KNOWN|C[0-9]+ |HARNESS|  signature)" | head -${MUT_LINES:-8}
echo "exit=${PIPESTATUS[0]}"
rm -rf $S /verif/.work/alt-$(echo "$S" | md5sum | cut -c1-10)
