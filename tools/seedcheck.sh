#!/bin/bash
# tools/seedcheck.sh <seed-id> <Cnn> [tier]: run one check against a kept seed (scratch worktree), print DETECTED/MISSED + first signatures
ID=$1; PROP=$2; TIER=${3:-quick}
S=/root/scratch/seedchk-$ID-$PROP
git -C /repo worktree remove --force "$S" >/dev/null 2>&1; rm -rf "$S"
git -C /repo worktree add -q --detach "$S" HEAD || exit 2
git -C "$S" apply /verif/seeded/$ID/patch.diff || { echo "$ID apply-failed"; exit 2; }
( cd /verif && VERIF_BUDGET_S=${VERIF_BUDGET_S:-900} VERIF_REPO="$S" timeout 3000 ./run.sh "$PROP" "$TIER" ) > /root/scratch/seedchk-$ID-$PROP.out 2>&1; c=$?
git -C /repo worktree remove --force "$S" >/dev/null 2>&1; rm -rf /verif/.work/alt-$(echo "$S" | md5sum | cut -c1-10)
det=MISSED; [ $c -eq 1 ] && det=DETECTED; [ $c -ge 2 ] && det="HARNESS-ERROR-$c"
echo "$ID vs $PROP: $det $(grep -m2 'signature:' /root/scratch/seedchk-$ID-$PROP.out | sed 's/.*signature: //' | cut -c1-100 | tr '\n' ' ')"
