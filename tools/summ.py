import json,glob,collections,sys
prop=sys.argv[1]
c=collections.Counter(); ex={}
for f in glob.glob('/verif/replays/%s-*.json'%prop):
    d=json.load(open(f)); sig=d['signature']
    key=(sig.split('/')[0],sig.split('/')[-1])
    c[key]+=d.get('cases_with_this_signature',1); ex.setdefault(key,[]).append(d)
for k,v in c.most_common():
    print(k,v,len(ex[k]))
    for d in ex[k][:int(sys.argv[2]) if len(sys.argv)>2 else 1]:
        print('   sig:',d['signature'][:150]); print('   ',str(d['replay'].get('difference',d['what']))[:400].replace('\n','\n    '))
