#!/usr/bin/env python3
# regenerates /verif/seeded/README.md from the meta.json files
import json,glob,os
rows=[]
for f in sorted(glob.glob('/verif/seeded/*/meta.json')):
    m=json.load(open(f)); c=m.get('confirmation',{})
    rows.append((os.path.basename(os.path.dirname(f)),m['property'],m.get('what','').replace('\n',' ')[:160],m.get('needs','').replace('\n',' ')[:120],c.get('check_result','?'),c.get('check_signature','')[:80]))
out=['# Independently seeded property-breaking changes','',
'Each directory holds `patch.diff` (apply with `git -C /repo apply`, undo with `git -C /repo checkout -- .`), the demonstration written by the sub-agent that saw only the property text, and `meta.json` (property, what the change needs to manifest, what was run to confirm it, and which check signature fired). Every kept change compiles, passes the repository\'s 81 tests, and its demonstration fails with the change and passes without it (confirmed in a scratch worktree by `tools/seedtest.sh`).','',
'| seed | property | change | needs | quick check | signature |','|---|---|---|---|---|---|']
for r in rows: out.append('| %s | %s | %s | %s | %s | `%s` |'%r)
det=sum(1 for r in rows if r[4]=='DETECTED')
out+=['','%d seeds kept, %d detected by the quick tier of the property\'s check.'%(len(rows),det)]
ret=sorted(glob.glob('/verif/seeded/retired/*/meta.json'))
if ret:
    out+=['','Retired (kept for the record under `seeded/retired/`, no longer counted):','']
    for f in ret:
        m=json.load(open(f)); out.append('* %s — %s'%(os.path.basename(os.path.dirname(f)),m.get('retired','')))
open('/verif/seeded/README.md','w').write('\n'.join(out)+'\n')
print(len(rows),det)
