#!/bin/bash
# tools/seedbatch.sh <out-dir-of-a-round>/<Cnn> ... : confirm and import every delivered seed below the given
# directories (tools/seedkeep.sh), at most $SEED_PAR (default 4) at a time; one line per seed in $SEED_LOG.
LOG=${SEED_LOG:-/root/scratch/seedbatch.log}
for d in "$@"; do for s in "$d"/out/C*-*/; do [ -f "$s/meta.json" ] && [ -f "$s/patch.diff" ] && echo "$s"; done; done |
  xargs -P ${SEED_PAR:-4} -I{} bash -c '/verif/tools/seedkeep.sh {} 2>&1 | tail -2 | tr "\n" " " >> '"$LOG"'; echo >> '"$LOG"
