#!/bin/bash
# tools/seedtest.sh <seed-dir> [check-tier]
# Confirms an independently written property-breaking change (patch.diff + demonstration + meta.json)
# in a scratch worktree of /repo: applies, builds, runs the repository's tests (must pass), runs the
# demonstration with the change (must fail) and without it (must pass), then runs the property's check
# against the changed tree. Prints one summary line; writes details to <seed-dir>/confirm.log.
set -u
SD=$(cd "$1" && pwd); TIER=${2:-quick}
export GOFLAGS=-mod=mod GOPROXY=off GOSUMDB=off GOTOOLCHAIN=local
PROP=$(python3 -c "import json,sys;print(json.load(open('$SD/meta.json'))['property'])")
DEMO=$(python3 -c "import json,sys;print(json.load(open('$SD/meta.json'))['demo_cmd'])")
ID=$(basename "$SD")
S=/root/scratch/seedrun-$ID
LOG="$SD/confirm.log"; : > "$LOG"
git -C /repo worktree remove --force "$S" >/dev/null 2>&1; rm -rf "$S"
git -C /repo worktree add -q --detach "$S" HEAD || { echo "$ID worktree-failed"; exit 2; }
cd "$S"
for f in "$SD"/*; do case "$(basename $f)" in patch.diff|meta.json|confirm.log) ;; *) cp -r "$f" . ;; esac; done
r_apply=ok; git apply "$SD/patch.diff" >>"$LOG" 2>&1 || r_apply=FAIL
r_build=ok; go build ./... >>"$LOG" 2>&1 || r_build=FAIL
echo "--- demo with change" >>"$LOG"
( timeout 600 bash -c "$DEMO" ) >>"$LOG" 2>&1; d1=$?
r_tests=skipped
if [ "${SEED_SKIP_TESTS:-0}" != 1 ]; then
  echo "--- repository tests with change" >>"$LOG"
  # the demonstration file must not take part in the repository's own suite
  mkdir -p /root/scratch/seedhold-$ID; mv seed_*_test.go /root/scratch/seedhold-$ID/ 2>/dev/null
  if timeout 1200 go test -vet=off -count=1 . >>"$LOG" 2>&1; then r_tests=pass; else r_tests=FAIL; fi
  mv /root/scratch/seedhold-$ID/* . 2>/dev/null; rmdir /root/scratch/seedhold-$ID 2>/dev/null
fi
echo "--- check $PROP $TIER against the changed tree" >>"$LOG"
( cd /verif && VERIF_BUDGET_S=${VERIF_BUDGET_S:-900} VERIF_REPO="$S" timeout 3000 ./run.sh "$PROP" "$TIER" ) > "$SD/check.out" 2>&1; c=$?
grep -E "^(VIOLATION|KNOWN|C[0-9]+ |HARNESS|  signature)" "$SD/check.out" | head -12 >>"$LOG"
git apply -R "$SD/patch.diff" >>"$LOG" 2>&1
echo "--- demo without change" >>"$LOG"
( timeout 600 bash -c "$DEMO" ) >>"$LOG" 2>&1; d0=$?
cd /; git -C /repo worktree remove --force "$S" >/dev/null 2>&1; rm -rf /verif/.work/alt-$(echo "$S" | md5sum | cut -c1-10)
det=MISSED; [ $c -eq 1 ] && det=DETECTED; [ $c -ge 2 ] && det="HARNESS-ERROR-$c"
sig=$(grep -m1 "signature:" "$SD/check.out" | sed 's/.*signature: //' | cut -c1-90)
echo "$ID prop=$PROP apply=$r_apply build=$r_build tests=$r_tests demo_with_change_exit=$d1 demo_without_exit=$d0 check=$det $sig"
