#!/usr/bin/env python3
# Regenerates /verif/MANIFEST.json from the table below (one entry per claimed property).
import json, os
ROOT = os.path.dirname(os.path.dirname(os.path.abspath(__file__)))
props = [json.loads(l) for l in open(os.path.join(ROOT, 'properties.jsonl'))]

C = {}
def check(pid, engine, category, text, note, technique, design):
    C[pid] = dict(engine=engine, category=category, text=text, note=note, technique=technique, design=design)

check("C01", "luaref+gen+glrun", "exploration",
      "Bounded-exhaustive program enumeration: every program of six generator families (multiple assignment x aliasing, operator trees x destination contexts x surrounding code, boolean skeletons, control-flow statement trees, numeric-for triples, table constructors around the flush boundary) is rendered to text, run on gopher-lua and on an independent reference interpreter, and host-call trace, results, failure and failure line are compared.",
      "Bounded size of terms and alphabets; the reference interpreter luaref is the executable reading of the Lua 5.1 manual (trusted, small, independent of the repository); outcomes Lua 5.1 leaves open are not compared.",
      "small-scope exhaustive enumeration of programs against an executable reference model (bounded model checking of the implementation)", "DESIGN.md §4 C01")
check("C09", "histbfs", "model_checking",
      "Explicit-state breadth-first search over all store histories up to a depth bound (16 keys of every type x 4 values x 11 store paths + Append), each transition executed on a real LTable; every distinct (map model, internal layout) state is checked with every read path, every length observer, every traversal driver and every single-mutation traversal against a Go map.",
      "Bounded depth (3 quick / 5 thorough); MaxArrayIndex lowered to 8 in the checking process so the array/hash boundary is reachable; keys and values outside the alphabet are not covered.",
      "explicit-state BFS of operation histories on the real table with a reference map", "DESIGN.md §4 C09")
check("C15", "inputenum", "exploration",
      "Exhaustive small-scope enumeration of string-function arguments (all strings up to a length bound over a byte alphabet x all index pairs in a window), of format directives x argument values against libc snprintf, and of math arguments against exact / big.Float oracles; math.random ranges over all seeds 0..63.",
      "Alphabets and bounds as listed in the evidence; libc snprintf in the C locale is the meaning of 'as C printf does'; transcendental functions are judged within 2 ulp of a 320-bit reference.",
      "small-scope exhaustive input enumeration against definitions written from the manual and libc", "DESIGN.md §4 C15")
check("C18", "histbfs", "model_checking",
      "Explicit-state BFS over list-operation histories (insert/remove/assignment/sort through Lua and the Go table API) from the empty list and from every list of length <= 3, with a slice model; every distinct (model, internal array layout) state is observed through #, getn, maxn, rawget, concat and unpack over all index pairs; plus an exhaustive sort family (all short lists x table builds x 20 comparators incl. failing-on-k-th-call).",
      "Bounded depth (5 quick / 7 thorough) and list lengths; values {1,2,3,\"a\"}.",
      "explicit-state BFS of operation histories on real tables with a slice model; exhaustive small-scope sort inputs", "DESIGN.md §4 C18")

engines = [
 {"name":"histbfs","path":"internal/props (c09.go, c18.go, ...)","kind_free_text":"explicit-state BFS over operation histories; successor = replay on a fresh real object + 1 operation; state key = reference model + white-box layout"},
 {"name":"luaref+gen+glrun","path":"internal/luaref, internal/glrun, internal/props/progrun.go","kind_free_text":"bounded-exhaustive program generators, reference Lua 5.1 interpreter, trace comparison with gopher-lua"},
 {"name":"inputenum","path":"internal/props","kind_free_text":"exhaustive enumeration of inputs over small alphabets against reference definitions"},
]
for e in engines:
    e["serves_properties"] = sorted(p for p, c in C.items() if c["engine"] == e["name"])

checks = []
for pid in sorted(C):
    c = C[pid]
    checks.append({
        "property_id": pid,
        "quick_cmd": "./run.sh %s quick" % pid,
        "thorough_cmd": "./run.sh %s thorough" % pid,
        "evidence_file": "/verif/evidence/%s.json" % pid,
        "replay_cmd_template": "./run.sh replay {path}",
        "engine": c["engine"],
        "level_claimed": {"category": c["category"], "text": c["text"], "design_ref": c["design"]},
        "level_note": c["note"],
        "technique": c["technique"],
    })
na = [{"property_id": p["id"], "reason": "check not built yet in this session (work in progress; DESIGN.md §9 build order) — bounded-exhaustive checking applies, nothing is claimed until the check exists"} for p in props if p["id"] not in C]
m = {"version": 1,
     "setup_cmd": "./setup.sh",
     "hooks": {"guard": "verif",
               "enable": "go build -tags verif -overlay .work/overlay.json (the overlay adds verif_access.go to package lua and a reflect shim for channellib.go; no hook code is committed in /repo)",
               "baseline_off_cmd": "cd /repo && GOFLAGS=-mod=mod GOPROXY=off GOSUMDB=off GOTOOLCHAIN=local go test -vet=off -count=1 ./...",
               "source_commits": [], "add_only": True},
     "engines": engines, "checks": checks, "not_applicable": na,
     "notes": "All checks are ./run.sh <id> <tier>; run.sh rebuilds bin/check from /repo's working tree with the verif overlay before every run. Genuine defects repaired in /repo are 'fix:' commits listed in KNOWN_FINDINGS.jsonl (status fixed); open findings print KNOWN-FINDING lines."}
json.dump(m, open(os.path.join(ROOT, 'MANIFEST.json'), 'w'), indent=1)
print("claimed:", sorted(C), "not claimed:", [x["property_id"] for x in na])
