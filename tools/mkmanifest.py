#!/usr/bin/env python3
# Regenerates /verif/MANIFEST.json from the table below (one entry per claimed property).
import json, os
ROOT = os.path.dirname(os.path.dirname(os.path.abspath(__file__)))
props = [json.loads(l) for l in open(os.path.join(ROOT, 'properties.jsonl'))]

C = {}
def check(pid, engine, category, text, note, technique, design):
    C[pid] = dict(engine=engine, category=category, text=text, note=note, technique=technique, design=design)

check("C01", "luaref+gen+glrun", "exploration",
      "Bounded-exhaustive program enumeration: every program of six generator families (multiple assignment x aliasing, operator trees x destination contexts x surrounding code, boolean skeletons, control-flow statement trees, numeric-for triples, table constructors around the flush boundary) is rendered to text, run on gopher-lua and on an independent reference interpreter, and host-call trace, results, failure and failure line are compared. Added families: F-goto (every placement of up to 3-4 goto/label statements over two names in a nest of blocks; verdict from a transcription of the label rules - invalid programs must be refused by the loader), F-genfor, F-constobj, F-localscope, the closure families of C03, and operands/destinations as function parameters.",
      "Bounded size of terms and alphabets; the reference interpreter luaref is the executable reading of the Lua 5.1 manual (trusted, small, independent of the repository); outcomes Lua 5.1 leaves open are not compared.",
      "small-scope exhaustive enumeration of programs against an executable reference model (bounded model checking of the implementation)", "DESIGN.md §4 C01")
check("C09", "histbfs", "model_checking",
      "Explicit-state breadth-first search over all store histories up to a depth bound (16 keys of every type x 4 values x 11 store paths + Append), each transition executed on a real LTable; every distinct (map model, internal layout) state is checked with every read path, every length observer, every traversal driver and every single-mutation traversal against a Go map. A second, narrow phase (one key per representation, store/erase only) runs to depth 8 (thorough 12), also from tables created by CreateTable with empty/pre-sized parts; a bulk part traverses tables of 1-300 hash fields while existing fields are cleared (6 scenarios x 3 drivers).",
      "Bounded depth (3 quick / 4 thorough); MaxArrayIndex lowered to 8 in the checking process so the array/hash boundary is reachable; keys and values outside the alphabet are not covered.",
      "explicit-state BFS of operation histories on the real table with a reference map", "DESIGN.md §4 C09")
check("C15", "inputenum", "exploration",
      "Exhaustive small-scope enumeration of string-function arguments (all strings up to a length bound over a byte alphabet x all index pairs in a window), of format directives x argument values against libc snprintf, and of math arguments against exact / big.Float oracles; math.random ranges over all seeds 0..63.",
      "Alphabets and bounds as listed in the evidence; libc snprintf in the C locale is the meaning of 'as C printf does'; transcendental functions are judged within 2 ulp of a 320-bit reference.",
      "small-scope exhaustive input enumeration against definitions written from the manual and libc", "DESIGN.md §4 C15")
check("C18", "histbfs", "model_checking",
      "Explicit-state BFS over list-operation histories (insert/remove/assignment/sort through Lua and the Go table API) from the empty list and from every list of length <= 3, with a slice model; every distinct (model, internal array layout) state is observed through #, getn, maxn, rawget, concat and unpack over all index pairs; plus an exhaustive sort family (all short lists x table builds x 20 comparators incl. failing-on-k-th-call). Also: lists holding false, lists of up to 20 000 elements, explicit-nil optional arguments, insert of nil, pinned cases.",
      "Bounded depth (5 quick / 7 thorough) and list lengths; values {1,2,3,\"a\"}.",
      "explicit-state BFS of operation histories on real tables with a slice model; exhaustive small-scope sort inputs", "DESIGN.md §4 C18")

check("C02", "luaref+gen+glrun", "exploration",
      "Complete product of callee shape x argument list x result context x callee kind (Lua, host Go function, __call object, method with near and far constant, pcall) x ordinary/tail position; every select(n, ...) and unpack(t, i, j) over small ranges; multi-result counts around the 50-item flush boundary; tail-recursive loops for each callee kind with white-box (call depth, registry top) snapshots per iteration and 10^6 iterations under CallStackSize 8. Each program runs on gopher-lua and on the reference interpreter. Every family also runs below 30 (thorough: 110) vararg frames of different sizes.",
      "Bounded numbers of parameters/arguments (0-4) and results; luaref is the reading of Lua 5.1 call/return adjustment; periodicity of the white-box snapshot stands in for 'without bound'.",
      "small-scope exhaustive enumeration of call shapes against an executable reference model; state-recurrence argument for proper tail calls", "DESIGN.md §4 C02")
check("C03", "luaref+gen+glrun", "exploration",
      "Product of capture site x captured variable kind x exit route (fall-through, break, goto out/continue, return, tail call, error/fault under pcall/xpcall, coroutine abandoned/dying/returning) x iteration of the exit x what runs afterwards x use (read, write through one closure and read through another), plus variables of live frames captured before a protected call fails, plus getfenv/setfenv programs; reference interpreter models variables as heap cells; white-box check that no open upvalue points above the live frames after a protected call. F-nest: the complete product of 7 block kinds nested to depth 2 (thorough 3) x capture none/own/all per level x 10 exit kinds x exit level/position/iteration, also as the first thing in a function without parameters or locals.",
      "Bounded loop counts (3) and nesting; instruction-level fault injection for closures is part of C05.",
      "small-scope exhaustive enumeration of closure programs against an executable reference model + white-box invariant", "DESIGN.md §4 C03")
check("C04", "luaref+gen+glrun", "exploration",
      "Complete product of event x ordered operand pair (15 operands: tables/userdata sharing or not sharing metatables and handlers, plain values) x operand form (local, constant, upvalue) x context (value, branch, tail) x handler result; __index/__newindex function and table chains incl. depth 99/100/101; __call in every call context; __tostring, __metatable, raw functions. Handlers log event, argument identities and order. F-chain: complete product of 1-3 linked tables x key absent/present/false x __index none/table/function x __newindex none/table/logging/rawsetting x key form; the call/index families also under registries that grow stepwise from 128 slots, with F-callalign (a __call object invoked from frames of 95-140 locals).",
      "luaref implements the manual's §2.8 pseudo-code; not judged: __len on tables, second argument of __unm, __gc/__mode, callable tables as handlers, setmetatable argument checking.",
      "small-scope exhaustive enumeration of metamethod dispatch against an executable reference model", "DESIGN.md §4 C04")
check("C06", "luaref+histbfs", "model_checking",
      "Explicit-state BFS over coroutine drive histories (create/wrap over 15 body kinds, resume/call of any of 3 slots with 0/1/3 payload values, generic-for over a wrapped generator); after every step the status of every coroutine and coroutine.running() are observed; each history is rendered as a program and executed from scratch on gopher-lua and on the reference interpreter; states merged on the model's abstract state; plus the same bodies driven through LState.NewThread/Resume. Also: the program families of C01-C03 as coroutine bodies that suspend after every observable event (with a register-hungry call or a second coroutine between resumes), yields below 14 kinds of call boundary, Go functions as bodies, creation chains to depth 4 x every resume sequence (with and without a live context), value-stack exhaustion inside coroutines, crash canaries in child processes.",
      "Histories complete to depth 3 (quick) / 5 (thorough) plus one level of resumes; resume of a normal coroutine and yields below call boundaries are judged by lcorolib.c/ldo.c (refusal, error at the yield).",
      "explicit-state BFS over operation histories, every trace replayed on the implementation and compared with an executable reference model", "DESIGN.md §4 C06")
check("C07", "bcverify", "exploration",
      "Structural bytecode verifier written from opcode.go/vm.go (independent of the compiler) applied to every prototype of: the repository's test scripts, boundary families around every documented limit (locals, parameters, upvalues, constants, constructor sizes, nesting, jump distances) and every sequence of <=3 statement kinds in every block position; accepted programs are also executed and compared with predicted results; 39 verifier rules are self-tested on damaged prototypes. Added families: constructors of up to 51 151 items as operands, the implicit arg table of vararg functions.",
      "Bounded program sizes; operand classes already out of the declared register range on the unchanged tree are known findings (one per root cause), every other class is a violation.",
      "exhaustive enumeration of program families + structural verification of every compiled prototype", "DESIGN.md §4 C07")
check("C10", "histbfs", "model_checking",
      "BFS over value-stack operation histories (Push/Pop/Get/SetTop/Insert/Remove/Replace/GetTop with boundary indices) inside host functions at activation depth 0-3 with 0-3 arguments on fixed and growing registries against a Go slice, callers' registers compared bit-for-bit; complete call-contract matrix (nargs x NRet x results x callee kind x entry point x outcome); object-level API calls compared with the same operation as a Lua chunk over all operand pairs incl. handler logs. Also: pseudo-indices and environments inside host functions that have an environment of their own (GlobalsIndex/EnvironIndex/RegistryIndex, GetGlobal/SetGlobal vs __index/__newindex of the global table).",
      "Bounded history depth (6 quick / 8 thorough merged; 3/4 unmerged); Insert at non-positive or beyond-top indices only checked for list-ness.",
      "explicit-state BFS of API operation histories on real states with a slice model; exhaustive call/operand matrices", "DESIGN.md §4 C10")
check("C20", "histbfs", "model_checking",
      "BFS over require/preload histories (3 module names x 6 loader sources x 11 loader behaviours incl. mutual and self requires; require, pcall(require), re-registration, package.loaded[x]=nil, RegisterModule), each history replayed on a fresh LState with real files, against a Go model of ll_require; result identity, loader invocation log, error classes/messages and package.loaded read-back compared on every transition; plus host-module/open-order scenarios. Pinned cases for the repaired precedence of a loader's return value and for a replaced package.loaders.",
      "Bounded depth (2-5 quick, 3-7 thorough depending on alphabet); which of returned/stored value wins is judged by pinned cases only.",
      "explicit-state BFS of operation histories on real states with a reference model", "DESIGN.md §4 C20")

check("C16", "inputenum", "exploration",
      "Exhaustive enumeration of string literal forms (every escape, \\ddd for 0..255 in every width/follow context, backslash-newline in four line-end styles, long brackets of level 0-3 over a 7-byte alphabet), of %q round trips (all byte strings of length <= 2 plus a 9-byte alphabet to length 4), of numeral spellings (all strings up to length 5/7 over a 16-letter alphabet through eleven readers: lexer, tonumber with and without base, arithmetic coercion), of tostring/tonumber value families with 1-ulp neighbours, and of os.date/os.time over three fixed-offset zones and ~270k timestamps per zone.",
      "Alphabets and bounds as listed in the evidence; spellings on which ISO C strtod and the property text disagree are not judged.",
      "small-scope exhaustive input enumeration against reference grammars written from the manual", "DESIGN.md §4 C16")
check("C17", "luaref+gen+glrun", "exploration",
      "30 fault-site kinds x 10 enclosing block kinds x a layout set (four line-end styles, tabs, indentation, semicolons, leading lines, six comment forms, redundant parentheses, and a line break inserted at every single token gap of the program); the reference interpreter derives the admissible line range from the token lines recorded by the printer for that very layout. debug.getinfo currentline/linedefined/lastlinedefined probes and debug.getlocal/getupvalue/setlocal/setupvalue probes inserted at every statement gap of ten scope-exercising programs. Added: debug.getlocal/setlocal at every statement gap of every nesting of 8 block kinds (depth 2, thorough 3) with shadowed names; block-boundary layouts (every carriage return in turn as the last byte of a 4096-byte read block) and programs with every kind of line end inside long strings and comments.",
      "A statement spread over several lines admits any of its lines; temporaries and hidden loop variables are ignored; upvalue lists are compared as sets.",
      "small-scope exhaustive enumeration of programs x layouts against an executable reference model with token positions", "DESIGN.md §4 C17")

check("C05", "faultenum", "fault_enumeration",
      "Deviation-bounded fault enumeration on the real interpreter: 171 base programs (protected region kind pcall/xpcall/Go PCall/protected CallByParam/coroutine.resume/wrap-in-pcall, nested up to 3 deep, in caller loops, entered from metamethods/comparators/gsub callbacks/iterators/host callbacks) x 12 body kinds; one run per instruction boundary with RaiseError injected there (every boundary of the fault-free run, through the per-instruction step hook), one run per host-function call with a Go panic / nil dereference / RaiseError / error(table) raised inside it; thorough tier adds a second fault after the first recovery. Oracle: no escaping Go panic, innermost region fails exactly once, trace = fault-free prefix ++ failure ++ fault-free continuation, white-box snapshot restored, xpcall handler ran once before unwinding, canary program behaves as on a fresh state. error(v) for values of every type is compared with the reference interpreter. Also: coroutine families (errors on an exhausted value stack, below call boundaries, Go functions as bodies) against the reference interpreter, Go-side Resume as a protected entry point, a white-box current-thread invariant on every recorded host call and a quiescence invariant after every run, pinned cases for repaired defects.",
      "Base programs and their instruction boundaries (about 10^5 fault points quick); injected RaiseError at a boundary is the fault cancellation produces; expected traces are derived from the validated fault-free run of the same program.",
      "exhaustive single-fault (and bounded double-fault) injection at every instruction boundary and host call of a program family, with trace and white-box state oracles", "DESIGN.md §4 C05")
check("C12", "histbfs", "model_checking",
      "BFS over operation histories of the unexported call-frame stacks (fixed and auto-growing, sizes around segment boundaries, poisoned segment pool) and of the registry (initial/grow/max combinations) against slice models; end-to-end limit cases on real states (recursion depth limit-2..limit+2 for CallStackSize 1..18,256 x MinimizeStackMemory in 12 protected contexts; argument/unpack/constructor sizes straddling the registry limit for fixed and growing registries) with snapshot, follow-up and closure oracles; a program corpus under 24 Options configurations with identical traces required. Part 4 runs program families under registries that really grow (start >= 128, cut back before every program, padding frames) and value-stack exhaustion inside coroutines under the default registry; pinned Go-API cases.",
      "Bounded history depth and sizes as listed in the evidence; outcomes between CallStackSize and the next segment multiple, and between lower and upper bounds of register demand, are accepted either way but must be clean.",
      "explicit-state BFS of operation histories against slice models + exhaustive boundary windows on real states + configuration product", "DESIGN.md §4 C12")
check("C19", "histbfs", "model_checking",
      "BFS over file-operation histories (write/read by count, line, all, number/lines/seek set-cur-end/flush/setvbuf/close/reopen, operations after close) on 8 initial file images around the 4096-byte buffer boundary x 6 open modes, obeying the ISO C read/write switching rule; each history replayed on a freshly written real file; returned values, cursor, and bytes on disk (via a new handle and os.ReadFile) compared with a byte-slice+cursor model after every step.",
      "Bounded depth (3-6 depending on menu size, quick; 4-7 thorough); real OS I/O errors are not injected.",
      "explicit-state BFS of operation histories on real files with a reference model", "DESIGN.md §4 C19")

check("C11", "faultenum", "fault_enumeration",
      "27 scripts (tight loops, recursion, tail calls, goto loops, pcall/xpcall retry loops, looping error handlers, metamethod recursion, gsub/sort callbacks, iterators, coroutine ping-pong plain/wrapped/nested, host call-backs, terminating programs) x cancellation at every instruction index k up to a horizon: the per-instruction step hook calls the real cancel() at instruction k; for scripts without coroutines an independent poll-counting Context must give the same result. Oracle: error carries the context's reason, bounded number of instructions after k, no host call after k, trace is the prefix of the context-free run, attached-but-undone context changes nothing; blocking receive/send/select are cancelled while parked in the operation (through the reflect shim); coroutines refuse to run after cancellation. Also: coroutine-centred program families on states that carry a live, never cancelled context, compared with the reference interpreter.",
      "Horizon 1500 instructions quick / 12000 thorough per script; child-context cancellation is synchronous; the blocking clause uses a 20 s watchdog only to detect a hang.",
      "exhaustive enumeration of the cancellation point over every instruction boundary of a script family, two independent injection seams", "DESIGN.md §4 C11")
check("C14", "inputenum", "exploration",
      "All patterns up to length 3-4 (quick) / 5-6 (thorough) over a 17-symbol pattern alphabet (plus token sequences, set patterns, back-reference patterns) x all subjects up to length 2-4 over a 5-byte alphabet x init positions, through pm.Find and string.find/match/gmatch/gsub (replacement strings, tables, functions, limits); compared with a line-by-line Go port of lstrlib.c 5.1.4's matcher; character-class table over all 128 ASCII bytes; growth families for the recursion cap in a child process. Block QU: subjects and patterns over the bytes of a multi-byte UTF-8 sequence.",
      "Alphabets and bounds as listed in the evidence; not judged: %f, sets mixing classes and ranges, bytes >= 0x80 outside block QU, replacement escapes other than %0-%9 and %%.",
      "small-scope exhaustive input enumeration against a reference matcher ported from lstrlib.c", "DESIGN.md §4 C14")

check("C08", "inputenum", "exploration",
      "Exhaustive input enumeration: all byte strings up to length 2 (quick) / 3 (thorough); all token sequences up to length 3-5 over a 60/37-token alphabet (joined by a blank and by nothing); every truncation, single-byte deletion and 24 structural-byte substitutions of a program corpus; string/comment openers and escapes; deep-nesting families in a child process. Each input is loaded through LoadString (twice), DoString and parse.Parse+Compile under recover and compared with an independent Lua 5.1 tokenizer/recogniser (Accept/Reject/Unknown). Every accepted corpus program is re-rendered in a layout set (four line-end styles, minimal blanks, tabs, one token per line, semicolons, redundant parentheses, 16 comment/blank forms in every token gap) and must compile to the same code and produce the same trace. Also: 61 376 invalid goto/label placements that the compiler must refuse with a syntax error, and block-boundary renderings (every carriage return of a program in turn as the last byte of the reader's 4096-byte block) of programs with every kind of line end inside long strings and comments, compared with the reference interpreter.",
      "Alphabets and bounds as listed in the evidence; inputs the reference recogniser cannot decide are not judged; 'never hangs' is decided up to a watchdog with isolated re-run.",
      "small-scope exhaustive input enumeration against an independent reference recogniser; differential layout rendering", "DESIGN.md §4 C08")
check("C13", "sched", "model_checking",
      "Stateless schedule exploration under a hand-written cooperative scheduler: every channel scenario (all pairs and triples of 17 thread bodies: producers, consumers, closers, selects with recv/recv, recv/send, recv/default, send/default cases with and without handlers; capacities 0/1/2) and interference scenarios (states running one shared compiled prototype while another state is created, compiles the same source and is closed; scheduling point at every VM instruction) is re-executed from scratch for every schedule with at most 2 (quick) / 3 (thorough) pre-emptions; the scheduler owns every channel operation through a reflect shim and a shadow model of Go channel semantics decides enabledness, forces select choices, detects deadlock and predicts every observation; refused payload types are checked sequentially. The same bodies run free-running under the Go race detector in a separate binary. Also: every route a payload can take into a channel (send, five forms of a select send case, with and without context); a shared-prototype part in which 77 000 family programs and call-site x probe programs are compiled once, the complete prototype tree is dumped before and after, and two states run the same prototype. Quick: pre-emption bound 3, interference bound 2 complete; thorough: 4 and 3.",
      "Pre-emption bound; select against select is not generated; the data-race clause is decided by happens-before detection on the executions of the free-running pass, not by enumeration; memory orderings below sequential consistency are not modelled.",
      "stateless model checking of the implementation: DFS over schedules with iterative context bounding under a controlled scheduler, shadow channel model as oracle; complementary -race pass", "DESIGN.md §4 C13")

# parts added after the original texts were written (DESIGN.md §10.6-10.7)
ADDED = {
 "C01": "Also: eleven call/index/metamethod/closure/loop families once more behind 300 constants (K operands beyond 255), the closure and block-nesting families of C03, goto/label placements judged by the label rules, fractional and constant-prefix keys, white-box residue event after every run.",
 "C02": "Also: every call program once more on objects with protected metatables, the Go-API coroutine part, optional- and surplus-argument spellings, cost of an error after 10^6 tail calls (allocated bytes, failing minus returning).",
 "C03": "Also: the families under growing-registry configurations, optional-argument spellings of getfenv/setfenv, white-box residue event.",
 "C04": "Also: all six families once more with __metatable set in every installed metatable; re-entrancy terms (every callback-taking operation nested in every other one, differential oracle); replaced string __index.",
 "C05": "Also: histories of handled errors followed by a provoked call-stack overflow compared with a fresh state; re-entrancy terms; Go-side Resume as a protected entry point.",
 "C06": "Also: program families of C01-C03 as coroutine bodies suspending after every event; yields across 14 boundary kinds; Go functions as bodies; creation chains; Go-API pinned histories (Resume on wrapped / created threads); re-entrancy terms.",
 "C07": "Also: family 'limits' (label ids, value counts of CALL/VARARG, CLOSURE prototype numbers at their overflow points), declared-only locals, compat arg slot, constructors as operands.",
 "C08": "Also: reader answers (every cut of 26 sources into short reads; a failing reader at every position, alone or with data), invalid goto/label placements, block-boundary layouts, load() re-entrancy.",
 "C09": "Also: narrow-deep phase (depth 8/12), creation roots, bulk tables with clear-during-traversal, bounded traversal drivers.",
 "C10": "Also: the complete __index/__newindex chain product with every access made through GetField/SetField/GetTable/SetTable and judged against the reference interpreter; pseudo-indices and environments; Go nil after Insert above the top.",
 "C11": "Also: families with a live context (yield across boundaries, creation chains); coroutines that predate SetContext (context-free prelude before every run).",
 "C12": "Also: F-opgrow (30 operations that run Lua code inside one instruction x which invocation reallocates the registry), real growth configurations (registry cut back before every program), coroutine nesting (canaries in child processes + depth sweep 1..260), overflow histories.",
 "C13": "Also: pool histories (every history of <= 4/5 operations over two MinimizeStackMemory states, in child processes), seeded-random scenario under the scheduler, syntax-tree immutability of Compile, objects reachable from Lua in two states must be distinct, shared-prototype families with complete prototype dumps.",
 "C14": "Also: re-entrancy terms, optional- and surplus-argument spellings, UTF-8 block, pinned cases of repaired defects.",
 "C15": "Also: optional- and surplus-argument spellings; pinned cases (format errors, extreme positions).",
 "C16": "Also: Unicode-space numerals, optional-argument spellings (tonumber, os.date, os.difftime), pinned cases.",
 "C17": "Also: F-nestlocals and F-firstblock (scope records in every block nesting and at function start), shebang files, CR/LF at read-block boundaries, optional-argument spellings of error/traceback/getinfo.",
 "C18": "Also: lists of 1..20000 elements, lists holding false, explicit-nil arguments, re-entrancy terms (sort inside comparators).",
 "C19": "Also: setvbuf over pending bytes and read-flush-write inside the BFS (state key records what separated the last reads from now), mode and read-format spellings (differential), optional-argument spellings, io.lines re-entrancy.",
 "C20": "Also: histories that alternate Lua steps and Go-API steps (PreloadModule, RegisterModule, replaced package.preload/path/loaders, search-phase failures then repaired).",
}
for pid, extra in ADDED.items():
    C[pid]["text"] = C[pid]["text"].rstrip() + " " + extra

# parts added in round 8 (DESIGN.md §10.6, round 8)
ADDED8 = {
 "C01": "Round 8: folded-versus-computed differential over the sign of zero (6x5 operands x 6 operators x optional negation x 7 forms); fault sites in tail position.",
 "C02": "Round 8: select/unpack/multi-result programs under three growing-registry configurations (registry cut back before every program; below 3-6 padding frames) and F-unpackgrow (lists of 1-300 elements x representation x window, the unpack being the operation that reallocates); many-results product (29 producers of n values at once x 16 sizes x 5 registry configurations, differential against the default registry).",
 "C03": "Round 8: F-nest also over loops written with labels and backward gotos (local behind the label / declared once in front of it): 40 688 programs.",
 "C04": "Round 8: F-opgrow (handlers whose k-th invocation reallocates the registry) under the growth configurations.",
 "C05": "Round 8: every base program again with Options.IncludeGoStackTrace; work inside the handler of a call-stack overflow (12 activities incl. nested protected calls that fail x depth of the calls that follow x stack kind x thread).",
 "C07": "Round 8: limits kind closures-with-upvalues (function expressions with 0/1/2 captured variables in turn, counts around 256/512/1024).",
 "C09": "Round 8: a fresh traversal (emptiness idiom, whole nested loop) started while another one stands on a key it cleared, on tables that were once larger (4 more bulk scenarios).",
 "C11": "Round 8: the context replaced (unrelated, derived, twice) or first attached by a host function during the run, the new context cancelled at every instruction behind the call.",
 "C12": "Round 8: error-then-deeper product (error raised and caught at one fill level, then recursion / unpack / coroutine at another) under every relation of RegistryMaxSize to RegistrySize (0, below, equal, just above, far above), differential against the fixed registry; work inside the overflow handler; many-results product (29 producers x 16 sizes x 5 configurations).",
 "C13": "Round 8: explicit-state search over sequential channel histories (13 operations incl. five select forms x two states sharing two buffered channels, depth 4/5, only non-blocking operations enabled) judged at the level of what the Lua operation returns.",
 "C16": "Round 8: signed hexadecimal strings (26 bodies up to 25 digits x sign x blanks x 5 readers): rejected, or the value the lexer gives the same text.",
 "C17": "Round 8: tail-position fault sites (return error(...), return <host function>(...)) and functions reached by one / two tail calls in F-faultline; goto-loop kinds in F-nestlocals; locals of levels lost to tail calls.",
 "C19": "Round 8: every string a read returned is kept and compared again at the end of the history (a Lua string is a value; it must not share memory with the handle's buffer).",
 "C20": "Round 8: module names given as numbers (5 numerals x 6 sources x both spellings first/second): same observations as the string spelling throughout.",
}
for pid, extra in ADDED8.items():
    C[pid]["text"] = C[pid]["text"].rstrip() + " " + extra

engines = [
 {"name":"histbfs","path":"internal/props (c09.go, c18.go, ...)","kind_free_text":"explicit-state BFS over operation histories; successor = replay on a fresh real object + 1 operation; state key = reference model + white-box layout"},
 {"name":"luaref+gen+glrun","path":"internal/luaref, internal/glrun, internal/props/progrun.go","kind_free_text":"bounded-exhaustive program generators, reference Lua 5.1 interpreter, trace comparison with gopher-lua"},
 {"name":"luaref+histbfs","path":"internal/props/c06.go","kind_free_text":"BFS over histories rendered as programs, executed on gopher-lua and on the reference interpreter"},
 {"name":"bcverify","path":"internal/bcverify, internal/props/c07*.go","kind_free_text":"structural bytecode verifier over exhaustively generated program families"},
 {"name":"faultenum","path":"internal/props/c05.go","kind_free_text":"single/double fault injection at every instruction boundary (step hook) and host call"},
 {"name":"sched","path":"internal/sched, overlay/rshim, cmd/racepass, internal/props/c13.go","kind_free_text":"cooperative scheduler + DFS with pre-emption bound + shadow channel model; free-running -race pass"},
 {"name":"inputenum","path":"internal/props","kind_free_text":"exhaustive enumeration of inputs over small alphabets against reference definitions"},
]
for e in engines:
    e["serves_properties"] = sorted(p for p, c in C.items() if c["engine"] == e["name"])

checks = []
for pid in sorted(C):
    c = C[pid]
    checks.append({
        "property_id": pid,
        "quick_cmd": "./run.sh %s quick" % pid,
        "thorough_cmd": "./run.sh %s thorough" % pid,
        "evidence_file": "/verif/evidence/%s.json" % pid,
        "replay_cmd_template": "./run.sh replay {path}",
        "engine": c["engine"],
        "level_claimed": {"category": c["category"], "text": c["text"], "design_ref": c["design"]},
        "level_note": c["note"],
        "technique": c["technique"],
    })
na = [{"property_id": p["id"], "reason": "check not built yet in this session (work in progress; DESIGN.md §9 build order) — bounded-exhaustive checking applies, nothing is claimed until the check exists"} for p in props if p["id"] not in C]
m = {"version": 1,
     "setup_cmd": "./setup.sh",
     "hooks": {"guard": "verif",
               "enable": "go build -tags verif -overlay .work/overlay.json (the overlay adds verif_access.go to package lua and a reflect shim for channellib.go; no hook code is committed in /repo)",
               "baseline_off_cmd": "cd /repo && GOFLAGS=-mod=mod GOPROXY=off GOSUMDB=off GOTOOLCHAIN=local go test -vet=off -count=1 ./...",
               "source_commits": [], "add_only": True},
     "engines": engines, "checks": checks, "not_applicable": na,
     "notes": "All checks are ./run.sh <id> <tier>; run.sh rebuilds bin/check from /repo's working tree with the verif overlay before every run. Genuine defects repaired in /repo are 'fix:' commits listed in KNOWN_FINDINGS.jsonl (status fixed); open findings print KNOWN-FINDING lines."}
json.dump(m, open(os.path.join(ROOT, 'MANIFEST.json'), 'w'), indent=1)
print("claimed:", sorted(C), "not claimed:", [x["property_id"] for x in na])
