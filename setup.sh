#!/bin/bash
# setup_cmd: build the checker once (warms the Go build cache) from files on disk only.
set -e
cd "$(dirname "$0")"
export GOFLAGS=-mod=mod GOPROXY=off GOSUMDB=off GOTOOLCHAIN=local
./run.sh build
if [ -f ref/cref.c ]; then mkdir -p bin && gcc -O1 -o bin/cref ref/cref.c -lm; fi
echo setup ok
